#!/bin/bash
# Offline setup: verify the interpreter and hypothesis; install from the local wheelhouse if missing.
set -e
cd "$(dirname "${BASH_SOURCE[0]}")"
if ! /venv/bin/python -c "import hypothesis" 2>/dev/null; then
  /venv/bin/pip install --no-index --find-links /opt/veriftools/wheels hypothesis
fi
/venv/bin/python -c "import hypothesis, lmdb, pysodium, msgpack, cbor2, multidict; print('setup ok: hypothesis', hypothesis.__version__)"
mkdir -p .work evidence replays

#!/usr/bin/env python
"""C28 demo: data-object serializations must round-trip losslessly.

Statement: "For any registered data object whose fields hold JSON/CBOR/
MessagePack-representable values (including nested data objects), serializing
to JSON, CBOR or MessagePack and deserializing gives an equal object of the
same class."

Run:  PYTHONPATH=/tmp/seed_C28hunt/src PYTHONDONTWRITEBYTECODE=1 \
      /venv/bin/python /tmp/seed_C28hunt/seed_out/demo.py
Exit 1 if any violation reproduces, else 0.
"""
import os
import sys
import warnings

warnings.simplefilter("ignore")
sys.dont_write_bytecode = True
sys.path.insert(0, os.path.dirname(os.path.abspath(__file__)))

from dataclasses import dataclass, field
from typing import Optional

import hio
assert hio.__file__.startswith('/tmp/seed_C28hunt/src'), hio.__file__

from hio.help import (RegDom, IceRegDom, TymeDom, IceTymeDom, registerify,
                      namify)
from hio.base.hier import Bag, IceBag, Can
from hio.base.multidoing import AckDom, AddrDom

CODECS = (("JSON", "_asjson", "_fromjson"),
          ("CBOR", "_ascbor", "_fromcbor"),
          ("MGPK", "_asmgpk", "_frommgpk"))


def roundtrip(obj):
    """Returns list of (codec, observed) failures for obj, empty when lossless"""
    cls = type(obj)
    fails = []
    for name, ser, des in CODECS:
        try:
            raw = getattr(obj, ser)()
            back = getattr(cls, des)(raw)
        except Exception as ex:
            fails.append((name, f"raised {ex!r}"))
            continue
        if not (type(back) is cls and back == obj):
            fails.append((name, f"got {back!r}"))
    return fails


# ---- data objects used below (module level, real types as hints) -----------

@registerify
@dataclass
class C28Point(RegDom):
    x: int = 0
    y: int = 0

    def __hash__(self):
        return hash((self.__class__.__name__,) + self._astuple())


@registerify
@dataclass
class C28Line(RegDom):       # control: bare class hint, works
    a: C28Point = None
    b: C28Point = None

    def __hash__(self):
        return hash((self.__class__.__name__,))


@registerify
@dataclass
class C28OptLine(RegDom):    # V2: type-correct hint for a None default
    a: C28Point | None = None
    b: Optional[C28Point] = None

    def __hash__(self):
        return hash((self.__class__.__name__,))


@registerify
@dataclass
class C28Poly(RegDom):       # V2: containers of nested data objects
    pts: list[C28Point] = field(default_factory=list)
    named: dict[str, C28Point] = field(default_factory=dict)

    def __hash__(self):
        return hash((self.__class__.__name__,))


@registerify
@dataclass
class C28NoInit(RegDom):     # V4: legal dataclass field option init=False
    x: int = 1
    y: int = field(init=False, default=5)

    def __hash__(self):
        return hash((self.__class__.__name__,) + self._astuple())


@registerify
@dataclass
class C28Circle(RegDom):     # V5: matched _dictify/_datify hook pair
    radius: float = 0.0

    def _dictify(self):
        return dict(diameter=self.radius * 2)

    @staticmethod
    def _datify(d):
        return C28Circle(radius=d["diameter"] / 2)

    def __hash__(self):
        return hash((self.__class__.__name__,))


@registerify
@dataclass
class C28Holder(RegDom):
    c: C28Circle = None

    def __hash__(self):
        return hash((self.__class__.__name__,))


def main():
    from _c28_future_mod import C28FuturePoint, C28FutureLine

    found = 0

    def case(tag, what, obj, expectok=False):
        nonlocal found
        fails = roundtrip(obj)
        if expectok:
            print(f"[control] {what}: {obj!r} -> "
                  f"{'lossless' if not fails else 'FAILS ' + repr(fails)}")
            return
        if fails:
            found += 1
            print(f"\n[{tag}] VIOLATION: {what}")
            print(f"    input    : {obj!r}")
            for codec, obs in fails:
                print(f"    {codec:4} : {obs}")
            print("    required : deserializing gives an equal object of the"
                  " same class")
        else:
            print(f"\n[{tag}] does not reproduce: {what}")

    # controls that work on HEAD: hio's own nested dom and bare class hints
    case("", "hio AckDom(load=AddrDom)", AckDom(load=AddrDom(addr="/tmp/x")),
         expectok=True)
    case("", "bare class hint", C28Line(C28Point(1, 2), C28Point(3, 4)),
         expectok=True)
    case("", "hook pair alone", C28Circle(4.0), expectok=True)

    # V1 nested data object, defining module uses PEP 563 string annotations
    case("V1", "nested data object in a module using "
         "`from __future__ import annotations` (as every hio dom module does)",
         C28FutureLine(a=C28FuturePoint(1, 2), b=C28FuturePoint(3, 4)))

    # V2 nested data object under Optional / union / generic-alias hints
    case("V2a", "nested data object in field hinted `Dom | None` / Optional[Dom]",
         C28OptLine(a=C28Point(1, 2), b=C28Point(3, 4)))
    case("V2b", "nested data objects in field hinted list[Dom]",
         C28Poly(pts=[C28Point(1, 2)]))
    case("V2c", "nested data objects in field hinted dict[str, Dom]",
         C28Poly(named={"a": C28Point(1, 2)}))

    # V3 hio's own registered classes with the generic `value: Any` field
    case("V3a", "hio Bag holding a nested Bag", Bag(value=Bag(value=1)))
    case("V3b", "hio IceBag holding a nested IceBag",
         IceBag(value=IceBag(value=1)))
    case("V3c", "hio Can holding a nested registered dom",
         Can(value=C28Point(1, 2)))

    # V4 field(init=False)
    case("V4", "registered dom with a field(init=False, default=5)",
         C28NoInit(x=3))

    # V5 nested dom with _dictify/_datify hooks (each round-trips alone)
    case("V5", "nested dom that has a matched _dictify/_datify hook pair",
         C28Holder(c=C28Circle(4.0)))

    print(f"\n{found} violating case(s) reproduced")
    return 1 if found else 0


if __name__ == "__main__":
    sys.exit(main())

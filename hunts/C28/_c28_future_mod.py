"""Helper module for demo.py (C28, violation V1).

Data-object module written the way hio's own modules are written
(src/hio/base/hier/bagging.py, canning.py, help/doming.py all start with
`from __future__ import annotations`), so field annotations are strings.
"""
from __future__ import annotations

from dataclasses import dataclass

from hio.help import RegDom, registerify


@registerify
@dataclass
class C28FuturePoint(RegDom):
    x: int = 0
    y: int = 0

    def __hash__(self):
        return hash((self.__class__.__name__,) + self._astuple())


@registerify
@dataclass
class C28FutureLine(RegDom):
    a: C28FuturePoint = None
    b: C28FuturePoint = None

    def __hash__(self):
        return hash((self.__class__.__name__,))

#!/venv/bin/python
"""
C15 adversarial demo: server-sent events must be delivered exactly.

Run:
  PYTHONPATH=/tmp/seed_C15hunt/src PYTHONDONTWRITEBYTECODE=1 /venv/bin/python seed_out/demo.py

Exit 1 if any violation reproduces, 0 if none.
Scenario V2 uses real loopback sockets; it re-executes itself inside a private
network namespace (unshare -n) so it never collides with ports held by others.
"""
import os
import sys
import time
import subprocess
import warnings

warnings.simplefilter("ignore")

ROOT = os.path.dirname(os.path.dirname(os.path.abspath(__file__)))
SRC = os.path.join(ROOT, "src")
if SRC not in sys.path:
    sys.path.insert(0, SRC)
sys.dont_write_bytecode = True

import hio
assert hio.__file__.startswith(SRC), hio.__file__

from hio.base import tyming
from hio.core import tcp
from hio.core.http import clienting

HEAD = (b'HTTP/1.1 200 OK\r\n'
        b'Content-Type: text/event-stream\r\n'
        b'Cache-Control: no-cache\r\n')


def feed(stream, frags=None, extra=b''):
    """Feed a response through clienting.Respondent the way Client does:
    bytes land in the shared msg bytearray, then .parse() is called."""
    msg = bytearray()
    r = clienting.Respondent(msg=msg, method='GET')
    msg.extend(HEAD + extra + b'\r\n')
    r.parse()
    for f in (frags if frags is not None else [stream]):
        msg.extend(f)
        r.parse()
    return r


def chunked(pieces):
    msg = bytearray()
    r = clienting.Respondent(msg=msg, method='GET')
    msg.extend(HEAD + b'Transfer-Encoding: chunked\r\n\r\n')
    r.parse()
    for p in pieces:
        msg.extend(b'%x\r\n' % len(p) + p + b'\r\n')
        r.parse()
    return r


def report(tag, failed, inp, observed, required):
    print("=" * 72)
    print("{0}: {1}".format(tag, "VIOLATION REPRODUCED" if failed else "ok (not reproduced)"))
    print("  input    : {0}".format(inp))
    print("  observed : {0}".format(observed))
    print("  required : {0}".format(required))
    return 1 if failed else 0


def v1_empty_data():
    """An event whose data is empty (a lone `data` / `data:` line) is dispatched
    by the stream (WHATWG: data buffer is LF, not empty) but hio drops it."""
    bad = 0
    for eol in (b'\n', b'\r\n', b'\r'):
        stream = eol.join([b'id: 1', b'event: ping', b'data:', b'',
                           b'id: 2', b'data: x', b'', b''])
        want = [{'id': '1', 'name': 'ping', 'data': ''},
                {'id': '2', 'name': '', 'data': 'x'}]
        for label, r in (("plain one read", feed(stream)),
                         ("plain bytewise", feed(stream, frags=[stream[i:i+1] for i in range(len(stream))])),
                         ("chunked", chunked([stream[:7], stream[7:]]))):
            got = list(r.events)
            bad |= report("V1 empty-data event [{0}, eol={1!r}]".format(label, eol),
                          got != want, repr(stream), got,
                          "'the client yields exactly the events the stream dispatches' -> {0}".format(want))
    return bad


def v3_content_length():
    stream = b'retry: 250\nid: 1\nevent: e\ndata: a\n\nid: 2\ndata: b\n\n'
    want = [{'id': '1', 'name': 'e', 'data': 'a'}, {'id': '2', 'name': '', 'data': 'b'}]
    r = feed(stream, extra=b'Content-Length: %d\r\n' % len(stream))
    got = list(r.events)
    failed = got != want or r.leid != '2' or r.retry != 250
    return report("V3 plain event stream that declares Content-Length", failed,
                  "Content-Length: {0} + {1!r}".format(len(stream), stream),
                  "events={0} leid={1!r} retry={2!r} ended={3} body left unparsed={4!r}".format(
                      got, r.leid, r.retry, r.ended, bytes(r.body)),
                  "events={0} leid='2' retry=250".format(want))


def v4_leid_before_dispatch():
    stream = b'id: 1\ndata: a\n\nid: 2\ndata: b'   # connection drops before event 2 is complete
    r = feed(stream)
    r.close()
    r.parse()
    got = list(r.events)
    failed = r.leid != '1'
    return report("V4 last event id moves ahead of the dispatched events", failed,
                  repr(stream) + " then connection closed",
                  "events={0} but Respondent.leid={1!r} (sent as Last-Event-ID on reconnect, so event 2 is never redelivered)".format(got, r.leid),
                  "'the client tracks the last event id' -> '1', id of the last event the stream dispatched")


def v2_child():
    """Real Client against real tcp.Server. Server drops the stream early so the
    client has to wait out the retry timer before reconnecting."""
    tymist = tyming.Tymist(tyme=0.0)
    alpha = tcp.Server(port=6101, bufsize=131072, tymth=tymist.tymen())
    assert alpha.reopen()
    beta = clienting.Client(bufsize=131072, hostname='127.0.0.1', port=6101,
                            tymth=tymist.tymen(), reconnectable=True, tymeout=1.0)
    assert beta.reopen()
    beta.requests.append(dict(method='GET', path='/stream', qargs=dict(), fragment='',
                              headers=dict([('Accept', 'text/event-stream')]), body=None))

    def cycle(n=1):
        for i in range(n):
            beta.service()
            alpha.serviceConnects()
            alpha.serviceReceivesAllIx()
            alpha.serviceSendsAllIx()
            time.sleep(0.01)
            tymist.tick(tock=0.05)

    def getix():
        for i in range(400):
            cycle()
            for ca, ix in alpha.ixes.items():
                if ix.rxbs and ix.rxbs.endswith(b'\r\n\r\n'):
                    req = bytes(ix.rxbs)
                    ix.clearRxbs()
                    return ca, ix, req
        raise RuntimeError("no request seen")

    try:
        ca, ix, req = getix()
        ix.tx(HEAD + b'\r\n' + b'retry: 1000\n\nid: 1\ndata: one\n\n')
        cycle(3)
        ix.tx(b'id: 2\ndata: two\n\n')
        cycle(3)
        first = list(beta.events)
        beta.events.clear()
        alpha.closeIx(ca)   # server drops 0.4 s after open, retry is 1.0 s
        alpha.removeIx(ca)
        ca, ix, req = getix()
        ix.tx(HEAD + b'\r\n' + b'id: 3\ndata: three\n\n')
        cycle(3)
        ix.tx(b'id: 4\ndata: four\n\n')
        cycle(3)
        ix.tx(b'id: 5\ndata: five\n\n')
        cycle(3)
        second = list(beta.events)
        want1 = [{'id': '1', 'name': '', 'data': 'one'}, {'id': '2', 'name': '', 'data': 'two'}]
        want2 = [{'id': '3', 'name': '', 'data': 'three'}, {'id': '4', 'name': '', 'data': 'four'},
                 {'id': '5', 'name': '', 'data': 'five'}]
        failed = first != want1 or second != want2 or beta.respondent.leid != '5'
        rc = report("V2 stream after a reconnect that had to wait for the retry timer", failed,
                    "conn1: retry 1000, events 1,2, server closes after 0.4s; client reconnects "
                    "(request had {0}); conn2 delivers events 3 / 4 / 5 in three separate sends".format(
                        'Last-Event-Id: 2' if b'Last-Event-Id: 2' in req else 'NO Last-Event-Id'),
                    "conn1 events={0}; conn2 events={1}; leid={2!r}; respondent.errored={3} error={4!r}".format(
                        first, second, beta.respondent.leid, beta.respondent.errored, beta.respondent.error),
                    "conn2 events={0}; leid='5' ('delivered in any fragmentation ... yields exactly the events the stream dispatches')".format(want2))
    finally:
        alpha.close()
        beta.close()
    return rc


def v2_reconnect():
    env = dict(os.environ, PYTHONPATH=SRC, PYTHONDONTWRITEBYTECODE="1")
    cmd = ["unshare", "-n", "sh", "-c", 'ip link set lo up; exec "$@"', "sh",
           sys.executable, "-W", "ignore", os.path.abspath(__file__), "--v2-child"]
    try:
        p = subprocess.run(cmd, env=env, capture_output=True, text=True, timeout=120)
    except Exception as ex:  # unshare missing
        print("V2: could not start private netns ({0}); running in place".format(ex))
        return v2_child()
    sys.stdout.write(p.stdout)
    if p.returncode not in (0, 1):
        sys.stdout.write(p.stderr)
        print("V2: child failed rc={0}; treated as not reproduced".format(p.returncode))
        return 0
    return p.returncode


def main():
    if "--v2-child" in sys.argv:
        sys.exit(v2_child())
    bad = 0
    bad |= v1_empty_data()
    bad |= v2_reconnect()
    bad |= v3_content_length()
    bad |= v4_leid_before_dispatch()
    print("=" * 72)
    print("RESULT: {0}".format("violations reproduced" if bad else "no violation reproduced"))
    sys.exit(1 if bad else 0)


if __name__ == "__main__":
    main()

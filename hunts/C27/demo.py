#!/venv/bin/python
"""
C27 hunt: Namer name/address registry stays a one-to-one bijection.

Runs the strongest attack scenarios that were tried against
src/hio/help/naming.py.  Exits 1 if any of them reproduces a violation of the
C27 statement, 0 otherwise.

Run with:
  PYTHONPATH=/tmp/seed_C27hunt/src PYTHONDONTWRITEBYTECODE=1 /venv/bin/python demo.py
"""
import itertools
import random
import sys

import hio
assert hio.__file__.startswith("/tmp/seed_C27hunt/src"), hio.__file__

from hio import hioing
from hio.help import Namer

violations = []


def snap(namer):
    """Snapshot of the real internal state via the public copy properties,
    cross-checked against the hidden dicts"""
    a = namer.addrByName
    n = namer.nameByAddr
    assert a == namer._addrByName and n == namer._nameByAddr
    assert a is not namer._addrByName and n is not namer._nameByAddr
    return (list(a.items()), list(n.items()))


def bijection_problem(namer):
    a = namer.addrByName
    n = namer.nameByAddr
    if len(a) != len(n):
        return f"sizes differ {a} {n}"
    for name, addr in a.items():
        if addr not in n or n[addr] != name:
            return f"name->addr {name!r}->{addr!r} has no inverse: {a} {n}"
    for addr, name in n.items():
        if name not in a or a[name] != addr:
            return f"addr->name {addr!r}->{name!r} has no inverse: {a} {n}"
    if len(set(map(repr, a.values()))) != len(a):
        return f"two names share an addr {a}"
    if namer.countNameAddr != len(a):
        return f"countNameAddr {namer.countNameAddr} != {len(a)}"
    for name, addr in a.items():
        if namer.getAddr(name) != addr or namer.getName(addr) != name:
            return f"getAddr/getName disagree for {name!r},{addr!r}"
    return None


def apply(namer, op):
    """Apply op, returns ('ok', result) | ('raise', exctype)"""
    kind = op[0]
    try:
        if kind == "add":
            r = namer.addNameAddr(op[1], op[2])
        elif kind == "addkw":
            r = namer.addNameAddr(name=op[1], addr=op[2])
        elif kind == "rem":
            r = namer.remNameAddr(name=op[1], addr=op[2])
        elif kind == "chaddr":
            r = namer.changeAddrAtName(name=op[1], addr=op[2])
        elif kind == "chname":
            r = namer.changeNameAtAddr(addr=op[2], name=op[1])
        elif kind == "clear":
            r = namer.clearAllNameAddr()
            return ("ok", "cleared")
        else:
            raise AssertionError(kind)
        return ("ok", r)
    except hioing.NamerError:
        return ("raise", "NamerError")
    except TypeError:
        return ("raise", "TypeError")


# reference model ----------------------------------------------------------
def model(state, op):
    """state: dict name->addr (bijection). Returns (newstate, changed)"""
    kind, name, addr = (op + (None, None))[:3]
    s = dict(state)
    inv = {v: k for k, v in s.items()}
    if kind in ("add", "addkw"):
        if not name or not addr:
            return s, False
        if name in s or addr in inv:
            return s, False
        s[name] = addr
        return s, True
    if kind == "rem":
        if name:
            if name not in s or (addr and s[name] != addr):
                return s, False
            del s[name]
            return s, True
        if addr:
            if addr not in inv:
                return s, False
            del s[inv[addr]]
            return s, True
        return s, False
    if kind == "chaddr":
        if not name or not addr or name not in s or s[name] == addr or addr in inv:
            return s, False
        s[name] = addr
        return s, True
    if kind == "chname":
        if not name or not addr or addr not in inv or inv[addr] == name or name in s:
            return s, False
        del s[inv[addr]]
        s[name] = addr
        return s, True
    if kind == "clear":
        return {}, True
    raise AssertionError(kind)


def check_step(namer, op, history, label, mstate=None):
    before = snap(namer)
    out = apply(namer, op)
    after = snap(namer)
    prob = bijection_problem(namer)
    if prob:
        violations.append((label, history + [op], f"not a bijection: {prob}",
                           "mappings stay exact inverses of each other"))
        return None
    rejected = out[0] == "raise" or (out[1] is False)
    if rejected and dict(before[0]) != dict(after[0]) or rejected and dict(before[1]) != dict(after[1]):
        violations.append((label, history + [op],
                           f"op {out} but state changed {before} -> {after}",
                           "rejected or reports no change leaves both mappings unchanged"))
        return None
    if mstate is not None:
        new, changed = model(mstate, op)
        if namer.addrByName != new:
            violations.append((label, history + [op],
                               f"differs from reference model {namer.addrByName} vs {new} ({out})",
                               "reference model of add/remove/change semantics"))
            return None
        return new
    return None


# Attack 1: exhaustive BFS over every reachable state, every op ------------
def attack_exhaustive(names, addrs, label, factory=Namer):
    falsy = [None, "", 0]
    ns = names + falsy
    as_ = addrs + falsy
    ops = []
    for n, a in itertools.product(ns, as_):
        ops += [("add", n, a), ("rem", n, a), ("chaddr", n, a), ("chname", n, a)]
    ops.append(("clear",))
    seen = {}
    frontier = [()]
    seen[frozenset()] = []
    count = 0
    while frontier:
        nxt = []
        for key in frontier:
            hist = seen[frozenset(key)]
            for op in ops:
                namer = factory()
                m = {}
                for h in hist:  # rebuild through public API only
                    apply(namer, h)
                    m, _ = model(m, h)
                assert namer.addrByName == m
                new = check_step(namer, op, hist, label, mstate=m)
                count += 1
                if new is None:
                    continue
                k = frozenset(new.items())
                if k not in seen:
                    seen[k] = hist + [op]
                    nxt.append(tuple(new.items()))
        frontier = nxt
    return len(seen), count


# Attack 2: long random histories on ONE instance (state carried) ----------
def attack_random(names, addrs, label, seed, steps=4000, factory=Namer):
    rnd = random.Random(seed)
    namer = factory()
    m = {}
    hist = []
    kinds = ["add", "rem", "chaddr", "chname"]
    for i in range(steps):
        if rnd.random() < 0.01:
            op = ("clear",)
        else:
            op = (rnd.choice(kinds),
                  rnd.choice(names + [None, ""]),
                  rnd.choice(addrs + [None, ""]))
        m2 = check_step(namer, op, hist[-6:], label, mstate=m)
        if m2 is None:
            return
        m = m2
        hist.append(op)


# Attack 3: hash-equal / mixed-type keys, tuple addrs as used by udp -------
def attack_mixed():
    names = ["a", b"a", 1, True, 1.0, ("a",)]
    addrs = [("127.0.0.1", 1), ("127.0.0.1", 1.0), "/p/a", b"/p/a", 1, True]
    rnd = random.Random(7)
    for trial in range(300):
        namer = Namer()
        hist = []
        for i in range(40):
            op = (rnd.choice(["add", "rem", "chaddr", "chname"]),
                  rnd.choice(names + [None]), rnd.choice(addrs + [None]))
            check_step(namer, op, hist, "mixed-types")
            hist.append(op)
            if violations:
                return


# Attack 4: unhashable args are rejected with TypeError: state unchanged ---
def attack_unhashable():
    bad = [["x"], {"x": 1}, ("h", [1])]
    for b in bad:
        for kind in ["add", "rem", "chaddr", "chname"]:
            for pos in (1, 2):
                for other in ("a", "x", "zz", None):
                    namer = Namer(entries=[("a", "x"), ("b", "y")])
                    op = (kind, b, other) if pos == 1 else (kind, other, b)
                    check_step(namer, op, [("add", "a", "x"), ("add", "b", "y")],
                               "unhashable")


# Attack 5: aliasing of the public snapshots --------------------------------
def attack_alias():
    namer = Namer(entries=[("a", "x")])
    d = namer.addrByName
    d["b"] = "x"
    d2 = namer.nameByAddr
    d2.clear()
    prob = bijection_problem(namer)
    if prob or namer.addrByName != {"a": "x"}:
        violations.append(("alias", ["mutate addrByName copy"], str(prob),
                           "mappings stay exact inverses"))
    # entries container is not retained / aliased
    ent = {"a": "x"}
    pairs = [["a", "x"], ["b", "y"]]
    namer = Namer(entries=pairs)
    pairs[0][1] = "y"
    pairs.append(["c", "x"])
    if bijection_problem(namer) or namer.addrByName != {"a": "x", "b": "y"}:
        violations.append(("alias", ["mutate entries after init"],
                           str(namer.addrByName), "mappings stay exact inverses"))
    # two instances must not share state (shared mutable default trap)
    n1, n2 = Namer(), Namer()
    n1.addNameAddr("a", "x")
    if n2.addrByName or n2.nameByAddr:
        violations.append(("alias", ["two instances"], str(n2.addrByName),
                           "independent registries"))
    n1.clearAllNameAddr()
    n1.addNameAddr("b", "x")
    if bijection_problem(n1) or n1.addrByName != {"b": "x"}:
        violations.append(("alias", ["reuse after clear"], str(n1.addrByName),
                           "mappings stay exact inverses"))


# Attack 6: constructor bulk entries incl. conflicts ------------------------
def attack_ctor():
    good = [[("a", "x"), ("b", "y")], (("a", "x"),), iter([("a", "x"), ("a", "x")]),
            None, [], {}]
    for e in good:
        namer = Namer(entries=e)
        prob = bijection_problem(namer)
        if prob:
            violations.append(("ctor", [repr(e)], prob, "exact inverses"))
    for e in ([("a", "x"), ("b", "x")], [("a", "x"), ("a", "y")], [("a", "")]):
        try:
            namer = Namer(entries=e)
        except hioing.NamerError:
            pass
        else:
            prob = bijection_problem(namer)
            if prob:
                violations.append(("ctor", [repr(e)], prob, "exact inverses"))


# Attack 7: the real subclasses (Boss/Crew doers of multidoing) -------------
def attack_subclass():
    from hio.base import multidoing
    made = []

    def factory():
        b = multidoing.Boser(name="boss", reopen=False) if hasattr(multidoing, "Boser") else None
        made.append(b)
        return b
    klass = None
    for nm in ("Bosser", "Boser", "Boss", "BossDoer", "MultiDoerBase"):
        if hasattr(multidoing, nm):
            klass = getattr(multidoing, nm)
            break
    assert klass is not None

    def factory():
        try:
            o = klass(name="boss", reopen=False, temp=True)
        except TypeError:
            o = klass(name="boss", temp=True)
        made.append(o)
        return o
    try:
        o = factory()
        assert isinstance(o, Namer)
        attack_random(["a", "b", "c"], ["x", "y", "z"], f"subclass {klass.__name__}",
                      seed=3, steps=1500, factory=factory)
        o = factory()
        o.addNameAddr("a", "x")
        o.name = "other"       # Doer's own name must not disturb registry
        if bijection_problem(o) or o.addrByName != {"a": "x"}:
            violations.append(("subclass", ["set doer .name"], str(o.addrByName),
                               "exact inverses"))
    finally:
        for o in made:
            try:
                o.close(clear=True)
            except Exception:
                pass
    return klass.__name__


def main():
    s, c = attack_exhaustive(["a", "b", "c"], ["x", "y", "z"], "exhaustive str")
    print(f"attack1 exhaustive 3x3 (+falsy None,'',0): {s} states, {c} transitions")
    s, c = attack_exhaustive(["a", "b"], ["a", "b", "c"], "exhaustive overlapping domains")
    print(f"attack1b names and addrs drawn from same strings: {s} states, {c} transitions")
    s, c = attack_exhaustive(["a", "b"], [("h", 1), ("h", 2), ("g", 1)], "exhaustive tuple addrs")
    print(f"attack1c tuple (host, port) addrs: {s} states, {c} transitions")
    for seed in range(5):
        attack_random(["a", "b", "c", "d"], ["x", "y", "z", "w"], "random long", seed)
    print("attack2 long random histories on one instance done")
    attack_mixed()
    print("attack3 mixed / hash-equal key types done")
    attack_unhashable()
    print("attack4 unhashable args done")
    attack_alias()
    print("attack5 aliasing of snapshots / entries / instances done")
    attack_ctor()
    print("attack6 constructor bulk entries done")
    k = attack_subclass()
    print(f"attack7 real subclass {k} done")

    if violations:
        print(f"\n{len(violations)} VIOLATION(S) of C27")
        for label, hist, observed, required in violations[:10]:
            print(f"- [{label}] history={hist}\n    observed: {observed}\n    required: {required}")
        return 1
    print("\nno violation of C27 reproduced")
    return 0


if __name__ == "__main__":
    sys.exit(main())

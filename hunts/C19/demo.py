#!/venv/bin/python
"""
C19 demo: Client requests are sent one at a time and answered in FIFO order.

Run as:
  PYTHONPATH=/tmp/seed_C19hunt/src PYTHONDONTWRITEBYTECODE=1 /venv/bin/python seed_out/demo.py

The script re-executes itself inside a private network namespace (unshare -n)
so that its fixed ports cannot collide with other jobs. Exit 1 when any
violation reproduces, 0 when none does.
"""
import os
import sys
import time
import warnings

warnings.simplefilter("ignore")
ROOT = '/tmp/seed_C19hunt'

if os.environ.get('C19_DEMO_NETNS') != '1':
    env = dict(os.environ, C19_DEMO_NETNS='1', PYTHONPATH=ROOT + '/src',
               PYTHONDONTWRITEBYTECODE='1')
    cmd = ['unshare', '-n', 'sh', '-c', 'ip link set lo up; exec "$@"', 'sh',
           sys.executable, '-W', 'ignore', os.path.abspath(__file__)]
    try:
        os.execvpe(cmd[0], cmd, env)
    except OSError:
        os.environ['C19_DEMO_NETNS'] = '1'  # no unshare, run in place

sys.path.insert(0, ROOT + '/src')
import hio
assert hio.__file__.startswith(ROOT + '/src'), hio.__file__
from hio.core import tcp
from hio.core.http import clienting


class ScriptServer:
    """Raw tcp server. Each complete request is answered with handler(raw, n).
    closing=True: the connection is closed right after the reply bytes are sent
    """
    def __init__(self, port, handler, closing=False):
        self.handler = handler
        self.closing = closing
        self.seen = []
        self.server = tcp.Server(host='127.0.0.1', port=port, bufsize=131072)
        assert self.server.reopen()

    def service(self):
        s = self.server
        s.serviceConnects()
        for ca, ix in list(s.ixes.items()):
            ix.serviceReceives()
            answered = False
            while True:
                raw = bytes(ix.rxbs)
                idx = raw.find(b'\r\n\r\n')
                if idx < 0:
                    break
                clen = 0
                for line in raw[:idx].split(b'\r\n'):
                    if line.lower().startswith(b'content-length:'):
                        clen = int(line.split(b':')[1])
                if len(raw) < idx + 4 + clen:
                    break
                req = raw[:idx + 4 + clen]
                del ix.rxbs[:idx + 4 + clen]
                self.seen.append(req)
                out = self.handler(req, len(self.seen))
                if out:
                    ix.tx(out)
                answered = True
            ix.serviceSends()
            if ix.cutoff or (self.closing and answered):
                s.removeIx(ca)

    def close(self):
        self.server.close()


def startline(req):
    return req.split(b'\r\n', 1)[0].decode()


def reply(body=b'', extra=b'', status=b'200 OK'):
    return (b'HTTP/1.1 ' + status + b'\r\nContent-Length: ' +
            str(len(body)).encode() + b'\r\n' + extra + b'\r\n' + body)


def run(client, server, want, limit):
    """Service both until `want` responses were collected or `limit` seconds.
    Responses are popped as they arrive, as a real caller does."""
    got = []
    t0 = time.time()
    extra = 0
    while time.time() - t0 < limit:
        server.service()
        client.service()
        while client.responses:
            got.append(client.responses.popleft())
        if len(got) >= want and not client.requests and not client.waited:
            extra += 1
            if extra > 10:
                break
        time.sleep(0.01)
    return got


def brief(r):
    d = dict(status=r['status'], body=bytes(r['body']), errored=r['errored'],
             request=(r['request']['method'], r['request']['path']),
             reply=r['request'].get('reply'))
    if r.get('redirects'):
        d['redirects'] = [(x['status'], x['request']['path']) for x in r['redirects']]
    return d


failures = []


def report(tag, failed, inp, observed, required):
    print("=" * 78)
    print("[{0}] {1}".format(tag, "VIOLATION REPRODUCED" if failed else "ok (no violation)"))
    print("  input    :", inp)
    print("  observed :", observed)
    print("  required :", required)
    if failed:
        failures.append(tag)


# ---------------------------------------------------------------------------
# V1  stale Respondent.redirectant: a redirect status that is NOT followed
#     (here 300 Multiple Choices without Location) leaves .redirectant True, so
#     the next response that merely carries a Location header (201 Created) is
#     treated as a redirect and an extra, never queued, request is sent.
def v1():
    def h(req, n):
        sl = startline(req)
        if sl.startswith('GET /choices '):
            return reply(b'pick one', status=b'300 Multiple Choices')  # no Location
        if sl.startswith('POST /items '):
            return reply(b'made', extra=b'Location: /items/1\r\n', status=b'201 Created')
        return reply(b'R:' + sl.encode())
    sv = ScriptServer(6911, h)
    c = clienting.Client(hostname='127.0.0.1', port=6911)
    c.reopen()
    c.request(method='GET', path='/choices')
    c.request(method='POST', path='/items', body=b'abc')
    c.request(method='GET', path='/last')
    got = run(c, sv, 3, 3.0)
    seen = [startline(r) for r in sv.seen]
    c.close(); sv.close()
    want_seen = ['GET /choices HTTP/1.1', 'POST /items HTTP/1.1', 'GET /last HTTP/1.1']
    bad = (seen != want_seen or len(got) != 3 or got[1]['status'] != 201
           or got[1]['request']['path'] != '/items' or 'redirects' in got[1])
    report("V1 stale redirectant",
           bad,
           "queue: GET /choices, POST /items, GET /last ; server: 300 (no Location), "
           "201 Created + 'Location: /items/1', 200",
           "server received {0}; responses {1}".format(seen, [brief(r) for r in got]),
           "exactly the three queued requests on the wire; entry 2 is the 201 for "
           "POST /items carrying its originating request (201 is not a redirect)")


# ---------------------------------------------------------------------------
# V2  HEAD request that is redirected: redirect() -> transmit(method=None) ->
#     respondent.reinit() whose method parameter defaults to 'GET', so the
#     bodiless HEAD answer (Content-Length: 5) is awaited as if it had a body.
def v2():
    def h(req, n):
        sl = startline(req)
        if sl.startswith('HEAD /old '):
            return b'HTTP/1.1 302 Found\r\nContent-Length: 0\r\nLocation: /new\r\n\r\n'
        if sl.startswith('HEAD /new '):
            return b'HTTP/1.1 200 OK\r\nContent-Length: 5\r\nContent-Type: text/plain\r\n\r\n'
        return reply(b'R:' + sl.encode())
    sv = ScriptServer(6912, h)
    c = clienting.Client(hostname='127.0.0.1', port=6912)
    c.reopen()
    c.request(method='HEAD', path='/old')
    c.request(method='GET', path='/after')
    got = run(c, sv, 2, 2.0)
    seen = [startline(r) for r in sv.seen]
    state = "waited={0} unsent={1} respondent.method={2}".format(
        c.waited, len(c.requests), c.respondent.method)
    c.close(); sv.close()
    bad = len(got) != 2
    report("V2 redirected HEAD hangs",
           bad,
           "queue: HEAD /old, GET /after ; server: 302 Location: /new, then the HEAD "
           "answer '200 Content-Length: 5' (no body), then 200",
           "after 2s server received {0}; responses {1}; {2}".format(
               seen, [brief(r) for r in got], state),
           "redirect followed transparently: one entry for HEAD /old (with redirect "
           "history) then GET /after transmitted and answered")


# ---------------------------------------------------------------------------
# V3  server closes the connection before the response is complete. The
#     premature closure checks are all 'if self.closed and not self.msg' and
#     parseMessage waits in 'while not self.started' without looking at
#     .closed, so no entry (not even an errored one) is ever produced.
def v3():
    cases = [
        ("closes with a partial body", b'HTTP/1.1 200 OK\r\nContent-Length: 10\r\n\r\nabc'),
        ("closes with a partial head", b'HTTP/1.1 200 OK\r\nContent-Le'),
        ("closes without sending a byte", b''),
    ]
    for i, (what, out) in enumerate(cases):
        sv = ScriptServer(6920 + i, lambda req, n, out=out: out, closing=True)
        c = clienting.Client(hostname='127.0.0.1', port=6920 + i)
        c.reopen()
        c.request(method='GET', path='/a')
        got = run(c, sv, 1, 1.5)
        seen = [startline(r) for r in sv.seen]
        state = "waited={0} connector.cutoff={1} respondent.closed={2} rxbs={3!r}".format(
            c.waited, c.connector.cutoff, c.respondent.closed, bytes(c.connector.rxbs))
        c.close(); sv.close()
        bad = len(got) != 1
        report("V3.{0} server {1}".format(i + 1, what),
               bad,
               "queue: GET /a ; server reads the request, sends {0!r} and closes".format(out),
               "after 1.5s server received {0}; responses {1}; {2}".format(
                   seen, [brief(r) for r in got], state),
               "each request produces exactly one entry in the response queue "
               "(an errored 'closed prematurely' entry would satisfy it)")


# ---------------------------------------------------------------------------
# V4  the entry delivered for a redirected request does not carry the
#     originating request: .latest is dropped when the 3xx arrives, so the
#     caller's correlation data ('reply') is missing from response['request'].
def v4():
    def h(req, n):
        sl = startline(req)
        if ' /old ' in sl:
            return reply(status=b'302 Found', extra=b'Location: /new\r\n')
        return reply(b'R:' + sl.encode())
    sv = ScriptServer(6913, h)
    c = clienting.Client(hostname='127.0.0.1', port=6913)
    c.reopen()
    c.request(method='GET', path='/old', reply={'rid': 1})
    c.request(method='GET', path='/plain', reply={'rid': 2})
    got = run(c, sv, 2, 2.0)
    c.close(); sv.close()
    bad = len(got) != 2 or [r['request'].get('reply') for r in got] != [{'rid': 1}, {'rid': 2}]
    report("V4 originating request lost over a redirect",
           bad,
           "queue: GET /old reply={'rid': 1}, GET /plain reply={'rid': 2} ; server: "
           "302 Location: /new, 200, 200",
           "response['request'].get('reply') per entry = {0}".format(
               [r['request'].get('reply') for r in got]),
           "every entry carries its originating request ([{'rid': 1}, {'rid': 2}]), "
           "redirects being followed transparently")


for fn in (v1, v2, v3, v4):
    fn()

print("=" * 78)
print("violations reproduced:", failures if failures else "none")
sys.exit(1 if failures else 0)

#!/venv/bin/python
"""C24 demo: IoSuber / IoSetSuber built with a non-default ordinal separator
(`ionsep`, a documented constructor parameter) answer pop / getFirst / getLast
differently from what a dict-of-lists / dict-of-ordered-sets model answers,
while put/add/get/cnt/rem on the very same store do match the model.

Run:  PYTHONPATH=/tmp/seed_C24hunt/src PYTHONDONTWRITEBYTECODE=1 /venv/bin/python demo.py
Exit 1 when the violation reproduces, 0 otherwise.
"""
import os
import sys
import warnings
warnings.filterwarnings("ignore")

import hio
assert hio.__file__.startswith('/tmp/seed_C24hunt/src'), hio.__file__
from hio.base.during import openDuror, IoSuber, IoSetSuber


def attempt(fn):
    try:
        return fn()
    except Exception as ex:  # report, the model never raises here
        return "RAISED %s(%s)" % (type(ex).__name__, ex)


def scenario(cls, ionsep, keys):
    """Apply the same history to the store and to a dict model, return list of
    (description, observed, required) mismatches."""
    bad = []
    with openDuror(name="c24demo%d" % os.getpid()) as db:
        kw = {} if ionsep is None else dict(ionsep=ionsep)
        s = cls(db=db, subkey='demo.', **kw)
        model = {}
        for k in keys:                      # put two values, add a third
            s.put(k, ['v0', 'v1'])
            s.add(k, 'v2')
            model[k] = ['v0', 'v1', 'v2']

        def cmp(desc, got, want):
            if got != want:
                bad.append((desc, got, want))

        for k in keys:
            cmp("get(%r)" % k, attempt(lambda: s.get(k)), model[k])
            cmp("cnt(%r)" % k, attempt(lambda: s.cnt(k)), len(model[k]))
            cmp("getFirst(%r)" % k, attempt(lambda: s.getFirst(k)), model[k][0])
            cmp("getLast(%r)" % k, attempt(lambda: s.getLast(k)), model[k][-1])
        for k in keys:
            want = model[k].pop(0)
            cmp("pop(%r)" % k, attempt(lambda: s.pop(k)), want)
            cmp("get(%r) after pop" % k, attempt(lambda: s.get(k)), model[k])
            cmp("cnt(%r) after pop" % k, attempt(lambda: s.cnt(k)), len(model[k]))
    return bad


def main():
    found = False
    cases = [
        (None, ['a', 'b']),         # control: default separator, must be clean
        ('-', ['a', 'b']),          # any separator that sorts before '.'
        ('|', ['a', 'b']),          # any separator that sorts after '.'
        ('_', ['a', 'a_b', 'a.b']), # same char as the key-part separator
    ]
    for cls in (IoSuber, IoSetSuber):
        for ionsep, keys in cases:
            bad = scenario(cls, ionsep, keys)
            label = "%s(ionsep=%r) keys=%r" % (cls.__name__, ionsep, keys)
            if not bad:
                print("ok       ", label)
                continue
            if ionsep is None:
                print("UNEXPECTED control failure", label)
            found = True
            print("VIOLATION", label)
            print("   history per key: put(k, ['v0','v1']); add(k, 'v2'); then reads; then pop(k)")
            for desc, got, want in bad:
                print("   %-24s observed %-60r model (required) %r" % (desc, got, want))
    if found:
        print("\nStatement clause violated: 'for any sequence of put, pin, add, get, pop, "
              "remove and count operations ... the insertion-ordered and "
              "insertion-ordered-set sub-databases return exactly what a dictionary of "
              "... lists or ordered sets would.'  pop (and getFirst/getLast) do not.")
        return 1
    print("no violation reproduced")
    return 0


if __name__ == '__main__':
    sys.exit(main())

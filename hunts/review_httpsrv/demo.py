#!/venv/bin/python
"""
Adversarial review of the repairs touching src/hio/core/http/serving.py and
src/hio/core/http/httping.py  (git log 5109c34..HEAD).

Reproduces every problem found on the checked out tree.  For each problem
prints input / observed / expected.  Exit status 1 when at least one problem
reproduces, else 0.

Run:  /venv/bin/python /tmp/review_httpsrv/seed_out/demo.py
(re-executes itself inside a private network namespace with lo up)
"""
import os
import sys

ROOT = '/tmp/review_httpsrv'
SRC = ROOT + '/src'

if os.environ.get('HIO_DEMO_NETNS') != '1':  # get private net namespace
    env = dict(os.environ)
    env['HIO_DEMO_NETNS'] = '1'
    env['PYTHONPATH'] = SRC
    env['PYTHONDONTWRITEBYTECODE'] = '1'
    os.execvpe('unshare', ['unshare', '-n', 'sh', '-c',
                           'ip link set lo up; exec "$@"', 'sh',
                           sys.executable, '-W', 'ignore', os.path.abspath(__file__)], env)

import json
import logging
import socket
import struct
import time
import traceback

sys.path.insert(0, SRC)
import hio
assert hio.__file__.startswith(SRC), hio.__file__

from hio.base import tyming
from hio.core import http

logging.disable(logging.CRITICAL)  # hio logs errors we provoke on purpose

_port = [6400]


def nextport():
    _port[0] += 1
    return _port[0]


class Raw:
    """raw nonblocking tcp client"""
    def __init__(self, port, sport=None):
        self.s = socket.socket()
        if sport is not None:  # fixed source port
            self.s.setsockopt(socket.SOL_SOCKET, socket.SO_REUSEADDR, 1)
            self.s.bind(('127.0.0.1', sport))
        self.s.connect(('127.0.0.1', port))
        self.s.setblocking(False)
        self.rx = bytearray()
        self.eof = False

    def send(self, b):
        self.s.sendall(b)

    def recv(self):
        while not self.eof:
            try:
                d = self.s.recv(65536)
            except BlockingIOError:
                break
            except OSError:
                self.eof = True
                break
            if not d:
                self.eof = True
                break
            self.rx.extend(d)

    def reset(self):
        """abortive close (RST) so that the 4-tuple can be used again at once"""
        self.s.setsockopt(socket.SOL_SOCKET, socket.SO_LINGER, struct.pack('ii', 1, 0))
        self.s.close()

    def close(self):
        self.s.close()


def spin(server, raws, n=10, tymist=None, tick=0.0):
    for i in range(n):
        server.service()
        time.sleep(0.004)
        for r in raws:
            r.recv()
        if tymist is not None and tick:
            tymist.tick(tick)


results = []


def report(tag, commit, what, inp, observed, expected, reproduced):
    results.append((tag, reproduced))
    print("=" * 78)
    print("{0}  [{1}]  {2}".format(tag, commit, "REPRODUCED" if reproduced else "not reproduced"))
    print("  what     :", what)
    print("  input    :", inp)
    print("  observed :", observed)
    print("  expected :", expected)


# --------------------------------------------------------------------------
def p1_bodiless_response_body():
    """
    5521bd0: response that cannot have a body still gets the app's body bytes
    """
    def app(environ, start_response):  # app answers HEAD like GET, usual for wsgi apps
        start_response('200 OK', [('Content-Type', 'text/plain')])
        return [b"hello"]

    def app204(environ, start_response):
        start_response('204 No Content', [])
        return [b"oops"]

    tymist = tyming.Tymist(tyme=0.0)
    reproduced = False
    observed = []
    for name, wsgi, first in (('HEAD', app, b"HEAD /a HTTP/1.1\r\nHost: x\r\n\r\n"),
                              ('204', app204, b"GET /a HTTP/1.1\r\nHost: x\r\n\r\n")):
        port = nextport()
        with http.openServer(port=port, app=wsgi, tymth=tymist.tymen()) as srv:
            c = Raw(port)
            c.send(first)
            spin(srv, [c], 8)
            c.send(b"GET /b HTTP/1.1\r\nHost: x\r\n\r\n")
            spin(srv, [c], 8)
            rx = bytes(c.rx)
            c.close()
        head, sep, rest = rx.partition(b'\r\n\r\n')
        # response to HEAD / 204 ends at its head, what follows must be next response
        ok = rest.startswith(b'HTTP/1.1 ')
        observed.append("{0}: bytes after the head of the bodiless response: {1!r}".format(name, rest[:24]))
        if not ok:
            reproduced = True
    report("P1", "5521bd0",
           "response to HEAD (or 204/304/1xx) is no longer chunked but the application's "
           "body pieces are still written after the head, on a connection that stays open",
           "keep-alive 'HEAD /a HTTP/1.1' (app returns [b'hello'] as for GET), resp. app answering "
           "'204 No Content' with [b'oops'], each followed by 'GET /b HTTP/1.1' on the same connection",
           "; ".join(observed),
           "the bytes after the head of the bodiless response are the status line of the next "
           "response (b'HTTP/1.1 200 OK...'), a client ends such a response at its head",
           reproduced)


# --------------------------------------------------------------------------
def p2_recursion_on_echo():
    """
    031bb2f: json nested just below the limit of json.loads passes dictify and
    then RecursionError comes out of json.dumps in the echo responder
    """
    def loadsok(d):
        try:
            json.loads('[' * d + ']' * d)
            return True
        except RecursionError:
            return False
    lo, hi = 1, 100000
    while lo < hi:
        mid = (lo + hi + 1) // 2
        if loadsok(mid):
            lo = mid
        else:
            hi = mid - 1
    tymist = tyming.Tymist(tyme=0.0)
    raised = []
    for depth in range(lo + 2, lo - 40, -1):
        port = nextport()
        with http.openServer(cls=http.BareServer, port=port, tymth=tymist.tymen()) as srv:
            c = Raw(port)
            body = b'[' * depth + b']' * depth
            c.send(b"POST /x HTTP/1.1\r\nHost: x\r\nContent-Type: application/json\r\n"
                   b"Content-Length: %d\r\n\r\n" % len(body) + body)
            try:
                spin(srv, [c], 6)
            except RecursionError as ex:
                tb = traceback.extract_tb(ex.__traceback__)
                where = [f.name for f in tb if 'hio' in f.filename][-3:]
                raised.append((depth, where))
            c.close()
        if raised:
            break
    report("P2", "031bb2f",
           "RecursionError still comes out of BareServer.service(): json nested a little less deep than "
           "json.loads tolerates is accepted by dictify(), then the echo responder json.dumps() it one "
           "level deeper (Steward.respond -> CustomResponder.build)",
           "POST with Content-Type: application/json and body '['*d + ']'*d, d just below the depth at "
           "which json.loads gives up here ({0})".format(lo),
           ("BareServer.service() raised RecursionError for d={0} via {1}".format(*raised[0])
            if raised else "no exception for any depth tried"),
           "service() never raises on client bytes (C16), at worst this connection is answered "
           "without data or closed",
           bool(raised))


# --------------------------------------------------------------------------
def p3_replaced_connection():
    """
    f0aeeb7 (with 0523dc2): connection replaced in servant.ixes under same ca
    """
    def app(environ, start_response):
        start_response('200 OK', [('Content-Type', 'text/plain'), ('Content-Length', '5')])
        return [b"hello"]
    tymist = tyming.Tymist(tyme=0.0)
    observed = []
    reproduced = False
    for cls, kw in ((http.Server, dict(app=app)), (http.BareServer, dict())):
        port = nextport()
        sport = 45000 + port % 1000
        with http.openServer(cls=cls, port=port, tymth=tymist.tymen(), **kw) as srv:
            c = Raw(port, sport=sport)
            c.send(b"GET /old HTTP/1.1\r\nHost: x\r\n")  # head not complete yet
            spin(srv, [], 3)
            c.reset()  # client gives up, RST
            c = Raw(port, sport=sport)  # and connects again from same port before server services
            c.send(b"GET /new HTTP/1.1\r\nHost: x\r\n\r\n")
            spin(srv, [c], 30)
            held = srv.reqs if cls is http.Server else srv.stewards
            stale = [ca for ca, ix in srv.servant.ixes.items()
                     if ca in held and (held[ca].remoter is not ix)]
            observed.append("{0}: reply {1!r}, http layer holds parser of the closed remoter for {2}"
                            "".format(cls.__name__, bytes(c.rx[:15]), stale))
            if not c.rx:
                reproduced = True
            c.close()
    report("P3", "f0aeeb7 (+0523dc2)",
           "a connection that the tcp servant replaced (same peer address accepted again, old remoter "
           "closed by serviceAxes) is still serviced through the Requestant/Steward of the closed "
           "remoter; the sweep added by the repair only looks for ca missing from .ixes",
           "client with fixed source port sends part of a request, resets, reconnects from the same "
           "port and sends 'GET /new HTTP/1.1' before the server's next service()",
           "; ".join(observed),
           "the new connection is answered (200) by both servers",
           reproduced)


# --------------------------------------------------------------------------
def p4_bare_not_persistent_unanswered():
    """
    4b85ae1 variant: BareServer closes a not persistent connection before the
    answer is sent
    """
    tymist = tyming.Tymist(tyme=0.0)
    port = nextport()
    with http.openServer(cls=http.BareServer, port=port, tymth=tymist.tymen()) as srv:
        c = Raw(port)
        req = b"GET /b HTTP/1.1\r\nHost: x\r\nConnection: close\r\n\r\n"
        c.send(req)
        spin(srv, [c], 20)
        rx, eof = bytes(c.rx), c.eof
        c.close()
    reproduced = eof and not rx
    report("P4", "4b85ae1 (variant BareServer, not touched by the repair)",
           "BareServer.serviceStewards closes a connection whose request is not persistent right "
           "after queuing the response, before servant.serviceSendsAllIx(): connection closed "
           "without answering the request, the symptom 4b85ae1 repairs in Server only",
           repr(req),
           "received {0!r}, connection closed by server: {1}".format(rx[:20], eof),
           "b'HTTP/1.1 200 OK...' echo response, then close",
           reproduced)


# --------------------------------------------------------------------------
def p5_http10_keepalive_unframed():
    """
    dea699f other route: HTTP/1.0 keep-alive and no Content-Length
    """
    def app(environ, start_response):
        start_response('200 OK', [('Content-Type', 'text/plain')])
        return [b"hello"]
    tymist = tyming.Tymist(tyme=0.0)
    port = nextport()
    with http.openServer(port=port, app=app, tymth=tymist.tymen()) as srv:
        c = Raw(port)
        req = b"GET /a HTTP/1.0\r\nConnection: keep-alive\r\n\r\n"
        c.send(req)
        spin(srv, [c], 10)
        rx, eof = bytes(c.rx), c.eof
        c.close()
    head = rx.partition(b'\r\n\r\n')[0].lower()
    framed = b'content-length' in head or b'transfer-encoding' in head
    reproduced = bool(rx) and not framed and not eof
    report("P5", "dea699f (same defect by another route, already so before the repair)",
           "response with neither Content-Length nor chunked coding on a connection the server keeps "
           "open: request is HTTP/1.0 with Connection: keep-alive (so not chunkable) and the app "
           "gives no Content-Length",
           repr(req),
           "head framed: {0}, server closed: {1}, bytes: {2!r}".format(framed, eof, rx[-24:]),
           "response self delimiting or connection closed after it (C18)",
           reproduced)


# --------------------------------------------------------------------------
def p6_partial_close_request_never_times_out():
    """
    4b85ae1 + checkPersisted: tymeout stays 0 for request that is not persistent
    """
    def app(environ, start_response):
        start_response('200 OK', [('Content-Type', 'text/plain'), ('Content-Length', '5')])
        return [b"hello"]
    tymist = tyming.Tymist(tyme=0.0, tock=0.5)
    port = nextport()
    with http.openServer(port=port, app=app, tymeout=2.0, tymth=tymist.tymen()) as srv:
        c = Raw(port)
        c.send(b"GET /a HTTP/1.1\r\nHost: x\r\n\r\n")
        spin(srv, [c], 6, tymist, 0.5)
        c.send(b"POST /b HTTP/1.1\r\nHost: x\r\nConnection: close\r\nContent-Length: 10\r\n\r\nabc")
        spin(srv, [c], 60, tymist, 0.5)  # 30 s of virtual time, tymeout is 2 s
        open1 = len(srv.servant.ixes)
        eof1 = c.eof
        state = [(r.persisted, r.remoter.tymeout) for r in srv.reqs.values()]
        c.close()
        spin(srv, [], 3, tymist, 0.5)
        c = Raw(port)  # control: same request as first on its connection
        c.send(b"POST /b HTTP/1.1\r\nHost: x\r\nConnection: close\r\nContent-Length: 10\r\n\r\nabc")
        spin(srv, [c], 60, tymist, 0.5)
        eof2 = c.eof
        c.close()
    reproduced = (not eof1) and eof2
    report("P6", "4b85ae1 (interaction with Requestant.checkPersisted)",
           "the connection that 4b85ae1 now keeps while a not persistent next request is incomplete has "
           "its idle tymeout still disabled (remoter.tymeout = 0.0 set by the persistent request before "
           "it and never restored): not persistent, idle, never closed",
           "tymeout=2.0; 'GET /a HTTP/1.1' answered, then 'POST /b HTTP/1.1' + 'Connection: close' + "
           "'Content-Length: 10' + 3 body bytes, then silence for 30 s of virtual time",
           "after 30 s: closed by server: {0}, open remoters {1}, (persisted, remoter.tymeout) = {2}; "
           "control (same partial request as first request of a connection) closed: {3}"
           "".format(eof1, open1, state, eof2),
           "closed after tymeout like the control (C12: not persistent and no traffic for tymeout)",
           reproduced)


if __name__ == '__main__':
    for fn in (p1_bodiless_response_body,
               p2_recursion_on_echo,
               p3_replaced_connection,
               p4_bare_not_persistent_unanswered,
               p5_http10_keepalive_unframed,
               p6_partial_close_request_never_times_out):
        try:
            fn()
        except Exception:
            print("=" * 78)
            print(fn.__name__, "demo itself failed")
            traceback.print_exc()
            results.append((fn.__name__, True))
    print("=" * 78)
    print("summary:", ", ".join("{0}={1}".format(t, "REPRODUCED" if r else "no") for t, r in results))
    sys.exit(1 if any(r for t, r in results) else 0)

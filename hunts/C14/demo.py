#!/venv/bin/python
"""
C14 demo: HTTP requests built by the client must be recovered exactly by the
server's request parser and WSGI environment.

Run with:
  PYTHONPATH=/tmp/seed_C14hunt/src PYTHONDONTWRITEBYTECODE=1 /venv/bin/python seed_out/demo.py

No sockets are opened. The request bytes produced by clienting.Requester.build()
are fed to serving.Requestant (the server's request parser) and the WSGI
environment is produced by serving.Server.buildEnviron() exactly as the server
service loop does it.

Exit status 1 if any violation reproduces, 0 otherwise.
"""
import sys
import warnings
warnings.simplefilter("ignore")

import hio
assert hio.__file__.startswith('/tmp/seed_C14hunt/src'), hio.__file__

from hio import help
from hio.core.http import clienting, serving


class FakeRemoter:
    """Stands in for the accepted tcp connection (only .ca and .tymeout used)"""
    ca = ('127.0.0.1', 54321)
    tymeout = 0.0


class FakeServant:
    eha = ('127.0.0.1', 8080)


def serverSide(msg):
    """
    Feed client built request bytes msg to the server's request parser and
    build the WSGI environ the way Server.serviceReqs does.
    Returns (requestant, environ or None when the request never completes)
    """
    buf = bytearray(msg)
    requestant = serving.Requestant(msg=buf, remoter=FakeRemoter())
    for i in range(8):  # far more service cycles than needed
        if not requestant.parser:
            break
        requestant.parse()
    environ = None
    if requestant.ended and not requestant.errored:
        server = serving.Server.__new__(serving.Server)  # no sockets
        server.scheme = 'http'
        server.name = 'demo'
        server.servant = FakeServant()
        environ = server.buildEnviron(requestant)
    return requestant, environ


def violation1():
    """
    A header field that occurs more than once (legal for every list valued
    field, e.g. Accept, Cache-Control, Forwarded, Via, X-Forwarded-For ...).
    Requester keeps headers in a multi valued Hict and sends every occurrence,
    the server keeps only the last one.
    """
    print("--- V1: repeated header field")
    sent = [('Accept', 'text/html'), ('Accept', 'application/json'),
            ('X-Forwarded-For', '10.0.0.1'), ('X-Forwarded-For', '10.0.0.2')]
    requester = clienting.Requester(hostname='127.0.0.1', port=8080,
                                    method='POST', path='/echo',
                                    headers=help.Hict(sent), body=b'x')
    msg = requester.build()
    print("client headers :", sent)
    print("request bytes  :", bytes(msg))
    requestant, environ = serverSide(msg)
    failed = False
    for name in ('Accept', 'X-Forwarded-For'):
        want = [v for k, v in sent if k == name]
        gotParser = requestant.headers.getall(name, [])
        key = 'HTTP_' + name.upper().replace('-', '_')
        gotEnviron = environ.get(key, '') if environ is not None else None
        okParser = list(gotParser) == want
        okEnviron = (gotEnviron is not None and
                     all(v in [p.strip() for p in gotEnviron.split(',')] for v in want))
        print("{0}: sent values {1}".format(name, want))
        print("    Requestant.headers has {0} -> {1}".format(list(gotParser),
                                    "ok" if okParser else "VALUE LOST"))
        print("    environ[{0!r}] = {1!r} -> {2}".format(key, gotEnviron,
                                    "ok" if okEnviron else "VALUE LOST"))
        if not okParser or not okEnviron:
            failed = True
    if failed:
        print("VIOLATION: statement requires the server to 'recover the same "
              "... header values'; the first value of each repeated field is "
              "gone from both the parsed request and the WSGI environment")
    return failed


def violation2():
    """
    GET built with a raw body and an explicit Content-Length. build() drops the
    body of a GET but still sends the caller's Content-Length, so the server
    waits for ever for body bytes that never come; the request (method, path,
    ...) is never recovered and the bytes of the next request on the
    connection are swallowed as its body.
    """
    print("--- V2: GET with raw body and explicit Content-Length")
    requester = clienting.Requester(hostname='127.0.0.1', port=8080,
                                    method='GET', path='/item',
                                    headers={'Content-Length': '3'},
                                    body=b'abc')
    msg = requester.build()
    print("client request : method='GET' path='/item' body=b'abc' "
          "headers={'Content-Length': '3'}")
    print("request bytes  :", bytes(msg))
    requestant, environ = serverSide(msg)
    print("server parser  : ended={0} errored={1} body={2!r} environ built={3}".format(
        requestant.ended, requestant.errored, bytes(requestant.body),
        environ is not None))
    failed = not requestant.ended or environ is None
    if failed:
        # show what happens to the next request on the same connection
        nxt = clienting.Requester(hostname='127.0.0.1', port=8080,
                                  method='GET', path='/next').build()
        buf = bytearray(msg + nxt)
        requestant = serving.Requestant(msg=buf, remoter=FakeRemoter())
        for i in range(8):
            if not requestant.parser:
                break
            requestant.parse()
        print("with a following 'GET /next' on the connection the server sees "
              "path={0!r} body={1!r}".format(requestant.path, bytes(requestant.body)))
        print("VIOLATION: statement requires the server to recover method, path, "
              "headers and body bytes 'with and without explicit Content-Length' "
              "for all methods; this request is never delivered to the "
              "application at all (parser waits for 3 body bytes the client "
              "did not send)")
    return failed


def main():
    results = [violation1(), violation2()]
    print("--- reproduced {0} of {1}".format(sum(results), len(results)))
    return 1 if any(results) else 0


if __name__ == '__main__':
    sys.exit(main())

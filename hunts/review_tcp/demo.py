#!/venv/bin/python
"""
Adversarial review of the tcp repairs (src/hio/core/tcp/serving.py, clienting.py)

Reproduces, on the tree given by env HIO_SRC (default /tmp/review_tcp/src):

 P1 (176955a) bare tcp.ServerTls (default tymeout 1.0) now drops a TLS handshake
              that progresses but needs >= 1.0 of virtual tyme; worked before.
 P2 (c5bb71f) https connection with client traffic every 0.5 < tymeout 1.0 is
              closed "idle" the moment its handshake completes (request already
              waiting). Same cadence over plain http is served.
 P3 (176955a) same with traffic every 0.75 < tymeout 1.0: closed while the
              handshake is still pending, although bytes moved in every window.
 P4 (c5bb71f) request sent as one TLS record trickled 10 bytes per 0.25 is
              closed "idle" after 1.0; same trickle over plain http is served.

Usage: /venv/bin/python seed_out/demo.py       (re-execs itself in a private netns)
Exit 1 if any problem reproduces else 0
"""
import os
import sys

SRC = os.environ.get("HIO_SRC", "/tmp/review_tcp/src")
if os.environ.get("DEMO_NETNS") != "1":  # sockets only inside private network namespace
    env = dict(os.environ, DEMO_NETNS="1", PYTHONPATH=SRC, PYTHONDONTWRITEBYTECODE="1")
    os.execvpe("unshare", ["unshare", "-n", "sh", "-c", 'ip link set lo up; exec "$@"',
                           "sh", sys.executable, "-W", "ignore", os.path.abspath(__file__)], env)

import socket
import ssl
import time

import hio
assert hio.__file__.startswith(SRC), hio.__file__

from hio.base import tyming
from hio.core import http
from hio.core.tcp import serving, clienting

certdir = '/tmp/review_tcp/tests/core/tcp/certs'
SKW = dict(keypath=certdir + '/server_key.pem', certpath=certdir + '/server_cert.pem',
           cafilepath=certdir + '/client.pem')
CKW = dict(certedhost='localhost', keypath=certdir + '/client_key.pem',
           certpath=certdir + '/client_cert.pem', cafilepath=certdir + '/server.pem')

found = []


def report(tag, commit, inp, observed, expected, bad):
    print("-" * 78)
    print("%s [%s] %s" % (tag, commit, "REPRODUCED" if bad else "not reproduced"))
    print("  input   :", inp)
    print("  observed:", observed)
    print("  expected:", expected)
    if bad:
        found.append(tag)


def app(environ, start_response):
    start_response('200 OK', [('Content-type', 'text/plain'), ('Content-length', '12')])
    return [b"Hello World!"]


# ---------------------------------------------------------------- P1
def tcpTls(dt, every, port, cycles=40):
    """tcp ServerTls + ClientTls on one Tymist, client serviced every `every` cycles"""
    tymist = tyming.Tymist(tyme=0.0)
    with serving.openServer(cls=serving.ServerTls, host='localhost', port=port,
                            tymth=tymist.tymen(), **SKW) as server, \
         clienting.openClient(cls=clienting.ClientTls, host='localhost', port=port,
                              tymth=tymist.tymen(), **CKW) as client:
        client.tx(b'hello')
        for i in range(cycles):
            server.service()
            time.sleep(0.01)
            if i % every == 0:
                client.service()
                time.sleep(0.01)
            for ix in server.ixes.values():
                if ix.rxbs:
                    return "server.tymeout=%s delivered %r at tyme %.2f" % (
                        server.tymeout, bytes(ix.rxbs), tymist.tyme)
            tymist.tick(tock=dt)
        return ("server.tymeout=%s never delivered in %d cycles; server cxes=%d ixes=%d, "
                "client.cutoff=%s" % (server.tymeout, cycles, len(server.cxes),
                                      len(server.ixes), client.cutoff))


obs = tcpTls(dt=0.25, every=3, port=6301)
report("P1", "176955a",
       "tcp.ServerTls() with default tymeout wound to a Tymist ticking 0.25; tcp.ClientTls "
       "serviced every 3rd cycle (handshake bytes every 0.75), client.tx(b'hello')",
       obs,
       "b'hello' delivered (at 176955a^ it is delivered at tyme 1.75); the tcp layer never "
       "enforced .tymeout before",
       "never delivered" in obs)


# ---------------------------------------------------------------- P2 P3
def httpRun(scheme, every, port, tymeout=1.0, dt=0.25, cycles=24):
    tymist = tyming.Tymist(tyme=0.0)
    skw = dict(SKW, scheme='https') if scheme == 'https' else {}
    ckw = dict(CKW, scheme='https') if scheme == 'https' else {}
    with http.openServer(port=port, app=app, tymeout=tymeout, tymth=tymist.tymen(), **skw) as alpha:
        path = "%s://localhost:%d/" % (scheme, port)
        with http.openClient(path=path, tymth=tymist.tymen(), **ckw) as beta:
            beta.requests.append(dict(method='GET', path='/x'))
            trace = []
            for i in range(cycles):
                alpha.service()
                time.sleep(0.01)
                if i % every == 0:
                    beta.service()
                    time.sleep(0.01)
                trace.append("%.2f:cx%d/ix%d" % (tymist.tyme,
                                                 len(getattr(alpha.servant, 'cxes', {})),
                                                 len(alpha.servant.ixes)))
                if beta.responses:
                    break
                tymist.tick(tock=dt)
            r = beta.responses[0] if beta.responses else None
            ok = bool(r and r['status'] == 200 and not r['errored'])
            return ok, "response=%s  server(tyme:pending/established)=%s" % (
                (r['status'], r['errored'], r['error']) if r else None, " ".join(trace[:9]))


for tag, commit, every, port in (("P2", "c5bb71f", 2, 6310), ("P3", "176955a", 3, 6320)):
    okp, obsp = httpRun('http', every, port)
    oks, obss = httpRun('https', every, port + 1)
    report(tag, commit,
           "http.Server tymeout=1.0, Tymist tick 0.25, http.Client serviced every %d cycles "
           "(traffic every %.2f < tymeout), one GET; plain http vs https" % (every, every * 0.25),
           "plain: %s\n            https: %s" % (obsp, obss),
           "both answered 200: a connection with traffic in every tymeout window is never "
           "closed for being idle (C12)",
           okp and not oks)


# ---------------------------------------------------------------- P4
REQ = (b'GET /x HTTP/1.1\r\nHost: localhost\r\nAccept: text/plain\r\nX-Pad: ' +
       b'p' * 40 + b'\r\n\r\n')


def trickle(tls, port, chunk=10, dt=0.25, tymeout=1.0):
    tymist = tyming.Tymist(tyme=0.0)
    skw = dict(SKW, scheme='https') if tls else {}
    with http.openServer(port=port, app=app, tymeout=tymeout, tymth=tymist.tymen(), **skw) as alpha:
        s = socket.create_connection(('127.0.0.1', port))
        s.setblocking(False)

        def pump():
            alpha.service()
            time.sleep(0.01)

        def rx():
            try:
                return s.recv(65536)
            except BlockingIOError:
                return None

        if tls:
            ctx = ssl.create_default_context(ssl.Purpose.SERVER_AUTH, cafile=certdir + '/server.pem')
            ctx.verify_flags &= ~ssl.VERIFY_X509_STRICT
            ctx.load_cert_chain(certdir + '/client_cert.pem', certdir + '/client_key.pem')
            inb, outb = ssl.MemoryBIO(), ssl.MemoryBIO()
            so = ctx.wrap_bio(inb, outb, server_hostname='localhost')
            done = False
            for i in range(50):  # quick handshake, 0.01 of tyme per step
                try:
                    so.do_handshake()
                    done = True
                except ssl.SSLWantReadError:
                    pass
                d = outb.read()
                if d:
                    s.sendall(d)
                time.sleep(0.01)
                pump()
                tymist.tick(tock=0.01)
                d = rx()
                if d:
                    inb.write(d)
                if done and alpha.servant.ixes:
                    break
            assert done and alpha.servant.ixes
            so.write(REQ)
            wire = outb.read()  # one tls record
        else:
            pump()
            wire = REQ
        t0 = tymist.tyme
        got = b''
        note = ""
        for off in range(0, len(wire) + 6 * chunk, chunk):
            piece = wire[off:off + chunk]
            if piece:
                try:
                    s.sendall(piece)
                except OSError as ex:
                    note = "send failed at tyme %.2f %r" % (tymist.tyme, ex)
                    break
            time.sleep(0.01)
            pump()
            pump()
            d = rx()
            if d == b'':
                note = "server closed the connection at tyme %.2f after %d of %d bytes" % (
                    tymist.tyme, min(off + chunk, len(wire)), len(wire))
                break
            if d:
                if tls:
                    inb.write(d)
                    try:
                        got += so.read(65536)
                    except ssl.SSLWantReadError:
                        pass
                else:
                    got += d
            if got:
                break
            tymist.tick(tock=dt)
        s.close()
        return got.startswith(b'HTTP/1.1 200'), "established at %.2f, %d wire bytes: %s" % (
            t0, len(wire), note or ("answered %r at tyme %.2f" % (got[:15], tymist.tyme)))


okp, obsp = trickle(False, 6330)
oks, obss = trickle(True, 6331)
report("P4", "c5bb71f",
       "http.Server tymeout=1.0; raw client sends one GET (one TLS record when https) "
       "10 bytes every 0.25 of tyme; plain http vs https",
       "plain: %s\n            https: %s" % (obsp, obss),
       "both answered 200: bytes arrive in every tymeout window so the connection is not idle (C12)",
       okp and not oks)

print("=" * 78)
print("problems reproduced:", found if found else "none")
sys.exit(1 if found else 0)

#!/usr/bin/env python
"""
C05 demo: Doist run termination with limit L == 0.

Statement clause under test:
  "A run with limit L stops after the first cycle whose end tyme is at least
   start+L, and done is True only if every doer had already completed."

With L = 0.0 the first cycle already ends at start+tock >= start+0, so the run
must stop after exactly one cycle (with done False when a doer is still
running).  Observed: Doist.do()/Doist.ado() test the limit with
`if self.limit and tymer.expired`, so a limit of 0.0 (which Doist stores as
0.0, distinct from None == "no limit") is silently treated as "no limit":
the run keeps cycling until every doer completes (forever if one never does).

Run with:
  PYTHONPATH=/tmp/seed_C05hunt/src PYTHONDONTWRITEBYTECODE=1 /venv/bin/python demo.py
Exit status 1 if the violation reproduces, 0 otherwise.
"""
import sys
import asyncio
import warnings
warnings.simplefilter("ignore")

import hio
assert hio.__file__.startswith('/tmp/seed_C05hunt/src'), hio.__file__
from hio.base import doing


class Runaway(Exception):
    """raised by the watchdog doer so a broken run can not hang the demo"""


class CountDoer(doing.Doer):
    """Completes (returns True) on its k-th recur, k=None never completes.
    Raises Runaway at recur number `guard` so the demo always terminates."""
    def __init__(self, k=None, guard=1000, **kwa):
        super().__init__(**kwa)
        self.k = k
        self.guard = guard
        self.n = 0

    def enter(self, *, temp=None):
        self.n = 0

    def recur(self, tyme):
        self.n += 1
        if self.n >= self.guard:
            raise Runaway(f"still being run in cycle {self.n}")
        return self.k is not None and self.n >= self.k


def expected_cycles(start, tock, limit, k):
    """Independent model of the statement: number of cycles the run lasts"""
    tyme = start
    cycles = 0
    while True:
        tyme += tock
        cycles += 1
        if k is not None and cycles >= k:
            return cycles, True, tyme  # last doer completed in this cycle
        if limit is not None and tyme >= start + limit:
            return cycles, False, tyme


def run(mode, how, start, tock, limit, k):
    doer = CountDoer(k=k)
    if how == "init":
        doist = doing.Doist(tyme=start, tock=tock, limit=limit, doers=[doer])
        kwa = {}
    else:
        doist = doing.Doist(tyme=start, tock=tock, doers=[doer])
        kwa = dict(limit=limit)
    note = ""
    try:
        if mode == "do":
            doist.do(**kwa)
        else:
            asyncio.run(doist.ado(**kwa))
    except Runaway as ex:
        note = f" (run never stopped: watchdog fired, {ex})"
    return doist, doer, note


def main():
    failures = 0
    cases = [
        # (mode, how limit is given, start, tock, limit, k)
        ("do",  "init", 0.0, 1.0,     0.0,   8),     # doer completes on 8th cycle
        ("do",  "do",   7.3, 0.03125, 0.0,   5),
        ("ado", "do",   1.0, 0.5,     0.0,   4),
        ("do",  "init", 0.0, 1.0,     0.0,   None),  # doer never completes
        ("ado", "init", 0.0, 1.0,     0.0,   None),
        # controls, same inputs with the smallest positive limits: these behave
        ("do",  "init", 0.0, 1.0,     1e-12, 8),
        ("do",  "init", 0.0, 1.0,     1e-12, None),
        ("do",  "do",   7.3, 0.03125, 0.01,  5),     # limit not a multiple of tock
        ("ado", "do",   1.0, 0.5,     0.75,  4),
    ]
    for mode, how, start, tock, limit, k in cases:
        ecycles, edone, etyme = expected_cycles(start, tock, limit, k)
        doist, doer, note = run(mode, how, start, tock, limit, k)
        ok = (doer.n == ecycles and doist.done is edone and doist.tyme == etyme
              and bool(doer.done) == (k is not None and k <= ecycles))
        print(f"{'ok  ' if ok else 'FAIL'} Doist.{mode}() limit={limit!r} "
              f"(given at {how}) start={start} tock={tock} doer completes at "
              f"cycle {k}: .limit stored as {doist.limit!r}")
        print(f"       required : stop after {ecycles} cycle(s) at tyme {etyme}, "
              f"doist.done={edone}, doer.done={k is not None and k <= ecycles}")
        print(f"       observed : ran {doer.n} cycle(s) to tyme {doist.tyme}, "
              f"doist.done={doist.done}, doer.done={doer.done}{note}")
        if not ok:
            failures += 1

    if failures:
        print(f"\n{failures} violation(s) of C05: a run with limit 0.0 does not stop "
              "after the first cycle whose end tyme is >= start+L; the limit is "
              "ignored (src/hio/base/doing.py `if self.limit and tymer.expired`).")
        return 1
    print("\nno violation reproduced")
    return 0


if __name__ == "__main__":
    sys.exit(main())

#!/venv/bin/python
"""C07 hunt demo: real-time pacing of Doist.do() drifts EARLY for any tock that
is not a whole number of float quanta of the epoch sized system time.

Run:
  PYTHONPATH=/tmp/seed_C07hunt/src PYTHONDONTWRITEBYTECODE=1 /venv/bin/python seed_out/demo.py

Part A  deterministic: the time module seen by hio is replaced with a perfectly
        steady simulated clock (epoch 1.79e9 like today, sleep never overshoots,
        nothing stalls, nothing steps).  The k-th cycle start is compared with
        k * tock of simulated elapsed real time.
Part B  the real system clock and real time.sleep, measured with time.monotonic.
Part C  strongest attempted scenarios that found nothing (backward steps,
        stalls, overshoots, reuse of the doist with tock changed before a run).

exit 1 if a violation reproduces, 0 otherwise.
"""
import sys
import time as realtime
import types
import random
import warnings
warnings.simplefilter("ignore")

import hio
assert hio.__file__.startswith('/tmp/seed_C07hunt/src'), hio.__file__
from hio.base import doing
from hio.help import timing

EPS = 2e-6  # 2 microseconds, about 8 quanta of time.time(); anything the clock
            # itself can not resolve is not counted as early


class FakeTime(types.ModuleType):
    """Stand in for the time module inside hio. .true is true elapsed seconds,
    time() is base + true less what backward steps and stalls took away."""
    def __init__(self, base=1.79e9, steps=(), stalls=(), overshoot=lambda s: 0.0,
                 readcost=0.0):
        super().__init__('faketime')
        self.base, self.true = base, 0.0
        self.steps, self.stalls = sorted(steps), sorted(stalls)
        self.overshoot, self.readcost = overshoot, readcost

    def time(self):
        self.true += self.readcost
        t, lost = self.true, 0.0
        for at, amt in self.steps:  # backward steps
            if at <= t:
                lost += amt
        for t0, t1 in self.stalls:  # clock stands still in [t0, t1)
            lost += (t1 - t0) if t >= t1 else max(0.0, t - t0)
        return self.base + (t - lost)

    def sleep(self, s):
        assert s >= 0.0
        self.true += s + self.overshoot(s)


def paced(tock, cycles, now, doist=None, settock=None, work=None):
    """Run a real=True Doist for cycles+1 cycles of one doer with the blocking
    do() and return (began, starts) readings of now()."""
    starts = []

    def doer(tymth=None, tock=0.0, **kw):
        yield  # enter
        for k in range(cycles + 1):
            starts.append(now())
            if work:
                work(k)
            yield
        return True
    doer.tock, doer.done, doer.opts = 0.0, None, {}

    if doist is None:
        doist = doing.Doist(real=True, tock=tock)  # tock set at construction
    if settock is not None:
        doist.tock = settock  # tock changed before the run
    began = now()
    doist.do(doers=[doer])
    return began, starts


def earliest(began, starts, tock):
    """max over k of (k * tock - elapsed at start of cycle k)"""
    return max((k * tock - (s - began), k) for k, s in enumerate(starts))


def partA():
    print("Part A: perfectly steady simulated clock at epoch 1.79e9, no overshoot")
    bad = False
    for tock, cycles in [(0.1, 36000), (0.01, 20000), (0.001, 60000),
                         (0.0001, 100000), (0.03125, 2000)]:
        ft = FakeTime()
        timing.time = doing.time = ft
        began, starts = paced(tock, cycles, lambda: ft.true)
        early, k = earliest(began, starts, tock)
        elapsed = starts[-1] - began
        flag = early > EPS
        bad |= flag
        print(f"  Doist(real=True, tock={tock}).do(): cycle k={cycles} started after "
              f"{elapsed:.7f}s of real time, statement requires >= {cycles * tock:.7f}s;"
              f" worst early {early:.3e}s = {early / tock:.2f} tocks at k={k}"
              f"  {'VIOLATION' if flag else 'ok'}")
        if flag:
            d = doing.Doist(real=True, tock=tock)
            d.timer.start(duration=tock)
            d.timer.restart()
            print(f"      after one restart() timer.duration == {d.timer.duration!r}"
                  f" instead of {tock!r}")
    timing.time = doing.time = realtime
    return bad


def partB():
    print("Part B: real system clock, real time.sleep, measured with time.monotonic()")
    bad = False
    for tock, cycles in [(0.0001, 50000), (0.001, 10000)]:
        began, starts = paced(tock, cycles, realtime.monotonic)
        elapsed = starts[-1] - began
        early = cycles * tock - elapsed
        flag = early > max(EPS, 0.25 * tock)
        bad |= flag
        print(f"  Doist(real=True, tock={tock}).do(): cycle k={cycles} started after "
              f"{elapsed:.6f}s, statement requires >= {cycles * tock:.6f}s; early by "
              f"{early:+.6f}s = {early / tock:+.2f} tocks  {'VIOLATION' if flag else 'ok'}")
    return bad


def partC():
    print("Part C: attempts that found nothing (binary exact tocks so the rounding"
          " above does not show)")
    bad = False
    rng = random.Random(7)
    worst = 0.0
    for trial in range(1500):  # steps back, stalls, overshoots, slow cycles
        tock = rng.choice([0.03125, 0.25, 0.125, 0.5, 0.0625])
        cycles = rng.randint(2, 60)
        span = cycles * tock * 1.5
        steps = [(rng.uniform(0, span),
                  rng.choice([1e-3, tock / 2, tock, 3 * tock, 100.0, 1e6, 1.79e9 - 5]))
                 for _ in range(rng.randint(0, 4))]
        stalls = []
        if rng.random() < 0.5:
            a = rng.uniform(0, span)
            stalls = [(a, a + rng.choice([1e-3, tock / 3, tock, 4 * tock]))]
        r = random.Random(trial)
        ovp, wp = rng.choice([0.0, 0.1, 0.5]), rng.choice([0.0, 0.2])
        ft = FakeTime(steps=steps, stalls=stalls, readcost=rng.choice([0.0, 1e-6, 1e-4]),
                      overshoot=lambda s: (r.choice([1e-4, tock * 0.3, tock * 2.7, tock * 10])
                                           if r.random() < ovp else 0.0))
        timing.time = doing.time = ft

        def work(k):
            if r.random() < wp:
                ft.true += r.choice([tock * 0.5, tock * 1.5, tock * 5])
        began, starts = paced(tock, cycles, lambda: ft.true, work=work)
        worst = max(worst, earliest(began, starts, tock)[0])
    print(f"  1500 random clock histories (steady/stalled/stepped back, overshoots,"
          f" slow cycles): worst early {worst:.3e}s  {'VIOLATION' if worst > EPS else 'ok'}")
    bad |= worst > EPS

    worst = 0.0
    for trial in range(300):  # same doist run three times, tock changed before each
        ft = FakeTime(readcost=1e-6)
        timing.time = doing.time = ft
        d = doing.Doist(real=True, tock=rng.choice([0.03125, 0.5, 2.0]))
        for runno in range(3):
            newtock = rng.choice([0.03125, 0.25, 0.5, 1.0])
            ft.true += rng.uniform(0, 3)
            if rng.random() < 0.6:  # clock stepped back between the runs
                ft.steps.append((ft.true, rng.choice([0.1, 5.0, 1000.0])))
                ft.steps.sort()
            ft.true += rng.uniform(0, 1)
            began, starts = paced(newtock, rng.randint(2, 20), lambda: ft.true,
                                  doist=d, settock=newtock)
            worst = max(worst, earliest(began, starts, newtock)[0])
    print(f"  300 doists reused for 3 runs, tock changed and clock stepped back between"
          f" runs: worst early {worst:.3e}s  {'VIOLATION' if worst > EPS else 'ok'}")
    bad |= worst > EPS

    # lossless: one slow cycle then immediate catch up, later deadlines unmoved
    tock = 0.25
    ft = FakeTime()
    timing.time = doing.time = ft

    def slow(k):
        if k == 3:
            ft.true += 2.6 * tock
    began, starts = paced(tock, 12, lambda: ft.true, work=slow)
    late = max(s - began - k * tock for k, s in enumerate(starts[7:], 7))
    print(f"  one cycle 2.6 tocks late: cycles 7.. start {late:.3e}s after their own"
          f" deadline  {'VIOLATION' if late > EPS else 'ok'}")
    bad |= late > EPS
    timing.time = doing.time = realtime
    return bad


if __name__ == "__main__":
    a = partA()
    b = partB()
    c = partC()
    if a or b or c:
        print("RESULT: C07 violated: with a steady clock the k-th cycle starts EARLIER"
              " than k tocks of elapsed real time and the error grows with k (drift).")
        sys.exit(1)
    print("RESULT: no violation reproduced")
    sys.exit(0)

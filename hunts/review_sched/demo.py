"""
Adversarial review of the repairs to src/hio/base/doing.py (5050a86, 93bcd53, ddaecc6).

Run:  PYTHONPATH=/tmp/review_sched/src PYTHONDONTWRITEBYTECODE=1 /venv/bin/python demo.py
      (HIO_SRC=<other src dir> runs it against another tree)

Prints input / observed / expected for each problem, exits 1 if any reproduces.
"""
import os
import sys
import warnings

warnings.simplefilter('ignore')
SRC = os.environ.get('HIO_SRC', '/tmp/review_sched/src')
sys.path.insert(0, SRC)
import hio
assert hio.__file__.startswith(SRC), hio.__file__
from hio.base import doing

LOG = []


class T(doing.Doer):
    """Doer that logs its lifecycle, with optional hooks in enter and recur"""
    def __init__(self, name, on_enter=None, on_recur=None, **kw):
        super().__init__(**kw)
        self.name = name
        self.n = 0
        self.on_enter = on_enter
        self.on_recur = on_recur

    def enter(self, *, temp=None):
        LOG.append('enter ' + self.name)
        if self.on_enter:
            self.on_enter(self)

    def recur(self, tyme):
        self.n += 1
        LOG.append('recur %s@%s' % (self.name, tyme))
        if self.on_recur:
            self.on_recur(self)
        return False

    def cease(self):
        LOG.append('cease ' + self.name)

    def exit(self):
        LOG.append('exit ' + self.name)


def take():
    log = list(LOG)
    LOG.clear()
    return log


def names(log, kind, tyme=None):
    out = []
    for e in log:
        k, rest = e.split(' ', 1)
        if k != kind:
            continue
        if tyme is not None and not rest.endswith('@%s' % tyme):
            continue
        out.append(rest.split('@')[0])
    return out


found = []


def report(tag, inp, observed, expected):
    bad = observed != expected
    print('-' * 78)
    print('%s: %s' % (tag, 'REPRODUCED' if bad else 'ok (not reproduced)'))
    print('  input   :', inp)
    print('  observed:', observed)
    print('  expected:', expected)
    if bad:
        found.append(tag)


# ---------------------------------------------------------------------------
# Problem 1 (93bcd53, also ddaecc6): the enter ordinal is taken AFTER the enter
# context of the doer has run.  A doer X added with extend() from A's enter
# context (the very situation 93bcd53's message names) therefore ranks BEFORE A
# although A was entered first and X's enter is nested in A's enter.
# ---------------------------------------------------------------------------

# 1a Doist, limit -> forced exits
doist = doing.Doist(tock=1.0)
X = T('X')
A = T('A', on_enter=lambda s: doist.extend([X]))
B = T('B')
C = T('C')
doist.do(doers=[A, B, C], limit=2.0)
log = take()
inp = "Doist(tock=1).do(doers=[A,B,C], limit=2); A.enter() calls doist.extend([X])"
report('P1a forced exit order (Doist)', inp + "  [enter order observed: %s]" % names(log, 'enter'),
       names(log, 'exit'), list(reversed(names(log, 'enter'))))
report('P1a recur order in a cycle (Doist)', inp,
       names(log, 'recur', 1.0), names(log, 'enter'))

# 1b same in a DoDoer
doist = doing.Doist(tock=1.0)
D = doing.DoDoer(tock=0.0)
X = T('X')
A = T('A', on_enter=lambda s: D.extend([X]))
B = T('B')
C = T('C')
D.doers = [A, B, C]
doist.do(doers=[D], limit=2.0)
log = take()
inp = "Doist.do(doers=[DoDoer(doers=[A,B,C])], limit=2); A.enter() calls dodoer.extend([X])"
report('P1b forced exit order (DoDoer)', inp + "  [enter order observed: %s]" % names(log, 'enter'),
       names(log, 'exit'), list(reversed(names(log, 'enter'))))
report('P1b recur order in a cycle (DoDoer)', inp,
       names(log, 'recur', 1.0), names(log, 'enter'))

# 1c remove() closes in the same wrong order
doist = doing.Doist(tock=1.0)
X = T('X')
A = T('A', on_enter=lambda s: doist.extend([X]))
B = T('B')
C = T('C', on_recur=lambda s: doist.remove([A, X]) if s.n == 2 else None)
doist.do(doers=[A, B, C], limit=3.0)
log = take()
ceased = names(log, 'cease')[:2]
report('P1c remove([A, X]) close order',
       "as 1a, then C.recur() calls doist.remove([A, X]) in cycle 2",
       ceased, ['X', 'A'])

# 1d across schedulers: child of a DoDoer extends the Doist from its enter
doist = doing.Doist(tock=1.0)
X = T('X')
A = T('A', on_enter=lambda s: doist.extend([X]))
D = doing.DoDoer(doers=[A], tock=0.0)
E = T('E')
doist.do(doers=[D, E], limit=2.0)
log = take()
report('P1d forced exit order, child of DoDoer extends the Doist from its enter',
       "Doist.do(doers=[DoDoer([A]), E], limit=2); A.enter() calls doist.extend([X])"
       "  [enter order observed: %s]" % names(log, 'enter'),
       names(log, 'exit'), list(reversed(names(log, 'enter'))))


# ---------------------------------------------------------------------------
# Problem 2 (5050a86): the "already has a live deed" test of the enter walk uses
# identity (deed[2] is doer) while .doers membership, extend() and remove() use
# equality.  A doized method is a new bound method object on every attribute
# access ('==' but not 'is', see tests/base/test_doing.py RemoveDoDoer), so
# remove + extend of a later sibling from an enter context still enters it twice.
# ---------------------------------------------------------------------------

class Mgr(doing.DoDoer):
    def __init__(self, **kwa):
        super().__init__(doers=[self.bootDo, self.workDo], **kwa)

    @doing.doize()
    def bootDo(self, tymth=None, tock=0.0, **opts):
        # enter context: restart the worker
        self.remove([self.workDo])
        self.extend([self.workDo])
        yield
        return True

    @doing.doize()
    def workDo(self, tymth=None, tock=0.0, **opts):
        LOG.append('enter work')
        try:
            while True:
                tyme = yield
                LOG.append('recur work@%s' % tyme)
        finally:
            LOG.append('exit work')


mgr = Mgr(tock=0.0)
doist = doing.Doist(tock=1.0)
doist.do(doers=[mgr], limit=2.0)
log = take()
report('P2 doized bound method entered twice by the enter walk',
       "DoDoer(doers=[self.bootDo, self.workDo]); bootDo's enter context calls "
       "self.remove([self.workDo]); self.extend([self.workDo]); limit=2",
       log,
       ['enter work', 'recur work@0.0', 'recur work@1.0', 'exit work'])

print('-' * 78)
print('problems reproduced:', found if found else 'none')
sys.exit(1 if found else 0)

#!/venv/bin/python
"""
C22 hunt demo.  Run as:

  PYTHONPATH=/tmp/seed_C22hunt/src PYTHONDONTWRITEBYTECODE=1 \
      /venv/bin/python /tmp/seed_C22hunt/seed_out/demo.py [--core-only]

Part A  runs the strongest attacks on the anchored code itself
        (hio.core.memo.memoing Memoer / AuthMemoer receive side).  None of them
        produced a violation; they are expected to print "ok".
Part B  reproduces the one violation found: Memoer SUBCLASSES Bosser and
        Crewer (hio.base.multidoing, built on uxd PeerMemoer) raise out of
        their receive service (recur() -> service() -> serviceAllRx() ->
        overridden serviceRxMemos()) for one datagram that is a perfectly
        well formed gram whose memo body is attacker chosen JSON.

exit 1 if a violation reproduces, else 0.  With --core-only only Part A counts.
Only unix domain sockets in private temp directories are used (no ports).
"""
import sys
import os
import glob
import socket
import random
import logging
import time

import hio
assert hio.__file__.startswith('/tmp/seed_C22hunt/src'), hio.__file__

import pysodium
from base64 import urlsafe_b64decode as d64
from hio import help, hioing
from hio.help import helping
from hio.core.memo import memoing
from hio.core.memo.memoing import Memoer, MemoDex, Keyage

help.ogler.level = logging.CRITICAL
memoing.logger.setLevel(logging.CRITICAL)

CORE_ONLY = "--core-only" in sys.argv
violations = []      # (part, text)


def mkkey(seedbyte, code='B'):
    seed = bytes([seedbyte]) * 32
    verkey, sigkey = pysodium.crypto_sign_seed_keypair(seed)
    vid = Memoer._encodeVID(raw=verkey, code=code)
    return vid, Keyage(qvk=Memoer._encodeQVK(raw=verkey),
                       qss=Memoer._encodeQSS(raw=seed))


def receiver(keep=None, authic=True):
    rx = Memoer(authic=authic, keep=keep if keep is not None else {}, echoic=True)
    rx.reopen()
    return rx


def feed(rx, dgrams, src='src'):
    for d in dgrams:
        rx.echos.append((bytes(d), src))
    try:
        rx.serviceAllRx()
        rx.serviceAllRx()
    except BaseException as ex:  # anything at all out of the rx service
        return ex
    return None


vidV, kV = mkkey(1, 'B')
vidA, kA = mkkey(2, 'B')
vidW, kW = mkkey(3, 'D')
keep = {vidV: kV, vidA: kA, vidW: kW}


# --------------------------------------------------------------------------
# Part A: anchored code
# --------------------------------------------------------------------------
def partA1():
    """every single byte mutation and every truncation of valid signed grams,
    base64 and base2 heads, receiver with authic=True"""
    memo = "Pay Bob 10 euros. " * 6
    n = 0
    malleable = []
    for vid, curt in ((vidV, False), (vidW, True)):
        if True:
            tx = Memoer(code=MemoDex.GramAuthZero, keep=keep, vid=vid, curt=curt,
                        size=(230 if not curt else 180))
            grams = tx.rend(memo)
            assert len(grams) >= 2
            rx = receiver(keep)
            assert feed(rx, grams) is None and list(rx.inbox) == [(memo, 'src', vid)]
            for gi, g in enumerate(grams):
                for pos in range(len(g)):
                    # all 255 other values in head and signature, a sample in the body
                    if pos < 80 or pos >= len(g) - 88:
                        vals = range(256)
                    else:
                        vals = (0, 0x20, 0x2b, 0x2f, 0x3d, 0x41, 0x80, 0xff,
                                g[pos] ^ 1, g[pos] ^ 0x20)
                    for val in vals:
                        if val == g[pos]:
                            continue
                        m = bytearray(g)
                        m[pos] = val
                        ds = list(grams)
                        ds[gi] = bytes(m)
                        rx = receiver(keep)
                        ex = feed(rx, ds)
                        n += 1
                        if ex is not None:
                            violations.append(("A1", f"raised {ex!r} for {bytes(m)!r}"))
                        for mm, ss, vv in rx.inbox:
                            if mm != memo or vv != vid:
                                violations.append(("A1", f"tampered memo {mm!r} {vv} "
                                                         f"delivered for {bytes(m)!r}"))
                            else:
                                malleable.append((curt, gi, pos, chr(g[pos]), chr(val)))
                for L in range(len(g)):
                    ds = list(grams)
                    ds[gi] = g[:L]
                    rx = receiver(keep)
                    ex = feed(rx, ds)
                    n += 1
                    if ex is not None:
                        violations.append(("A1", f"raised {ex!r} for truncation {L}"))
                    if rx.inbox:
                        violations.append(("A1", f"memo delivered with gram {gi} "
                                                 f"truncated to {L}"))
    print(f"A1 ok: {n} single byte mutations/truncations of signed grams; "
          f"no raise, nothing but the authentic memo delivered")
    print(f"   note (not a violation): {len(malleable)} mutations still deliver the "
          f"unchanged authentic memo, all are '-'->'+' or '_'->'/' in the base64 "
          f"signature text (lenient urlsafe_b64decode): {sorted(set(x[3:] for x in malleable))}")


def craft(signer, code, neck, mid, body, curt=False, withvid=None):
    """gram of any code validly signed by signer (who is in keep)"""
    tx = Memoer(keep=keep, vid=signer, curt=curt)
    sz = Memoer.Sizes[code]
    if curt:
        head = d64(code.encode()) + neck.to_bytes(3) + d64(mid.encode())
        if sz.vz:
            head += d64((withvid or signer).encode())
    else:
        head = code.encode() + helping.intToB64b(neck, l=4) + mid.encode()
        if sz.vz:
            head += (withvid or signer).encode()
    g = head + body
    if sz.az:
        g += tx.sign(signer, g)
    return g


def partA2():
    """another key holder tries to splice grams (all codes, any gram number,
    own or victim vid in head, base64/base2) into the victim's signed memo,
    random interleaving with servicing in between"""
    rnd = random.Random(99)
    total = 0
    for it in range(1500):
        curt = rnd.random() < 0.3
        victim = rnd.choice([vidV, vidW])
        memoV = ("VVVV-victim-content-%d-" % it) * 4
        tx = Memoer(code=MemoDex.GramAuthZero, keep=keep, vid=victim, curt=curt,
                    size=(170 if not curt else 135))
        vg = tx.rend(memoV)
        mid, _, _, cnt = receiver(keep).pick(bytearray(vg[0]))
        ag = []
        for _ in range(rnd.randrange(1, 8)):
            code = rnd.choice(['bAAC', 'bAAD', 'bAAG', 'bAAH', 'bAAJ', 'bAAA', 'bAAB', 'bAAI'])
            neck = rnd.choice([0, 1, 2, 3, cnt, cnt - 1, 7])
            ag.append(craft(vidA, code, neck, mid, b"EVIL%d" % rnd.randrange(10),
                            curt=rnd.random() < 0.3,
                            withvid=rnd.choice([None, victim])))
        seq = list(vg) + ag + rnd.sample(vg, rnd.randrange(len(vg) + 1))
        rnd.shuffle(seq)
        rx = receiver(keep)
        i = 0
        try:
            while i < len(seq):
                k = rnd.randrange(1, 4)
                for d in seq[i:i + k]:
                    rx.echos.append((d, 's'))
                i += k
                rx.serviceAllRx()
        except Exception as ex:
            violations.append(("A2", f"raised {ex!r}"))
        for mm, ss, vv in rx.inbox:
            total += 1
            if (vv == victim and mm != memoV) or (vv != victim and 'VVVV' in mm) or vv is None:
                violations.append(("A2", f"spliced memo {mm!r} attributed to {vv}"))
    print(f"A2 ok: 1500 splice/replay/reorder histories, {total} memos delivered, "
          f"all authentic")


def partA3():
    """structured garbage: valid and unknown codes, bad base64/UTF-8 in every
    head part, '=' padding tricks, base2 heads, truncations, both authic modes"""
    rnd = random.Random(1234)
    b64 = b"ABCDEFGHIJKLMNOPQRSTUVWXYZabcdefghijklmnopqrstuvwxyz0123456789-_"
    codes = list(MemoDex) + ['bAAK', 'bAA_', 'b---', 'aAAA', 'cAAC', 'bAAa']

    def rb(n, bad=0.05):
        return bytes(rnd.choice([0, 0xff, 0x80, 0xc3, 61, 43, 47, 32, 10, 0xe2, 0xf0])
                     if rnd.random() < bad else rnd.choice(b64) for _ in range(n))
    mids = [Memoer.makeMID().encode() for _ in range(3)] + [b'A' * 24, b'\xc3\xa9' * 12]
    n = 0
    for it in range(6000):
        rx = receiver(keep, authic=rnd.random() < 0.5)
        ds = []
        for _ in range(rnd.randrange(1, 7)):
            code = rnd.choice(codes).encode()
            sz = Memoer.Sizes.get(code.decode(), rnd.choice(list(Memoer.Sizes.values())))
            neck = rnd.choice([b'AAAA', b'AAAB', b'AAAC', b'____', rb(4, 0.2)])
            mid = rnd.choice(mids + [rb(24)])
            vid = rnd.choice([vidV.encode(), vidW.encode(), rb(44), b'B' + rb(43),
                              b'B' + b'=' * 43]) if sz.vz else b''
            body = rnd.choice([b'', b'x', b'hello', b'\xe2\x82',
                               bytes(rnd.randrange(256) for _ in range(rnd.randrange(8)))])
            sig = rnd.choice([rb(88), b'0B' + rb(86), b'0BAA' + rb(84, 0),
                              b'0B' + b'=' * 86]) if sz.az else b''
            g = code + neck + mid + vid + body + sig
            r = rnd.random()
            if r < 0.3:
                try:
                    g = (d64(code) + d64(neck) + d64(mid) + (d64(vid) if vid else b'')
                         + body + (d64(sig) if sig else b''))
                except Exception:
                    pass
            elif r < 0.4:
                g = g[:rnd.randrange(len(g) + 1)]
            elif r < 0.5:
                g = bytes(rnd.randrange(256) for _ in range(rnd.randrange(1, 200)))
            if g:
                ds.append(g)
        ex = feed(rx, ds)
        n += len(ds)
        if ex is not None:
            violations.append(("A3", f"raised {ex!r} for {ds!r}"))
    print(f"A3 ok: {n} crafted/garbage datagrams, no raise")


def partA4():
    """boundary and state: count 0, ack gram as body, close/reopen with half a
    memo held, out of order signed grams"""
    tx = Memoer(code=MemoDex.GramAuthZero, keep=keep, vid=vidV, size=190)
    memo = "Pay Bob 10. " * 8
    gs = tx.rend(memo)
    rx = receiver(keep)
    ex1 = feed(rx, [gs[0]])
    rx.close()
    rx.reopen()
    ex2 = feed(rx, [gs[1]])
    if ex1 or ex2 or list(rx.inbox) != [(memo, 'src', vidV)]:
        violations.append(("A4", "reopen with half a memo misbehaved"))
    rx = receiver(keep)
    ex = feed(rx, [gs[1], gs[0]])   # non-zeroth first can not be verified: dropped
    if ex or rx.inbox:
        violations.append(("A4", "out of order signed grams misbehaved"))
    print("A4 ok: reopen with half a memo, out of order signed grams")


# --------------------------------------------------------------------------
# Part B: Memoer subclasses Bosser / Crewer
# --------------------------------------------------------------------------
def rawgram(memo, mid=b'0A' + b'A' * 22):
    """unsigned single gram memo built by hand, exactly what Memoer.rend makes:
    code 'bAAA' + count 'AAAB' + 24 char memo id + body"""
    return b'bAAA' + b'AAAB' + mid + memo.encode()


def signedgram(memo):
    """same memo as one gram validly signed by key holder vidA ('B' code vid, so
    any receiver derives the verkey from the vid itself)"""
    tx = Memoer(code=MemoDex.GramAuthZero, keep={vidA: kA}, vid=vidA)
    gs = tx.rend(memo)
    assert len(gs) == 1
    return gs[0]


def partB():
    from hio.base import multidoing
    from hio.base.multidoing import Bosser, Crewer, Bossage
    multidoing.ogler.level = logging.CRITICAL

    before = set(glob.glob('/tmp/hio_*'))
    found = 0
    cases = [
        # (class, kwargs, memo, gram maker)
        (Bosser, {}, '{"tag":"REG","name":""}', rawgram),
        (Bosser, {}, '{"tag":"REG","name":null}', rawgram),
        (Bosser, {}, '{"tag":"REG","name":["x"]}', rawgram),
        (Bosser, dict(authic=True), '{"tag":"REG","name":""}', signedgram),
        (Crewer, {}, '{"tag":"ACK","name":"bossC22","load":null}', rawgram),
        (Crewer, {}, '{"tag":"BOK","name":"bossC22","load":[1,2]}', rawgram),
    ]
    for cls, kwa, memo, maker in cases:
        if cls is Bosser:
            peer = Bosser(name='bossC22', temp=True, **kwa)
        else:
            peer = Crewer(name='handC22', temp=True,
                          boss=Bossage(name='bossC22', path='/tmp/hio_C22_no_such_boss.uxd'),
                          **kwa)
        sigint = None
        try:
            import signal
            sigint = (signal.getsignal(signal.SIGINT), signal.getsignal(signal.SIGTERM))
            peer.enter(temp=True)       # what Doist does; opens the uxd socket
            assert peer.opened
            s = socket.socket(socket.AF_UNIX, socket.SOCK_DGRAM)
            spath = os.path.join(os.path.dirname(peer.path), 'attacker.uxd')
            s.bind(spath)               # so that src is a proper address
            dg = maker(memo)
            s.sendto(dg, peer.path)
            s.close()
            os.unlink(spath)
            try:
                peer.recur(0.0)         # what Doist does each cycle -> .service()
                peer.recur(0.0)
                print(f"B  {cls.__name__}{kwa}: ok no raise for memo {memo}")
            except Exception as ex:
                found += 1
                violations.append(("B", f"{cls.__name__} raised {ex!r}"))
                print(f"B  VIOLATION {cls.__name__}({kwa}) receive service raised\n"
                      f"     datagram : {dg!r}\n"
                      f"     observed : {type(ex).__name__}: {ex}\n"
                      f"     required : 'For any datagram bytes received ... servicing "
                      f"the receive side does not raise'")
        finally:
            try:
                peer.exit()
            except Exception:
                pass
            if sigint:
                signal.signal(signal.SIGINT, sigint[0])
                signal.signal(signal.SIGTERM, sigint[1])
    for d in set(glob.glob('/tmp/hio_*')) - before:   # clean what we made
        import shutil
        shutil.rmtree(d, ignore_errors=True)
    return found


if __name__ == "__main__":
    t0 = time.time()
    partA1()
    partA2()
    partA3()
    partA4()
    ncore = len(violations)
    for part, text in violations[:20]:
        print("CORE VIOLATION", part, text[:300])
    nb = partB()
    print(f"\ncore (memoing.py) violations: {ncore}; subclass (multidoing.py) "
          f"violations: {nb}; {time.time()-t0:.0f}s")
    if CORE_ONLY:
        sys.exit(1 if ncore else 0)
    sys.exit(1 if (ncore or nb) else 0)

#!/venv/bin/python
"""C23 demo: durable queue (Durq) / durable set queue (Dusq) vs. their FIFO models.

Run with:
  PYTHONPATH=/tmp/seed_C23hunt/src PYTHONDONTWRITEBYTECODE=1 /venv/bin/python seed_out/demo.py

Exit status 1 when any violation reproduces, 0 when none does.
No sockets are used. The LMDB store lives in a private mkdtemp dir under
seed_out/ and is removed at the end.
"""
import os
import shutil
import sys
import tempfile
import warnings

warnings.simplefilter("ignore")

import hio
assert hio.__file__.startswith('/tmp/seed_C23hunt/src'), hio.__file__

from hio.base.during import Subery
from hio.base.hier import Durq, Dusq, Hold, Bag
from hio.base.hier.bagging import IceBag

HERE = os.path.dirname(os.path.abspath(__file__))
HEAD = tempfile.mkdtemp(prefix="c23db_", dir=HERE)

violations = []


def report(tag, history, observed, required):
    violations.append(tag)
    print(f"VIOLATION {tag}")
    print(f"  history : {history}")
    print(f"  observed: {observed}")
    print(f"  required: {required}")


def ok(tag):
    print(f"ok        {tag}")


def newstore(name):
    s = Subery(name=name, temp=False, headDirPath=HEAD, reopen=True)
    assert s.path.startswith(HEAD), s.path
    h = Hold()
    h['_hold_subery'] = s
    return s, h


def same(mem, dur, model):
    """values and their types equal elementwise, in order"""
    mem, dur, model = list(mem), list(dur), list(model)
    if not (mem == dur == model):
        return False
    tm = [(type(x), type(x.value)) for x in mem]
    td = [(type(x), type(x.value)) for x in dur]
    return tm == td


# ---------------------------------------------------------------------------
# V1  Dusq: a value that the in-memory set treats as a duplicate
#     (Bag(value=1) == Bag(value=1.0), same hash) is still written to the
#     durable copy because push() calls .add() even when nothing was added to
#     the set, update() hands ALL vals to .put(), and remove() looks up the
#     caller's object (not the stored member) in the durable copy.
# ---------------------------------------------------------------------------
def v1_push():
    s, h = newstore("v1push")
    try:
        u = Dusq()
        h['u'] = u
        hist = "Dusq in Hold with open Subery; push(Bag(value=1)); push(Bag(value=1.0))"
        u.push(Bag(value=1))
        u.push(Bag(value=1.0))     # equal to Bag(value=1): a duplicate for the set
        model = [Bag(value=1)]
        mem, dur = list(u), s.dsqs.get('u')
        bad = not same(mem, dur, model)
        after = None
        # reopen + resync with a fresh Dusq and drain
        s.close()
        s.reopen()
        h2 = Hold()
        h2['_hold_subery'] = s
        n = Dusq()
        h2['u'] = n
        mem2, dur2 = list(n), s.dsqs.get('u')
        drained = []
        try:
            while True:
                v = n.pull()
                if v is None:
                    break
                drained.append(v)
            after = f"drained {drained!r}"
        except Exception as ex:
            after = f"drained {drained!r} then {ex!r}"
            bad = True
        if not same(mem2, dur2, model):
            bad = True
        if bad:
            report("V1a Dusq.push of ==-equal value diverges durable copy", hist,
                   f"memory={mem!r} durable={dur!r}; after reopen+resync memory={mem2!r} "
                   f"durable={dur2!r}; {after}",
                   "'Their durable copy always holds the same values in the same order, "
                   "and reopening the store and resyncing restores exactly that content' "
                   f"-> both must be {model!r}")
        else:
            ok("V1a Dusq.push with ==-equal duplicate")
    finally:
        s.close(clear=True)


def v1_update():
    s, h = newstore("v1upd")
    try:
        u = Dusq()
        h['u'] = u
        hist = "push(Bag(value=0)); update([Bag(value=False), Bag(value=5)])"
        u.push(Bag(value=0))
        u.update([Bag(value=False), Bag(value=5)])  # False == 0 duplicate, 5 new
        model = [Bag(value=0), Bag(value=5)]
        mem, dur = list(u), s.dsqs.get('u')
        if not same(mem, dur, model):
            report("V1b Dusq.update of ==-equal value diverges durable copy", hist,
                   f"memory={mem!r} durable={dur!r}",
                   "'Their durable copy always holds the same values in the same order' "
                   f"-> both must be {model!r}")
        else:
            ok("V1b Dusq.update with ==-equal duplicate")
    finally:
        s.close(clear=True)


def v1_remove():
    s, h = newstore("v1rem")
    try:
        u = Dusq()
        h['u'] = u
        hist = "push(IceBag(value=2)); remove(IceBag(value=2.0))"
        u.push(IceBag(value=2))
        exc = None
        try:
            u.remove(IceBag(value=2.0))   # equal member -> set semantics: removed
        except Exception as ex:
            exc = ex
        model = []
        mem, dur = list(u), s.dsqs.get('u')
        if exc is not None or not same(mem, dur, model):
            report("V1c Dusq.remove of ==-equal value diverges durable copy", hist,
                   f"raised {exc!r}; memory={mem!r} durable={dur!r}",
                   "'a durable set (Dusq) [behaves] as an insertion-ordered set ... Their "
                   f"durable copy always holds the same values' -> both must be {model!r}")
        else:
            ok("V1c Dusq.remove with ==-equal member")
    finally:
        s.close(clear=True)


# ---------------------------------------------------------------------------
# V2  extend/update with a one-shot iterable (generator / iterator): the type
#     check loop exhausts it, so nothing is appended.
# ---------------------------------------------------------------------------
def v2_generators():
    s, h = newstore("v2gen")
    try:
        vals = [Bag(value=1), Bag(value=2), Bag(value=1)]
        # durable Durq
        q = Durq()
        h['q'] = q
        exc = None
        try:
            q.extend(v for v in vals)
        except Exception as ex:
            exc = ex
        mem, dur = list(q), s.drqs.get('q')
        if exc is not None or not same(mem, dur, vals):
            report("V2a Durq.extend(generator) on durable queue",
                   f"Durq in Hold; extend(generator over {vals!r})",
                   f"raised {exc!r}; memory={mem!r} durable={dur!r}",
                   "'For any sequence of push, pull, extend/update ... a durable queue "
                   f"(Durq) behaves as a FIFO queue' -> content must be {vals!r}")
        else:
            ok("V2a Durq.extend(generator) durable")

        # non durable Durq (no store at all)
        q0 = Durq()
        r = q0.extend(iter(vals))
        if list(q0) != vals:
            report("V2b Durq.extend(iterator) on plain queue",
                   f"Durq(); extend(iter({vals!r}))",
                   f"returned {r!r}; memory={list(q0)!r}",
                   f"'behaves as a FIFO queue' -> content must be {vals!r}")
        else:
            ok("V2b Durq.extend(iterator) non-durable")

        # durable Dusq
        u = Dusq()
        h['u'] = u
        r = u.update(iter(vals))
        model = [Bag(value=1), Bag(value=2)]
        mem, dur = list(u), s.dsqs.get('u')
        if not same(mem, dur, model):
            report("V2c Dusq.update(iterator) silently drops every value",
                   f"Dusq in Hold; update(iter({vals!r}))",
                   f"returned {r!r}; memory={mem!r} durable={dur!r}",
                   "'a durable set (Dusq) [behaves] as an insertion-ordered set' -> "
                   f"content must be {model!r}")
        else:
            ok("V2c Dusq.update(iterator)")
    finally:
        s.close(clear=True)


# ---------------------------------------------------------------------------
# V3  close()/reopen() of the same Subery between two operations, continuing
#     with the same Durq/Dusq object (as happens to every queue that stays in
#     Boxer.hold when Boxer.make() calls hold.subery.reopen()).
#     Subery.reopen() builds new suber objects on a new lmdb env; the queue
#     keeps the old suber whose sub-db handle belongs to the closed env, yet
#     .durable says True.
# ---------------------------------------------------------------------------
def v3_reopen_same_object(kind):
    s, h = newstore("v3" + kind.__name__)
    try:
        o = kind()
        h['k'] = o
        o.push(Bag(value=1))
        s.close()
        s.reopen()
        sdb = s.drqs if kind is Durq else s.dsqs
        hist = (f"{kind.__name__} in Hold; push(Bag(1)); subery.close(); subery.reopen(); "
                f"sync(force=True); push(Bag(2))")
        notes = [f"durable={bool(o.durable)}"]
        try:
            o.sync(force=True)        # the queue's own resync method
        except Exception as ex:
            notes.append(f"sync(force=True) raised {ex!r}")
        try:
            o.push(Bag(value=2))
        except Exception as ex:
            notes.append(f"push raised {ex!r}")
        model = [Bag(value=1), Bag(value=2)]
        mem, dur = list(o), sdb.get('k')
        if not same(mem, dur, model):
            report(f"V3 {kind.__name__} unusable after close/reopen of its store", hist,
                   f"{'; '.join(notes)}; memory={mem!r} durable={dur!r}",
                   "'Quantified over: ... with store close/reopen between any two operations' "
                   "+ 'Their durable copy always holds the same values in the same order' "
                   f"-> both must be {model!r}")
        else:
            ok(f"V3 {kind.__name__} reused after close/reopen")
    finally:
        s.close(clear=True)


# ---------------------------------------------------------------------------
# Control: scenarios that hold (model based, with reopen through re-injection)
# ---------------------------------------------------------------------------
def control():
    import random
    VALS = [Bag(value=0), Bag(value=1), IceBag(value=0), IceBag(value=1), Bag(value=2)]
    bad = 0
    for kind in (Durq, Dusq):
        for seed in range(40):
            rnd = random.Random(seed)
            s, h = newstore(f"ctl{kind.__name__}{seed}")
            try:
                o = kind()
                h['k'] = o
                model = []
                for i in range(14):
                    op = rnd.choice(['push', 'pull', 'ext', 'clear', 'reopen', 'remove'])
                    if op == 'push':
                        v = rnd.choice(VALS)
                        o.push(v)
                        if kind is Durq or v not in model:
                            model.append(v)
                    elif op == 'pull':
                        r = o.pull()
                        e = model.pop(0) if model else None
                        assert r == e, (r, e)
                    elif op == 'ext':
                        vs = [rnd.choice(VALS) for _ in range(rnd.randint(0, 3))]
                        if kind is Durq:
                            o.extend(vs)
                            model.extend(vs)
                        else:
                            o.update(vs)
                            for v in vs:
                                if v not in model:
                                    model.append(v)
                    elif op == 'clear':
                        o.clear()
                        model.clear()
                    elif op == 'remove' and kind is Dusq:
                        v = rnd.choice(VALS)
                        o.remove(v)
                        if v in model:
                            model.remove(v)
                    elif op == 'reopen':
                        s.close()
                        s.reopen()
                        h = Hold()
                        h['_hold_subery'] = s
                        o = kind()
                        h['k'] = o
                    sdb = s.drqs if kind is Durq else s.dsqs
                    assert same(o, sdb.get('k'), model), (list(o), sdb.get('k'), model)
            except AssertionError as ex:
                bad += 1
                print("control failure", kind.__name__, seed, ex)
            finally:
                s.close(clear=True)
    if bad:
        violations.append("control")
    else:
        ok("control: 80 random histories incl. duplicates and reopen via re-injection")


try:
    v1_push()
    v1_update()
    v1_remove()
    v2_generators()
    v3_reopen_same_object(Durq)
    v3_reopen_same_object(Dusq)
    control()
finally:
    shutil.rmtree(HEAD, ignore_errors=True)

print()
if violations:
    print(f"{len(violations)} violation(s) reproduced: {violations}")
    sys.exit(1)
print("no violation reproduced")
sys.exit(0)

"""Adversarial review demo for the repairs touching during.py, dusqing.py,
durqing.py, doming.py and filing.py.

Run with
  PYTHONPATH=/tmp/review_misc/src PYTHONDONTWRITEBYTECODE=1 \
  unshare -n sh -c 'ip link set lo up; exec "$@"' sh /venv/bin/python seed_out/demo.py

Exits 1 when a problem reproduces on the tree under PYTHONPATH, else 0.
"""
import glob
import logging
import os
import shutil
import sys

import hio

assert hio.__file__.startswith('/tmp/review_misc/src'), hio.__file__

from hio.core.uxd import uxding

logging.disable(logging.CRITICAL)  # the failing bind is logged as an error

found = 0


def problem_1():
    """commit 4c34b53 (temp Filer reopened abandoned its temp directory)

    reopen() of a temp Filer now remakes inside the temp directory it already
    has.  The uxd Peer (Filer subclass, extensioned path that is a bound socket
    file) closed without clear leaves its dead socket file at .path; before the
    repair the reopen went to a brand new temp directory so the bind succeeded,
    now it binds the same path again and fails with EADDRINUSE.
    """
    before = set(glob.glob('/tmp/hio_uxd_*_test'))
    peer = uxding.Peer(name='x', temp=True, reopen=True)
    first = peer.path
    assert peer.opened and os.path.exists(first)
    try:
        result = peer.reopen(clear=False)
        bound = None
        try:
            bound = peer.ls.getsockname()
        except Exception as ex:  # pragma: no cover
            bound = repr(ex)
        observed = (f"reopen(clear=False) returned {result!r}, .opened={peer.opened!r}, "
                    f"socket bound to {bound!r}, .path={peer.path!r} "
                    f"({'same' if peer.path == first else 'new'} path as before)")
        bad = (result is not True) or not bound
    except Exception as ex:
        observed = f"reopen(clear=False) raised {ex!r}"
        bad = True
    finally:
        peer.close(clear=True)
        for d in set(glob.glob('/tmp/hio_uxd_*_test')) - before:
            shutil.rmtree(d, ignore_errors=True)

    print("PROBLEM 1 (commit 4c34b53, filing.py Filer.reopen / uxd Peer)")
    print("  input   : p = hio.core.uxd.uxding.Peer(name='x', temp=True, reopen=True); "
          "p.reopen(clear=False)")
    print("  observed:", observed)
    print("  expected: reopen(clear=False) returns True with the socket bound at "
          ".path and .opened True (as before the repair, where it returned True)")
    print("  reproduced:", bad)
    return bad


if problem_1():
    found += 1

sys.exit(1 if found else 0)

#!/venv/bin/python
"""
C09 demo: TCP/TLS byte streams delivered exactly, in order, under partial I/O,
and wire log records exactly the bytes actually sent and received.

Run (private net namespace so fixed ports do not collide with other jobs):

  PYTHONPATH=/tmp/seed_C09hunt/src PYTHONDONTWRITEBYTECODE=1 \
    unshare -n sh -c 'ip link set lo up; exec "$@"' sh \
    /venv/bin/python -W ignore /tmp/seed_C09hunt/seed_out/demo.py

Exit 1 if any violation reproduces, else 0.
"""
import os
import sys
import time
import warnings
warnings.simplefilter("ignore")

import hio
assert hio.__file__.startswith('/tmp/seed_C09hunt/src'), hio.__file__

from hio.base import tyming
from hio.core import tcp, wiring

CERTS = '/tmp/seed_C09hunt/tests/core/tcp/certs'
P = lambda n: os.path.join(CERTS, n)

found = []


def tlsPair(tymist, port, wlc, wls):
    server = tcp.openServer(cls=tcp.ServerTls, tymth=tymist.tymen(),
                            ha=("", port), wl=wls,
                            keypath=P('server_key.pem'),
                            certpath=P('server_cert.pem'),
                            cafilepath=P('client.pem'))
    client = tcp.openClient(cls=tcp.ClientTls, tymth=tymist.tymen(),
                            ha=("127.0.0.1", port), wl=wlc,
                            certedhost='localhost',
                            keypath=P('client_key.pem'),
                            certpath=P('client_cert.pem'),
                            cafilepath=P('server.pem'))
    return server, client


def demo1(direction):
    """
    V1: TLS send that hits SSLWantWrite is accounted as 0 bytes sent although
    whole TLS records already went out and are received by the peer.
    direction 'c2s' uses ClientTls.send, 's2c' uses RemoterTls.send
    """
    print(f"\n=== V1 ({direction}): TLS large transmit, peer not reading at first ===")
    N = 40_000_000
    payload = (bytes(range(251)) * (N // 251 + 1))[:N]
    tymist = tyming.Tymist()
    wlc = wiring.WireLog(fmt=b'%(data)b', reopen=True)  # in-memory, data only
    wls = wiring.WireLog(fmt=b'%(data)b', reopen=True)
    sctx, cctx = tlsPair(tymist, 6101, wlc, wls)
    bad = False
    with sctx as server, cctx as client:
        while not (client.connected and len(server.ixes) >= 1):
            client.serviceConnect()
            server.serviceConnects()
            time.sleep(0.01)
        ix = server.ixes[client.ca]
        if direction == 'c2s':
            sender, receiver, swl, rwl = client, ix, wlc, wls
        else:
            sender, receiver, swl, rwl = ix, client, wls, wlc

        sender.tx(payload)  # ONE transmit call, large payload
        sender.serviceSends()  # kernel buffers fill, SSL_write -> SSLWantWrite
        time.sleep(0.1)
        receiver.serviceReceives()  # peer drains what is on the wire

        got = len(receiver.rxbs)
        logged = len(swl.readTx())
        unsent = len(sender.txbs)
        print(f"input: one tx() of {N} bytes on TLS, one serviceSends(), then peer serviceReceives()")
        print(f"observed: peer has received {got} bytes (is prefix: {payload.startswith(bytes(receiver.rxbs))}), "
              f"peer wire log rx = {len(rwl.readRx())} bytes")
        print(f"observed: sender wire log tx = {logged} bytes, sender.txbs still holds {unsent} of {N} bytes")
        print("required: 'A wire log, when attached, records exactly the bytes actually sent and received'")
        if got > 0 and logged < got:
            print(f"VIOLATION: {got} bytes were actually sent and received by the peer but the "
                  f"sender's wire log records {logged} bytes sent")
            bad = True

        # make it permanent: peer goes away after having read that much
        if direction == 'c2s':
            server.removeIx(client.ca)  # closes the remoter
        else:
            client.close()
        for i in range(20):
            if sender.cs:
                try:
                    sender.serviceSends()
                    sender.serviceReceives()
                except OSError:
                    break
            if sender.cutoff:
                break
            time.sleep(0.01)
        logged2 = len(swl.readTx())
        print(f"after peer closed: sender.cutoff={sender.cutoff} sender wire log tx = {logged2} bytes "
              f"(peer had received {got}), sender.txbs = {len(sender.txbs)} of {N} bytes "
              f"still counted as never sent")
        if got > 0 and logged2 < got:
            bad = True
    if bad:
        found.append(f"V1-{direction}")
    else:
        print("no violation reproduced")


def demo2():
    """
    V2: a file WireLog that is closed and reopened (what WireLogDoer.enter does
    on a second run) reports .opened True but holds closed files, so writeTx
    raises after the kernel already took the bytes and before .txbs is trimmed:
    the same bytes go out again on every later service.
    """
    print("\n=== V2: file WireLog reused after close()/reopen() on plain TCP client ===")
    wl = wiring.WireLog(filed=True, temp=True, name='c09demo', fmt=b'%(data)b',
                        reopen=True)
    bad = False

    def session(msg):
        got = bytearray()
        raised = 0
        with tcp.openServer(ha=('127.0.0.1', 6111)) as server, \
             tcp.openClient(ha=('127.0.0.1', 6111), wl=wl) as client:
            client.tx(msg)  # ONE transmit call
            for i in range(8):
                try:
                    client.service()
                except ValueError as ex:
                    raised += 1
                    lastex = ex
                server.service()
                for ix in server.ixes.values():
                    got.extend(ix.rxbs)
                    ix.clearRxbs()
                time.sleep(0.01)
            if raised:
                print(f"  client.service() raised ValueError('{lastex}') {raised} times")
            return bytes(got), bytes(client.txbs)

    got, left = session(b'one;')
    print(f"first use: transmitted b'one;' peer got {got} wire log tx {wl.readTx()}")
    wl.close()
    ok = wl.reopen()  # same as WireLogDoer.enter on re-entry
    print(f"wl.close(); wl.reopen() -> {ok}; wl.opened={wl.opened}; wl.txl.closed={wl.txl.closed}")
    got, left = session(b'hello')
    print(f"input: second use, one tx(b'hello'), 8 x client.service()")
    print(f"observed: peer received {got}; client.txbs still {left}; wire log tx {wl.readTx()}")
    print("required: 'nothing lost or duplicated' and 'A wire log ... records exactly the bytes actually sent'")
    if got != b'hello':
        print("VIOLATION: bytes duplicated on the wire / not recorded by the reopened wire log")
        bad = True
    try:
        wl.close()
    except Exception:
        pass
    wl.clearDirPath()
    if bad:
        found.append("V2")
    else:
        print("no violation reproduced")


def demo3():
    """
    V3: Server reused after close()/reopen() (what ServerDoer.enter does) keeps
    the closed Remoters in .ixes; .service() derefs their None socket and raises
    AttributeError before it reaches the new healthy connection, every time.
    """
    print("\n=== V3: Server reused after close()/reopen(), new healthy connection ===")
    bad = False
    server = tcp.Server(ha=('127.0.0.1', 6112))
    server.reopen()
    c1 = tcp.Client(ha=('127.0.0.1', 6112))
    c1.reopen()
    c1.tx(b'one')
    for i in range(5):
        c1.service()
        server.service()
        time.sleep(0.01)
    print("first use: peer got", [bytes(ix.rxbs) for ix in server.ixes.values()])
    c1.close()
    server.close()
    server.reopen()
    c2 = tcp.Client(ha=('127.0.0.1', 6112))
    c2.reopen()
    c2.tx(b'two')
    raised = 0
    for i in range(10):
        c2.service()
        try:
            server.service()
        except AttributeError as ex:
            raised += 1
            lastex = ex
        time.sleep(0.01)
    new = [ix for ca, ix in server.ixes.items() if ca == c2.ca]
    got = bytes(new[0].rxbs) if new else None
    print("input: server.close(); server.reopen(); new client connects, tx(b'two'), 10 x service() both sides")
    if raised:
        print(f"observed: server.service() raised AttributeError('{lastex}') {raised} times")
    print(f"observed: client.txbs={bytes(c2.txbs)} (kernel took it), new remoter rxbs={got}")
    print("required: 'Continued servicing of a healthy connection delivers all of it.'")
    if got != b'two':
        print("VIOLATION: bytes of the healthy new connection are never delivered by server.service()")
        bad = True
    c2.close()
    server.close()
    if bad:
        found.append("V3")
    else:
        print("no violation reproduced")


if __name__ == "__main__":
    demo1('c2s')
    demo1('s2c')
    demo2()
    demo3()
    print("\nviolations reproduced:", found if found else "none")
    sys.exit(1 if found else 0)

#!/usr/bin/env python
"""
C30 demo: Doist.do() versus asyncio.run(Doist.ado()) for the same doers and
settings (non real time) must give the same doer event traces, virtual tymes,
done flags and forced exits.

Run as:
  PYTHONPATH=/tmp/seed_C30hunt/src PYTHONDONTWRITEBYTECODE=1 \
      /venv/bin/python /tmp/seed_C30hunt/seed_out/demo.py [V1 V2 V3]

With no arguments all scenarios run. Exit status 1 when any selected violation
reproduces, 0 otherwise.
"""
import sys
import gc
import asyncio
import signal
import warnings

warnings.simplefilter("ignore")

import hio
assert hio.__file__.startswith('/tmp/seed_C30hunt/src'), hio.__file__
from hio.base.doing import Doist, Doer, DoDoer, doify


class TDoer(Doer):
    """Doer that appends (name, context, tyme, count) to shared log for each
    context and optionally raises in one context or runs an op at a given count"""
    def __init__(self, name, log, stop=10, fail=None, ops=None, **kwa):
        super().__init__(**kwa)
        self.name, self.log, self.stop = name, log, stop
        self.fail = fail          # context name in which to raise ValueError
        self.ops = ops or {}      # recur count -> callable(self)
        self.count = 0

    def _ev(self, ctx):
        self.log.append((self.name, ctx, self.tyme, self.count))
        if self.fail == ctx:
            raise ValueError(f"{self.name} fails in {ctx}")

    def enter(self, *, temp=None):
        self.count = 0
        self._ev('enter')

    def recur(self, tyme):
        self.count += 1
        self._ev('recur')
        op = self.ops.get(self.count)
        if op:
            op(self)
        return self.count >= self.stop

    def clean(self): self._ev('clean')
    def exit(self): self._ev('exit')
    def cease(self): self._ev('cease')
    def abort(self, ex): self._ev('abort')


def observe(mode, build):
    """Run fresh doist from build(log) in mode. Observation is taken as soon as
    the run has returned or raised and the caller has handled that."""
    log = []
    doist, doers = build(log)
    try:
        if mode == 'do':
            doist.do()
        else:
            asyncio.run(doist.ado())
        outcome = 'returned'
    except BaseException as ex:
        outcome = f"raised {type(ex).__name__}"
    obs = dict(outcome=outcome, trace=list(log), tyme=doist.tyme, done=doist.done,
               dones=[d.done for d in doers])
    gc.collect()
    obs['late'] = log[len(obs['trace']):]  # events that only happen at gc
    return obs


def report(tag, title, inp, build, required):
    a = observe('do', build)
    b = observe('ado', build)
    keys = [k for k in ('outcome', 'trace', 'tyme', 'done', 'dones') if a[k] != b[k]]
    print("=" * 78)
    print(f"{tag}: {title}")
    print(f"input: {inp}")
    if not keys:
        print("  do() and asyncio.run(ado()) observations are identical -> not reproduced")
        return False
    for k in keys:
        print(f"  {k}:")
        print(f"     do() : {a[k]}")
        print(f"     ado(): {b[k]}")
    if a['late'] or b['late']:
        print(f"  events that showed up only after a later gc.collect():")
        print(f"     do() : {a['late']}")
        print(f"     ado(): {b['late']}")
    print(f"  required by statement: {required}")
    print("  -> VIOLATION reproduced")
    return True


# V1 -------------------------------------------------------------------------
def buildV1(log):
    doist = Doist(tock=1.0, limit=10.0)
    a = TDoer('a', log)
    b = TDoer('b', log, fail='cease')  # forced exit of b raises
    c = TDoer('c', log)
    k = TDoer('k', log, ops={2: lambda self: doist.remove([a, b])})
    doers = [a, b, c, k]
    doist.doers = list(doers)
    return doist, doers


def buildV1d(log):  # same via DoDoer.remove
    doist = Doist(tock=1.0, limit=10.0)
    a = TDoer('a', log)
    b = TDoer('b', log, fail='cease')
    dd = DoDoer(doers=[])
    k = TDoer('k', log, ops={2: lambda self: dd.remove([a, b])})
    dd.doers = [a, b, k]
    doist.doers = [dd]
    return doist, [dd, a, b, k]


# V2 -------------------------------------------------------------------------
def buildV2(log):
    doist = Doist(tock=1.0, limit=10.0)
    a = TDoer('a', log, stop=5,
              ops={2: lambda self: signal.raise_signal(signal.SIGINT)})  # ctrl-c
    b = TDoer('b', log, stop=5)
    doers = [a, b]
    doist.doers = list(doers)
    return doist, doers


# V3 -------------------------------------------------------------------------
def buildV3(log):
    doist = Doist(tock=1.0, limit=10.0)

    def gen(tymth=None, tock=0.0, **kw):
        try:
            log.append(('g', 'enter', tymth()))
            yield 1.0
            log.append(('g', 'recur', tymth()))
            yield "soon"  # not a number so Doist.recur raises TypeError
            log.append(('g', 'recur', tymth()))
        finally:
            log.append(('g', 'exit', tymth()))
        return True

    g = doify(gen, name='g')
    a = TDoer('a', log, stop=5)
    doers = [a, g]
    doist.doers = list(doers)
    return doist, doers


def main(argv):
    want = set(argv) or {'V1', 'V2', 'V3'}
    req = ("'Running a scheduler inside an asyncio event loop produces the same "
           "observable run as running it with the blocking loop ... the same doer "
           "event traces, virtual tymes, completion cycle, done flags and forced exits.'")
    found = []
    if 'V1' in want:
        r1 = report("V1", "remove() of two doers where the forced exit of the first "
                    "closed one raises leaves the other removed doer unclosed",
                    "Doist(tock=1.0, limit=10.0) doers [a, b(cease raises ValueError), c, k]; "
                    "k calls doist.remove([a, b]) in its 2nd recur",
                    buildV1, req)
        r1d = report("V1 (DoDoer variant)", "same with DoDoer.remove",
                     "Doist -> DoDoer doers [a, b(cease raises), k]; k calls dodoer.remove([a, b])",
                     buildV1d, req)
        if r1 or r1d:
            found.append('V1')
    if 'V2' in want:
        if report("V2", "ctrl-c (SIGINT) while a doer runs: do() stops at once and "
                  "returns, asyncio.run(ado()) finishes the cycle, ticks tyme and raises",
                  "Doist(tock=1.0, limit=10.0) doers [a, b]; SIGINT arrives during 2nd recur of a "
                  "(signal.raise_signal(SIGINT))",
                  buildV2, req):
            found.append('V2')
    if 'V3' in want:
        if report("V3", "doer that yields a non numeric tock: Doist.recur raises "
                  "after it popped the deed so the still open dog is dropped unclosed",
                  "Doist(tock=1.0, limit=10.0) doers [a, g]; generator g yields 1.0 then 'soon'",
                  buildV3, req):
            found.append('V3')
    print("=" * 78)
    print("violations reproduced:", found or "none")
    return 1 if found else 0


if __name__ == "__main__":
    sys.exit(main(sys.argv[1:]))

#!/venv/bin/python
"""
C18 hunt demo: WSGI responses are framed and pipelined requests answered in order.

Run as:
  PYTHONPATH=/tmp/seed_C18hunt/src PYTHONDONTWRITEBYTECODE=1 /venv/bin/python demo.py

The script re-executes itself inside a private network namespace (unshare -n)
when that is possible, otherwise it falls back to ephemeral free ports.
Exit status 1 when at least one violation reproduces, 0 when none does.
"""
import os
import sys
import socket
import shutil
import subprocess
import time
import warnings

warnings.simplefilter("ignore")

ROOT = '/tmp/seed_C18hunt/src'
if ROOT not in sys.path:
    sys.path.insert(0, ROOT)

if os.environ.get("C18_DEMO_NETNS") != "1" and shutil.which("unshare"):
    probe = subprocess.run(["unshare", "-n", "true"], capture_output=True)
    if probe.returncode == 0:
        env = dict(os.environ, C18_DEMO_NETNS="1", PYTHONPATH=ROOT,
                   PYTHONDONTWRITEBYTECODE="1")
        cmd = ["unshare", "-n", "sh", "-c", 'ip link set lo up; exec "$@"', "sh",
               sys.executable, "-W", "ignore", os.path.abspath(__file__)]
        sys.exit(subprocess.call(cmd, env=env))

import hio
assert hio.__file__.startswith(ROOT), hio.__file__
from hio.base import tyming
from hio.core import http


def freePort():
    s = socket.socket()
    s.bind(('127.0.0.1', 0))
    port = s.getsockname()[1]
    s.close()
    return port


def run(app, segments, cycles=60, tymist=None, perseg=4):
    """
    Serve `app` with hio.core.http.Server, connect one raw tcp client, send the
    byte `segments` one after another with `perseg` server service cycles in
    between then keep servicing for `cycles` more cycles.
    Returns (bytes received, server closed connection, list of unsent segments)
    """
    server = http.Server(port=freePort(), app=app)
    assert server.reopen()
    if tymist is not None:
        server.wind(tymist.tymen())
    cli = socket.create_connection(('127.0.0.1', server.servant.ha[1]))
    cli.setblocking(False)
    rx = bytearray()
    state = dict(closed=False)
    unsent = []

    def pump(n):
        for i in range(n):
            server.service()
            if tymist is not None:
                tymist.tick()
            time.sleep(0.001)
            try:
                data = cli.recv(65536)
                if data == b'':
                    state['closed'] = True
                else:
                    rx.extend(data)
            except BlockingIOError:
                pass
            except ConnectionResetError:
                state['closed'] = True
    try:
        pump(3)
        for seg in segments:
            if state['closed']:
                unsent.append(seg)
                continue
            try:
                cli.sendall(seg)
            except OSError:
                unsent.append(seg)
            pump(perseg)
        pump(cycles)
    finally:
        cli.close()
        server.close()
    return bytes(rx), state['closed'], unsent


class Unframed(Exception):
    pass


def parseStream(data, methods, closed):
    """
    Independent RFC 7230 response stream parser.
    methods is list of request methods in request order.
    Returns list of (status line, headers list, body)
    Raises Unframed when the bytes can not be split into responses
    """
    out = []
    idx = 0
    while data:
        if not data.startswith(b'HTTP/1.'):
            raise Unframed("bytes where response #{0} should start are not a "
                           "status line: {1!r}".format(idx + 1, data[:40]))
        head, sep, rest = data.partition(b'\r\n\r\n')
        if not sep:
            raise Unframed("incomplete head")
        lines = head.split(b'\r\n')
        status = lines[0].split(b' ', 1)[1].decode()
        code = int(status.split()[0])
        headers = [tuple(p.strip() for p in l.decode().split(':', 1)) for l in lines[1:]]
        hd = {k.lower(): v for k, v in headers}
        method = methods[idx] if idx < len(methods) else 'GET'
        if method == 'HEAD' or code in (204, 304) or 100 <= code < 200:
            body = b''
        elif hd.get('transfer-encoding', '').lower() == 'chunked':
            body = b''
            while True:
                line, sep, rest = rest.partition(b'\r\n')
                if not sep:
                    raise Unframed("truncated chunk header")
                size = int(line.split(b';')[0], 16)
                if size == 0:
                    if not rest.startswith(b'\r\n'):
                        raise Unframed("trailers or truncated last chunk")
                    rest = rest[2:]
                    break
                if len(rest) < size + 2:
                    raise Unframed("truncated chunk")
                body += rest[:size]
                rest = rest[size + 2:]
        elif 'content-length' in hd:
            size = int(hd['content-length'])
            if len(rest) < size:
                raise Unframed("body shorter than content-length")
            body, rest = rest[:size], rest[size:]
        else:  # delimited by close only
            if not closed:
                raise Unframed("response #{0} ({1}) has neither Content-Length "
                               "nor chunked coding yet the server kept the "
                               "connection open".format(idx + 1, status))
            body, rest = rest, b''
        out.append((status, headers, bytes(body)))
        data = rest
        idx += 1
    return out


def check(name, app, segments, methods, expected, expectClosed, required, **kwa):
    """
    expected is list of (status, body) in request order
    Returns True when violation observed
    """
    rx, closed, unsent = run(app, segments, **kwa)
    problems = []
    try:
        got = [(s, b) for s, h, b in parseStream(rx, methods, closed)]
    except Unframed as ex:
        got = None
        problems.append("response stream is not self delimiting: {0}".format(ex))
    if got is not None and got != expected:
        problems.append("parsed responses {0!r} != application output {1!r}"
                        "".format(got, expected))
    if closed != expectClosed:
        problems.append("server closed connection = {0} but expected {1}"
                        "".format(closed, expectClosed))
    if unsent:
        problems.append("connection already closed by server before client could "
                        "send request bytes {0!r}".format(unsent))
    print("=" * 78)
    print("{0}: {1}".format(name, "VIOLATION" if problems else "ok"))
    if problems:
        print("  input segments  :")
        for seg in segments:
            print("      {0!r}".format(seg))
        print("  raw bytes rx    : {0!r}".format(rx))
        for p in problems:
            print("  observed        : {0}".format(p))
        print("  statement says  : {0}".format(required))
    return bool(problems)


# ---------------------------------------------------------------- scenario A
def appEcho(environ, start_response):
    body = environ['wsgi.input'].read()
    out = environ['PATH_INFO'].encode() + b':' + body
    start_response('200 OK', [('Content-Type', 'text/plain'),
                              ('Content-Length', str(len(out)))])
    return [out]


def scenarioA():
    """
    persistent request, then a non persistent request whose body arrives in a
    later tcp segment than its head
    """
    return check("A fragmented 'Connection: close' request after a keep-alive request",
                 appEcho,
                 [b"GET /one HTTP/1.1\r\nHost: x\r\n\r\n",
                  b"POST /two HTTP/1.1\r\nHost: x\r\nConnection: close\r\n"
                  b"Content-Length: 5\r\n\r\n",
                  b"hello"],
                 ['GET', 'POST'],
                 [('200 OK', b'/one:'), ('200 OK', b'/two:hello')],
                 True,
                 "Responses come back in request order and each parses to exactly "
                 "the application's status, headers and body ... closes the "
                 "connection after a response exactly when the request was not "
                 "persistent (request 1 was persistent, request 2 never answered)")


def scenarioA10():
    """ same with HTTP/1.0 second request (not persistent by default) """
    return check("A' fragmented HTTP/1.0 request after a keep-alive request",
                 appEcho,
                 [b"GET /one HTTP/1.1\r\nHost: x\r\n\r\n",
                  b"POST /two HTTP/1.0\r\nContent-Length: 5\r\n\r\n",
                  b"hello"],
                 ['GET', 'POST'],
                 [('200 OK', b'/one:'), ('200 OK', b'/two:hello')],
                 True,
                 "Responses come back in request order ... closes the connection "
                 "after a response exactly when the request was not persistent")


# ---------------------------------------------------------------- scenario B
def appWrite(environ, start_response):
    write = start_response('200 OK', [('Content-Type', 'text/plain')])
    write(b'')  # empty body piece through the WSGI write callable
    write(b'hello')
    return [b'world']


def scenarioB():
    return check("B empty piece through the start_response write() callable, HTTP/1.1",
                 appWrite,
                 [b"GET /a HTTP/1.1\r\nHost: x\r\n\r\n"],
                 ['GET'],
                 [('200 OK', b'helloworld')],
                 False,
                 "any WSGI application output (... body pieces including empty "
                 "ones ...) every response is self-delimiting ... each parses to "
                 "exactly the application's status, headers and body")


# ---------------------------------------------------------------- scenario H
def appRestart(environ, start_response):
    start_response('200 OK', [('Content-Type', 'text/plain'),
                              ('Content-Length', '5')])
    try:
        raise ValueError("boom")
    except ValueError:
        start_response('500 Internal Server Error',
                       [('Content-Type', 'text/plain')], sys.exc_info())
        return [b'error occurred']


def scenarioH():
    return check("H start_response called again with exc_info, new headers have "
                 "no Content-Length",
                 appRestart,
                 [b"GET /a HTTP/1.1\r\nHost: x\r\n\r\n"
                  b"GET /b HTTP/1.1\r\nHost: x\r\n\r\n"],
                 ['GET', 'GET'],
                 [('500 Internal Server Error', b'error occurred')] * 2,
                 False,
                 "every response is self-delimiting while the connection stays open")


# ---------------------------------------------------------------- scenario C
def appBodiless(environ, start_response):
    if environ['REQUEST_METHOD'] == 'HEAD':
        start_response('200 OK', [('Content-Type', 'text/plain')])
        return []
    if environ['PATH_INFO'] == '/204':
        start_response('204 No Content', [])
        return []
    start_response('200 OK', [('Content-Type', 'text/plain'),
                              ('Content-Length', '2')])
    return [b'ok']


def scenarioC():
    required = ("every response is self-delimiting while the connection stays "
                "open. Responses come back in request order and each parses to "
                "exactly the application's status, headers and body (a HEAD / 204 "
                "/ 304 response has no body so the '0\\r\\n\\r\\n' sent after its "
                "head is stray bytes in front of the next response; hio's own "
                "client Respondent.parseHead forces length 0 for these too)")
    one = check("C HEAD then GET pipelined, HTTP/1.1, app gives no Content-Length",
                appBodiless,
                [b"HEAD /x HTTP/1.1\r\nHost: x\r\n\r\nGET /y HTTP/1.1\r\nHost: x\r\n\r\n"],
                ['HEAD', 'GET'],
                [('200 OK', b''), ('200 OK', b'ok')],
                False, required)
    two = check("C' 204 then GET pipelined, HTTP/1.1",
                appBodiless,
                [b"GET /204 HTTP/1.1\r\nHost: x\r\n\r\nGET /y HTTP/1.1\r\nHost: x\r\n\r\n"],
                ['GET', 'GET'],
                [('204 No Content', b''), ('200 OK', b'ok')],
                False, required)
    return one or two


# ---------------------------------------------------------------- scenario D
def appSlow(environ, start_response):
    start_response('200 OK', [('Content-Type', 'text/plain')])
    yield b'part1-'
    for i in range(200):  # 200 empty pieces = 6.25 s of tymist tyme at tock 1/32
        yield b''
    yield b'part2'


def scenarioD():
    return check("D wound server (as ServerDoer does), non persistent request, app "
                 "yields 200 empty pieces between two body pieces",
                 appSlow,
                 [b"GET /a HTTP/1.1\r\nHost: x\r\nConnection: close\r\n\r\n"],
                 ['GET'],
                 [('200 OK', b'part1-part2')],
                 True,
                 "each parses to exactly the application's status, headers and body "
                 "(the idle tymeout drops the connection in mid response and the "
                 "responder terminates the chunked body so the truncation looks "
                 "like a complete response; a persistent request is immune)",
                 tymist=tyming.Tymist(tock=0.03125), cycles=300)


# ---------------------------------------------------------------- controls
def appMixed(environ, start_response):
    body = environ['wsgi.input'].read()
    out = environ['PATH_INFO'].encode() + b':' + body
    if environ['PATH_INFO'].startswith('/cl'):
        start_response('200 OK', [('Content-Length', str(len(out)))])
        return [out[:2], b'', out[2:]]
    start_response('200 OK', [])
    return iter([b'', out[:1], b'', out[1:], b''])


def controls():
    reqs = (b"GET /cl1 HTTP/1.1\r\nHost: x\r\n\r\n"
            b"POST /ch2 HTTP/1.1\r\nHost: x\r\nTransfer-Encoding: chunked\r\n\r\n"
            b"3\r\nabc\r\n0\r\n\r\n"
            b"GET /cl3 HTTP/1.0\r\nConnection: keep-alive\r\n\r\n"
            b"POST /cl4 HTTP/1.1\r\nHost: x\r\nContent-Length: 2\r\n\r\nzz"
            b"GET /ch5 HTTP/1.1\r\nHost: x\r\nConnection: close\r\n\r\n")
    methods = ['GET', 'POST', 'GET', 'POST', 'GET']
    expected = [('200 OK', b'/cl1:'), ('200 OK', b'/ch2:abc'), ('200 OK', b'/cl3:'),
                ('200 OK', b'/cl4:zz'), ('200 OK', b'/ch5:')]
    bad = check("control: 5 mixed pipelined requests in one segment",
                appMixed, [reqs], methods, expected, True, "-")
    bad |= check("control: same, one byte per segment",
                 appMixed, [reqs[i:i + 1] for i in range(len(reqs))], methods,
                 expected, True, "-", perseg=1)
    return bad


if __name__ == "__main__":
    results = dict()
    results['control'] = controls()
    results['A'] = scenarioA()
    results['A10'] = scenarioA10()
    results['B'] = scenarioB()
    results['H'] = scenarioH()
    results['C'] = scenarioC()
    results['D'] = scenarioD()
    print("=" * 78)
    print("summary (True means violation reproduced):", results)
    sys.exit(1 if any(results.values()) else 0)

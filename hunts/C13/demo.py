#!/venv/bin/python
"""
C13 hunt demo: HTTP message parsing must not depend on how bytes are fragmented.

Reproduces two violations on the UNCHANGED worktree /tmp/seed_C13hunt:

  V1  A start line / header line / chunk-size line that is exactly
      MAX_LINE_SIZE (65536) bytes long and is terminated by CRLF parses fine
      when fed at once, but raises LineTooLong (errored message) when a read
      boundary falls between the CR and the LF (so also with 1-byte reads).

  V2  http.Server (WSGI): on a keep-alive connection a later request that is
      not persistent (Connection: close, or HTTP/1.0) and has a body is served
      when its bytes arrive in one read, but is dropped (connection closed,
      app never called, body never parsed) when a read boundary falls between
      its head and the end of its body.

Exit status 1 if any violation reproduces, 0 if none.

Run:  /venv/bin/python /tmp/seed_C13hunt/seed_out/demo.py
(it puts /tmp/seed_C13hunt/src first on sys.path itself and, for the socket
part, re-executes itself inside a private network namespace when possible)
"""
import os
import sys
import shutil
import socket
import subprocess
import time
import warnings

warnings.filterwarnings("ignore")
sys.dont_write_bytecode = True
ROOT = "/tmp/seed_C13hunt"
sys.path.insert(0, ROOT + "/src")

FLAG = "C13_DEMO_IN_NETNS"


def reexecInNetns():
    """Returns exit code of child run in private net namespace or None"""
    if os.environ.get(FLAG) or not shutil.which("unshare"):
        return None
    try:
        probe = subprocess.run(["unshare", "-n", "true"], capture_output=True)
    except OSError:
        return None
    if probe.returncode != 0:
        return None
    env = dict(os.environ)
    env[FLAG] = "1"
    env["PYTHONDONTWRITEBYTECODE"] = "1"
    env["PYTHONPATH"] = ROOT + "/src"
    proc = subprocess.run(["unshare", "-n", "sh", "-c",
                           'ip link set lo up; exec "$@"', "sh",
                           sys.executable, "-W", "ignore", os.path.abspath(__file__)],
                          env=env)
    return proc.returncode


if __name__ == "__main__":
    rc = reexecInNetns()
    if rc is not None:
        sys.exit(rc)

import hio
assert hio.__file__.startswith(ROOT + "/src"), hio.__file__

from hio.base import tyming
from hio.core import http
from hio.core.http import httping, clienting, serving


# --------------------------------------------------------------------------
# helpers for parser level comparison
# --------------------------------------------------------------------------
class FakeRemoter:
    """Requestant only touches .tymeout of its remoter"""
    tymeout = 5.0
    ca = ("127.0.0.1", 1)


def snapshot(p, kind):
    d = dict(version=p.version,
             headers=[(k, v if len(v) < 40 else v[:8] + "...(%d)" % len(v))
                      for k, v in p.headers.items()] if p.headers is not None else None,
             body=bytes(p.body),
             parms=p.parms,
             trails=list(p.trails.items()) if p.trails is not None else None,
             persisted=p.persisted,
             ended=p.ended,
             errored=p.errored,
             error=p.error)
    if kind == "response":
        d.update(status=p.status, reason=p.reason)
    else:
        d.update(method=p.method, url=p.url if len(p.url) < 40 else p.url[:8] + "...(%d)" % len(p.url))
    return d


def feed(kind, stream, cuts):
    """
    Feed stream to a fresh incremental parser split at offsets in cuts, calling
    .parse() after every read the way Server/Client do. Returns list of
    snapshots of the completed messages.
    """
    msg = bytearray()
    if kind == "response":
        p = clienting.Respondent(msg=msg, method="GET")
    else:
        p = serving.Requestant(msg=msg, remoter=FakeRemoter())
    done = []
    pos = 0
    for cut in list(cuts) + [len(stream)]:
        msg.extend(stream[pos:cut])
        pos = cut
        while p.parser is not None:
            before = len(msg)
            p.parse()
            if p.parser is None:  # message ended
                done.append(snapshot(p, kind))
                if p.errored:
                    break  # real callers close the connection
                p.makeParser()
                if not msg:
                    break
            elif len(msg) == before:
                break  # needs more bytes
        if done and done[-1]["errored"]:
            break
    return done


def brief(done):
    return [dict(errored=d["errored"], error=d["error"], body=d["body"],
                 persisted=d["persisted"]) for d in done]


# --------------------------------------------------------------------------
# V1 exactly-at-limit line with CRLF split by read boundary
# --------------------------------------------------------------------------
def demoLimit():
    M = httping.MAX_LINE_SIZE
    found = 0
    cases = []

    name = b"X-Big: "
    line = name + b"a" * (M - len(name))
    assert len(line) == M
    first = b"HTTP/1.1 200 OK\r\n"
    cases.append(("response, header line of exactly %d bytes" % M, "response",
                  first + line + b"\r\nContent-Length: 2\r\n\r\nhi",
                  len(first) + M + 1))

    first = b"POST /x HTTP/1.1\r\n"
    cases.append(("request, header line of exactly %d bytes" % M, "request",
                  first + line + b"\r\nContent-Length: 2\r\n\r\nhi",
                  len(first) + M + 1))

    rl = b"GET /" + b"a" * (M - len(b"GET / HTTP/1.1")) + b" HTTP/1.1"
    assert len(rl) == M
    cases.append(("request, request line of exactly %d bytes" % M, "request",
                  rl + b"\r\nContent-Length: 2\r\n\r\nhi", M + 1))

    head = b"HTTP/1.1 200 OK\r\nTransfer-Encoding: chunked\r\n\r\n"
    cl = b"2;e=" + b"a" * (M - 4)
    assert len(cl) == M
    cases.append(("response, chunk-size line (with extension) of exactly %d bytes" % M,
                  "response", head + cl + b"\r\nhi\r\n0\r\n\r\n", len(head) + M + 1))

    for title, kind, stream, cut in cases:
        one = feed(kind, stream, [])
        # read boundary between the CR and the LF that end the long line
        two = feed(kind, stream, [cut])
        # 1-byte reads around that terminator (whole stream in 1-byte reads is
        # the same thing but quadratic to run)
        few = feed(kind, stream, [cut - 2, cut - 1, cut, cut + 1, cut + 2])
        bad = (one != two) or (one != few)
        print("V1 case: %s" % title)
        print("   input: %d byte stream, long line ends with CRLF at offsets %d,%d"
              % (len(stream), cut - 1, cut))
        print("   all bytes at once           ->", brief(one))
        print("   split between CR and LF     ->", brief(two))
        print("   1-byte reads around the CRLF ->", brief(few))
        if bad:
            found += 1
            print("   VIOLATION: statement requires same start line/headers/body/error"
                  " state for any split; fragmented feed is errored, one-shot is not")
        else:
            print("   same result (no violation)")
    return found


# --------------------------------------------------------------------------
# V2 WSGI Server drops non persistent request whose body comes in a later read
# --------------------------------------------------------------------------
CALLS = []


def app(environ, start_response):
    body = environ["wsgi.input"].read()
    CALLS.append((environ["REQUEST_METHOD"], environ["PATH_INFO"], body))
    out = b"got " + environ["PATH_INFO"].encode() + b" " + body
    start_response("200 OK", [("Content-Type", "text/plain"),
                              ("Content-Length", str(len(out)))])
    return [out]


def freePort():
    s = socket.socket()
    s.bind(("127.0.0.1", 0))
    port = s.getsockname()[1]
    s.close()
    return port


def serve(stream, cuts, port):
    """
    Send stream to http.Server over a real tcp connection split at cuts, with
    server service cycles between the reads. Returns (bytes received back,
    list of wsgi app calls, peer closed?)
    """
    del CALLS[:]
    tymist = tyming.Tymist(tyme=0.0)
    with http.openServer(cls=http.Server, port=port, bufsize=131072, app=app,
                         tymth=tymist.tymen()) as server:
        cs = socket.create_connection(("127.0.0.1", port))
        cs.setsockopt(socket.IPPROTO_TCP, socket.TCP_NODELAY, 1)
        cs.setblocking(False)
        rx = bytearray()
        closed = False

        def cycle(n):
            nonlocal closed
            for i in range(n):
                server.service()
                time.sleep(0.002)
                try:
                    data = cs.recv(65536)
                    if data:
                        rx.extend(data)
                    else:
                        closed = True
                except BlockingIOError:
                    pass
                except OSError:
                    closed = True

        cycle(5)
        pos = 0
        for cut in list(cuts) + [len(stream)]:
            try:
                cs.sendall(stream[pos:cut])
            except OSError as ex:
                print("      (send of bytes %d:%d failed: %s)" % (pos, cut, ex))
                closed = True
                break
            pos = cut
            cycle(6)
        cycle(40)
        cs.close()
        return bytes(rx), list(CALLS), closed


def demoServer():
    r1 = b"GET /one HTTP/1.1\r\nHost: x\r\n\r\n"
    h2 = b"POST /two HTTP/1.1\r\nHost: x\r\nConnection: close\r\nContent-Length: 5\r\n\r\n"
    b2 = b"hello"
    stream = r1 + h2 + b2
    port = 6101 if os.environ.get(FLAG) else freePort()

    print("V2 input: two requests on one connection:\n   %r\n   %r" % (r1, h2 + b2))
    one = serve(stream, [], port)
    cutHead = len(r1) + len(h2)  # read boundary between head and body of request two
    two = serve(stream, [cutHead], port)
    # realistic non pipelined: request two sent after response one, head and body separate writes
    three = serve(stream, [len(r1), cutHead], port)
    last = serve(stream, [len(stream) - 1], port)  # last body byte in its own read
    # control: same split but request two persistent
    h2k = h2.replace(b"Connection: close\r\n", b"")
    ctl = serve(r1 + h2k + b2, [len(r1) + len(h2k)], port)

    def show(tag, res):
        print("   %-42s -> %d responses, app calls %r, server closed conn %s"
              % (tag, res[0].count(b"HTTP/1.1 200 OK"), res[1], res[2]))

    show("all bytes at once", one)
    show("split [head of req two | body]", two)
    show("split [req one | head of req two | body]", three)
    show("split before last body byte", last)
    show("control: req two keep-alive, split head|body", ctl)

    want = [("GET", "/one", b""), ("POST", "/two", b"hello")]
    found = 0
    if one[1] == want and (two[1] != want or three[1] != want or last[1] != want):
        found = 1
        print("   VIOLATION: statement requires the same result (body, persistence decision,"
              " error state) for any split; with the read boundary between head and body the"
              " second request is never parsed to its end nor answered: the connection is"
              " closed as soon as its head says Connection: close")
    else:
        print("   same result (no violation)")
    return found


def main():
    print("hio from", os.path.dirname(hio.__file__))
    found = 0
    found += demoLimit()
    print()
    try:
        found += demoServer()
    except OSError as ex:
        print("V2 skipped, could not open sockets: %s" % ex)
    print()
    print("violations reproduced: %d" % found)
    return 1 if found else 0


if __name__ == "__main__":
    sys.exit(main())

#!/venv/bin/python
"""
C08 adversarial demo.  Run as:
  PYTHONPATH=/tmp/seed_C08hunt/src PYTHONDONTWRITEBYTECODE=1 /venv/bin/python seed_out/demo.py

Violation: a MonoTimer constructed with an explicit start offset in the future
(start = now + k, "allowing start before or after current time") treats the
start argument as if it were a clock reading (._last = ._start).  The very first
property read therefore "detects" a retrograde of k seconds although the system
clock never moved backwards, and shifts ._start/._stop back by k:
  * the start offset is thrown away: elapsed reads 0 instead of -k, remaining is
    short by k, the timer expires k seconds early
  * restart() no longer begins the next period at the previous stop
  * with retro=False the first read raises RetroTimerError on a steady clock
Exit 1 if it reproduces, 0 otherwise.
"""
import sys
import time
import warnings
warnings.simplefilter("ignore")

import hio
assert hio.__file__.startswith('/tmp/seed_C08hunt/src'), hio.__file__
from hio.help import timing
from hio.help.timing import Timer, MonoTimer, RetroTimerError
from hio.base import tyming

failures = []

def check(label, ok, observed, required):
    print("  [{}] {}\n        observed: {}\n        required: {}".format(
        "ok  " if ok else "FAIL", label, observed, required))
    if not ok:
        failures.append(label)


class FakeClock:
    """Stand in for the time module inside hio.help.timing: a clock we drive"""
    def __init__(self, t):
        self.t = float(t)
    def time(self):
        return self.t

realtime = timing.time
EPS = 1e-6

# ---------------------------------------------------------------- scenario 1
print("Scenario 1: MonoTimer(duration=5, start=now+10) on a STEADY clock "
      "(deterministic driven clock, never moves backwards)")
clk = FakeClock(1_700_000_000.0)
timing.time = clk
try:
    now = clk.t
    mono = MonoTimer(duration=5.0, start=now + 10.0)
    ref = Timer(duration=5.0, start=now + 10.0)   # same module, plain Timer
    e, r, x = mono.elapsed, mono.remaining, mono.expired
    check("elapsed right after construction", abs(e - (-10.0)) < EPS, e,
          "now - start = -10.0 (plain Timer reports {})".format(ref.elapsed))
    check("remaining right after construction", abs(r - 15.0) < EPS, r,
          "stop - now = 15.0 (plain Timer reports {})".format(ref.remaining))
    clk.t = now + 5.0   # clock only ever moves forward
    x = mono.expired
    check("expired at now+5 (stop is now+15)", x is False, x,
          "False: not expired until now >= stop = start + duration = now+15 "
          "(plain Timer reports {})".format(ref.expired))

    print("Scenario 2: same timer, restart() before any reading, steady clock")
    clk.t = now
    mono = MonoTimer(duration=5.0, start=now + 10.0)
    prevstop = now + 10.0 + 5.0
    begin = mono.restart()          # returns new start == previous stop
    clk.t = now + 1.0
    e = mono.elapsed                # first reading
    check("restart begins next period at previous stop",
          abs(e - (clk.t - prevstop)) < EPS and abs(mono._start - prevstop) < EPS,
          "restart() returned now+{}, but then elapsed={} and ._start=now+{}".format(
              begin - now, e, mono._start - now),
          "next period starts at previous stop now+15 so elapsed at now+1 is -14.0")

    print("Scenario 3: retro=False, steady clock")
    clk.t = now
    mono = MonoTimer(duration=5.0, start=now + 10.0, retro=False)
    try:
        e = mono.elapsed
        check("retro=False read on steady clock", abs(e + 10.0) < EPS, e, "-10.0")
    except RetroTimerError as ex:
        check("retro=False read on steady clock", False,
              "raised RetroTimerError({!r})".format(str(ex)),
              "no retrograde ever happened so elapsed = -10.0")

    print("Control: start in the past and default start behave (no violation expected)")
    clk.t = now
    mono = MonoTimer(duration=5.0, start=now - 2.0)
    check("past start elapsed", abs(mono.elapsed - 2.0) < EPS, mono.elapsed, 2.0)
    mono = MonoTimer(duration=5.0)
    clk.t = now + 1.0
    check("default start elapsed", abs(mono.elapsed - 1.0) < EPS, mono.elapsed, 1.0)
    clk.t = now - 50.0   # real retrograde
    e1 = mono.elapsed
    clk.t = now - 49.0
    e2 = mono.elapsed
    check("monotone across real retrograde", e1 >= 1.0 - EPS and e2 >= e1, (e1, e2), "nondecreasing")
finally:
    timing.time = realtime

# ---------------------------------------------------------------- scenario 4
print("Scenario 4: same thing with the REAL system clock, no mocking")
mono = MonoTimer(duration=0.1, start=time.time() + 0.4)
ref = Timer(duration=0.1, start=mono._start)
e = mono.elapsed
check("real clock: elapsed right after construction", e < -0.3, e,
      "about -0.4 (plain Timer reports {:.4f})".format(ref.elapsed))
time.sleep(0.2)
x = mono.expired
check("real clock: expired 0.2s after construction (stop is at +0.5s)", x is False, x,
      "False (plain Timer reports {})".format(ref.expired))

# ---------------------------------------------------------------- sanity Tymer
print("Control: virtual Tymer (no violation expected)")
tymist = tyming.Tymist(tyme=3.0)
tymer = tyming.Tymer(tymth=tymist.tymen(), duration=1.0, start=3.25)
tymist.tyme = 4.25
check("Tymer elapsed/remaining/expired at stop",
      (tymer.elapsed, tymer.remaining, tymer.expired) == (1.0, 0.0, True),
      (tymer.elapsed, tymer.remaining, tymer.expired), (1.0, 0.0, True))
tymer.restart()
check("Tymer restart at previous stop", (tymer._start, tymer._stop) == (4.25, 5.25),
      (tymer._start, tymer._stop), (4.25, 5.25))

print()
if failures:
    print("VIOLATION REPRODUCED ({} failing checks):".format(len(failures)))
    for f in failures:
        print("   -", f)
    sys.exit(1)
print("no violation reproduced")
sys.exit(0)

#!/venv/bin/python
"""
C04 demo: nesting doers inside a tock-0 DoDoer is NOT transparent when every
grouped doer completes in its enter context.

Run with:
  PYTHONPATH=/tmp/seed_C04hunt/src PYTHONDONTWRITEBYTECODE=1 /venv/bin/python demo.py

exit 1 if the violation reproduces, 0 otherwise.

Section [V1] is the reported violation (counts for the exit code).
Sections [I*] are informational only (strongest other attempts; they never
change the exit code).
"""
import sys
import random
import warnings
warnings.simplefilter("ignore")

import hio
assert hio.__file__.startswith('/tmp/seed_C04hunt/src'), hio.__file__
from hio.base import doing

LOG = []


# ---------------------------------------------------------------- leaf doers
def enterDoneGen(name):
    """generator function doer that completes (returns True) in its enter
    context, i.e. before its first yield"""
    def f(tymth=None, tock=0.0, **opts):
        LOG.append(("enter", name))
        LOG.append(("exit", name))
        return True
        yield  # pragma: no cover  (makes f a generator function)
    return doing.doify(f, name=name)


class EnterDoneDoer(doing.Doer):
    """Doer subclass whose enter finds nothing to do and sets .done = True so
    Doer.do never reaches its first yield (completion point == enter)"""
    def __init__(self, name, **kwa):
        super().__init__(**kwa)
        self.name = name

    def enter(self, *, temp=None):
        LOG.append(("enter", self.name))
        self.done = True  # nothing to do

    def recur(self, tyme):
        LOG.append(("recur", self.name, tyme))
        return True

    def exit(self):
        LOG.append(("exit", self.name))


class Leaf(doing.Doer):
    """scripted leaf: one script entry per recur (new tock or None), then done"""
    def __init__(self, name, script, **kwa):
        super().__init__(**kwa)
        self.name = name
        self.script = list(script)
        self.i = 0

    def enter(self, *, temp=None):
        LOG.append(("enter", self.name))
        self.i = 0

    def recur(self, tyme):
        LOG.append(("recur", self.name, tyme))
        if self.i >= len(self.script):
            return True
        t = self.script[self.i]
        self.i += 1
        if t is not None:
            self.tock = t
        return False

    def clean(self): LOG.append(("clean", self.name))
    def cease(self): LOG.append(("cease", self.name))
    def abort(self, ex): LOG.append(("abort", self.name))
    def exit(self): LOG.append(("exit", self.name))


# ------------------------------------------------------------ V1 (violation)
def stepToCompletion(doers, tock=1.0, tyme=0.0, maxcycles=10):
    """Run to completion with the public stepping api the hio test-suite
    itself uses: enter(), recur() while there are deeds, exit()."""
    LOG.clear()
    doist = doing.Doist(tock=tock, tyme=tyme, doers=doers)
    doist.enter()
    cycles = 0
    while doist.deeds and cycles < maxcycles:
        doist.recur()
        cycles += 1
    doist.exit()
    return dict(cycles=cycles, tyme=doist.tyme, log=list(LOG))


def v1():
    print("[V1] every grouped doer completes in enter; run stepped to completion "
          "with Doist.enter()/recur()/exit()")
    failed = False
    cases = {
        "two doified generator functions that return True before first yield":
            lambda: [enterDoneGen("a"), enterDoneGen("b")],
        "two Doer subclasses whose enter() sets .done = True":
            lambda: [EnterDoneDoer("a"), EnterDoneDoer("b")],
    }
    for what, mk in cases.items():
        leaves = mk()
        flat = stepToCompletion(leaves)
        fdone = [d.done for d in leaves]
        leaves = mk()
        grp = stepToCompletion([doing.DoDoer(tock=0.0, doers=leaves)])
        gdone = [d.done for d in leaves]
        print("  input:", what)
        print("    flat    Doist[a, b]            : completes after %d recur cycles,"
              " doist.tyme=%s, done flags %s" % (flat["cycles"], flat["tyme"], fdone))
        print("    grouped Doist[DoDoer(0)[a, b]] : completes after %d recur cycles,"
              " doist.tyme=%s, done flags %s" % (grp["cycles"], grp["tyme"], gdone))
        same = (flat["cycles"] == grp["cycles"] and flat["tyme"] == grp["tyme"])
        if not same:
            failed = True
            print("    VIOLATION: statement requires 'the same completion cycle';"
                  " flat run is complete at enter (no cycle, tyme unchanged), grouped"
                  " run is only complete after cycle 0 (tyme advanced one tock)")
        else:
            print("    same")
    return failed


# ------------------------------------------------- informational other tries
def runDo(doers, tock=1.0, limit=20.0):
    LOG.clear()
    doist = doing.Doist(tock=tock, limit=limit)
    try:
        doist.do(doers=doers)
    except ValueError:
        pass
    return list(LOG), doist.tyme, doist.done


def i1():
    print("[I1] informational: random forests / regroupings under Doist.do, leaves never"
          " go from a 0/None yield to a positive one (known violation excluded)")
    bad = 0
    N = 300
    for seed in range(N):
        rnd = random.Random(seed)
        specs = []
        for i in range(rnd.randint(1, 5)):
            n = rnd.randint(0, 5)
            if rnd.random() < 0.5:
                specs.append(("d%d" % i, [None] * n, 0.0))
            else:
                specs.append(("d%d" % i,
                              [rnd.choice([0.5, 1.0, 2.0, 3.0]) for _ in range(n)],
                              rnd.choice([0.5, 1.0, 2.0])))
        i = rnd.randint(0, len(specs))
        j = rnd.randint(i, len(specs))
        limit = rnd.choice([3.0, 40.0])
        mk = lambda: [Leaf(n, s, tock=t) for n, s, t in specs]
        flat = runDo(mk(), limit=limit)
        ls = mk()
        inner = ls[i:j]
        if len(inner) > 1 and rnd.random() < 0.5:  # nest a second level
            inner = [doing.DoDoer(tock=0.0, doers=inner[:1])] + inner[1:]
        grouped = runDo(ls[:i] + [doing.DoDoer(tock=0.0, doers=inner)] + ls[j:],
                        limit=limit)
        if flat != grouped:
            bad += 1
    print("    %d of %d regroupings differ" % (bad, N))


def i2():
    print("[I2] informational (outside the quantified domain: run ends by an exception,"
          " not completion/limit): grouped doer raises in recur")

    class Boom(Leaf):
        def recur(self, tyme):
            if tyme >= 2.0:
                raise ValueError("boom")
            return False

    def mk():
        return [Leaf("A", [None] * 9), Leaf("B", [None] * 9), Boom("X", []),
                Leaf("C", [None] * 9), Leaf("D", [None] * 9)]
    A, B, X, C, D = mk()
    flat = [e[1] for e in runDo([A, B, X, C, D])[0] if e[0] == "exit"]
    A, B, X, C, D = mk()
    grp = [e[1] for e in runDo([A, doing.DoDoer(tock=0.0, doers=[B, X, C]), D])[0]
           if e[0] == "exit"]
    print("    exit order flat   ", flat)
    print("    exit order grouped", grp)


def i3():
    print("[I3] informational (same root cause line as the KNOWN violation,"
          " DoDoer.recur retyme = tyme + self.tock, here hit in a positive tock parent):")
    B = Leaf("B", [None] * 4, tock=1.5)
    flat = [e[2] for e in runDo([doing.DoDoer(tock=1.5, doers=[B])])[0] if e[0] == "recur"]
    B = Leaf("B", [None] * 4, tock=1.5)
    grp = [e[2] for e in runDo([doing.DoDoer(tock=1.5, doers=[
        doing.DoDoer(tock=0.0, doers=[B])])])[0] if e[0] == "recur"]
    print("    B recur tymes in  P(1.5)[B]           :", flat)
    print("    B recur tymes in  P(1.5)[DoDoer(0)[B]]:", grp)


def i4():
    print("[I4] informational (same root cause as V1, visible under Doist.do when the doers"
          " are added at run time with the public Doist.extend):")

    class Ext(doing.Doer):
        def __init__(self, doist, late, **kwa):
            super().__init__(**kwa)
            self.doist = doist
            self.late = late

        def recur(self, tyme):
            self.doist.extend(self.late)
            return True

    for grouped in (False, True):
        late = [enterDoneGen("late")]
        doist = doing.Doist(tock=1.0)
        ext = Ext(doist, [doing.DoDoer(tock=0.0, doers=late)] if grouped else late)
        doist.do(doers=[ext], limit=10)
        print("    extend(%s): doist.do completes at tyme %s" %
              ("[DoDoer(0)[late]]" if grouped else "[late]", doist.tyme))


if __name__ == "__main__":
    failed = v1()
    i1()
    i2()
    i3()
    i4()
    print("RESULT:", "violation reproduced" if failed else "no violation reproduced")
    sys.exit(1 if failed else 0)

#!/venv/bin/python
"""
C06 adversarial demo.  Run with:
  PYTHONPATH=/tmp/seed_C06hunt/src PYTHONDONTWRITEBYTECODE=1 /venv/bin/python seed_out/demo.py
Exit 1 when any violation reproduces, 0 otherwise.
"""
import sys, warnings
warnings.filterwarnings('ignore')
import hio
assert hio.__file__.startswith('/tmp/seed_C06hunt/src'), hio.__file__
from hio.base import doing

LOG = []


class L(doing.Doer):
    """Logging doer. acts maps 'enter'/'exit'/<recur count> -> callable(self)."""
    def __init__(self, name, acts=None, **kw):
        super().__init__(**kw)
        self.name, self.acts, self.n = name, acts or {}, 0

    def __repr__(self):
        return self.name

    def enter(self, *, temp=None):
        LOG.append((self.name, 'enter', self.tyme))
        if 'enter' in self.acts:
            self.acts['enter'](self)

    def recur(self, tyme):
        self.n += 1
        LOG.append((self.name, 'recur', tyme))
        if self.n in self.acts:
            self.acts[self.n](self)
        return False

    def cease(self):
        LOG.append((self.name, 'cease', self.tyme))

    def exit(self):
        LOG.append((self.name, 'exit', self.tyme))
        if 'exit' in self.acts:
            self.acts['exit'](self)


class LD(doing.DoDoer):
    def __init__(self, name, **kw):
        super().__init__(**kw)
        self.name = name

    def __repr__(self):
        return self.name


def count(name, ev, tyme=None):
    return sum(1 for n, e, t in LOG if n == name and e == ev and (tyme is None or t == tyme))


failures = []


def report(tag, failed, inp, observed, required):
    print("=" * 78)
    print("%s: %s" % (tag, "VIOLATION REPRODUCED" if failed else "ok (not reproduced)"))
    print("  input   :", inp)
    print("  observed:", observed)
    print("  required:", required)
    if failed:
        failures.append(tag)


# --------------------------------------------------------------------------
# V1a  Doist: extend() called from a doer's enter context while Doist.enter is
#      still walking .doers -> the walk reaches the freshly appended doer and
#      enters it a second time (two generators, two recurs per cycle).
# --------------------------------------------------------------------------
LOG.clear()
doist = doing.Doist(tock=1.0, limit=3.0)
X = L('X')
A = L('A', acts={'enter': lambda s: doist.extend([X])})
B = L('B')
doist.do(doers=[A, B])
report("V1a Doist extend-from-enter",
       count('X', 'enter') != 1 or count('X', 'recur', 1.0) != 1,
       "Doist.do(doers=[A, B]); A.enter() calls doist.extend([X])",
       "X entered %d times, X recurs %d times in cycle tyme=1.0, doist.doers=%r"
       % (count('X', 'enter'), count('X', 'recur', 1.0), doist.doers),
       "'Doers added while a run is in progress are entered immediately' (once); "
       "one membership -> one running generator")

# --------------------------------------------------------------------------
# V1b  DoDoer(always=True) that is itself added at cycle 2; same defect in
#      DoDoer.enter, so it happens at an arbitrary cycle.
# --------------------------------------------------------------------------
LOG.clear()
doist = doing.Doist(tock=1.0, limit=5.0)
D = LD('D', always=True)
X = L('X')
C1 = L('C1', acts={'enter': lambda s: D.extend([X])})
C2 = L('C2')
D.doers.extend([C1, C2])
A = L('A', acts={2: lambda s: doist.extend([D])})
doist.do(doers=[A])
report("V1b DoDoer extend-from-enter at cycle 2",
       count('X', 'enter') != 1 or count('X', 'recur', 2.0) != 1,
       "A (cycle 2) doist.extend([D]); D=DoDoer(always=True, doers=[C1, C2]); "
       "C1.enter() calls D.extend([X])",
       "X entered %d times at tyme 1.0, recurs %d times in cycle tyme=2.0, D.doers=%r"
       % (count('X', 'enter'), count('X', 'recur', 2.0), D.doers),
       "'Doers added while a run is in progress are entered immediately' (once)")

# --------------------------------------------------------------------------
# V1c  same root cause, remove(): A.enter removes an EARLIER sibling, the
#      enter walk then skips the doer after A: it stays in .doers but is never
#      entered and never recurs.
# --------------------------------------------------------------------------
LOG.clear()
doist = doing.Doist(tock=1.0, limit=3.0)
B = L('B'); C = L('C')
A = L('A', acts={'enter': lambda s: doist.remove([B])})
doist.do(doers=[B, A, C])
report("V1c remove-from-enter skips next doer",
       C in doist.doers and count('C', 'enter') == 0,
       "Doist.do(doers=[B, A, C]); A.enter() calls doist.remove([B])",
       "doist.doers=%r but C enter count=%d recur count=%d"
       % (doist.doers, count('C', 'enter'), count('C', 'recur')),
       "'The scheduler's doer list always equals the added-and-not-removed doers' - "
       "C was added, never removed, is listed, yet is never run")

# --------------------------------------------------------------------------
# V2  extend of a DoDoer by a sibling that runs earlier in the same Doist
#     cycle: the new doer recurs in the CURRENT cycle.
# --------------------------------------------------------------------------
LOG.clear()
doist = doing.Doist(tock=1.0, limit=4.0)
D = LD('D', always=True, doers=[L('C')])
X = L('X'); Y = L('Y')
A = L('A', acts={2: lambda s: D.extend([X])})   # runs before D in the cycle
Z = L('Z', acts={2: lambda s: D.extend([Y])})   # runs after D in the cycle
doist.do(doers=[A, D, Z])
xent = [t for n, e, t in LOG if n == 'X' and e == 'enter'][0]
xrec = [t for n, e, t in LOG if n == 'X' and e == 'recur'][0]
yent = [t for n, e, t in LOG if n == 'Y' and e == 'enter'][0]
yrec = [t for n, e, t in LOG if n == 'Y' and e == 'recur'][0]
report("V2 sibling extends later-scheduled DoDoer",
       xrec == xent,
       "Doist doers=[A, D, Z], D=DoDoer(always=True); A (2nd recur, tyme 1.0) calls "
       "D.extend([X]); Z (same cycle) calls D.extend([Y])",
       "X entered at tyme %s, first recur at tyme %s (same cycle); "
       "Y entered at %s first recur at %s" % (xent, xrec, yent, yrec),
       "'first recur in the next cycle (not the current one)'")

# --------------------------------------------------------------------------
# V3  a doer removed by a SIBLING while it is on the call stack is neither
#     closed nor stopped: it recurs for ever.  (remove() assumes a doer whose
#     deed is popped == self removal.)
#     a) successor pattern: A extends X, X.enter removes its predecessor A
#     b) partner teardown: A removes B, B.exit removes A
# --------------------------------------------------------------------------
for kind in ('Doist', 'DoDoer'):
    LOG.clear()
    doist = doing.Doist(tock=1.0, limit=5.0)
    S = doist if kind == 'Doist' else LD('D', always=True)
    X = L('X', acts={'enter': lambda s: S.remove([A])})
    A = L('A', acts={2: lambda s: S.extend([X])})
    if kind == 'Doist':
        doist.do(doers=[A])
    else:
        S.doers.append(A)
        doist.do(doers=[S])
    later = [t for n, e, t in LOG if n == 'A' and e == 'recur' and t > 1.0]
    closed = [(e, t) for n, e, t in LOG if n == 'A' and e in ('cease', 'exit')]
    report("V3a %s: sibling X removes A from X.enter" % kind,
           bool(later),
           "%s doers=[A]; A (tyme 1.0) calls extend([X]); X.enter() calls remove([A])" % kind,
           "doers=%r; A not closed by remove (close events %r) and A recurs again at tymes %r"
           % (S.doers, closed, later),
           "'Doers removed while running are force-closed (cease then exit) before "
           "remove() returns and never recur again, except a doer removing itself' "
           "(A was removed by X, not by itself)")

LOG.clear()
doist = doing.Doist(tock=1.0, limit=5.0)
B = L('B', acts={'exit': lambda s: doist.remove([A])})
A = L('A', acts={2: lambda s: doist.remove([B])})
doist.do(doers=[A, B, L('C')])
later = [t for n, e, t in LOG if n == 'A' and e == 'recur' and t > 1.0]
report("V3b Doist: A removes B, B.exit removes A",
       bool(later),
       "Doist doers=[A, B, C]; A (tyme 1.0) remove([B]); B.exit() calls remove([A])",
       "doers=%r; A recurs again at tymes %r, closed only at doist exit" % (doist.doers, later),
       "'Doers removed while running are force-closed ... and never recur again, "
       "except a doer removing itself'")

print("=" * 78)
print("violations reproduced:", failures if failures else "none")
sys.exit(1 if failures else 0)

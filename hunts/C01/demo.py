#!/usr/bin/env python
"""
C01 adversarial demo: every doer runs a well-formed lifecycle on every exit path

  enter recur* (clean | cease | abort) exit      -- exactly once, nothing after exit

Run with:
  PYTHONPATH=/tmp/seed_C01hunt/src PYTHONDONTWRITEBYTECODE=1 /venv/bin/python demo.py

Exit status 1 when at least one violation reproduces, 0 when none does.
"""
import re
import sys
import warnings
warnings.simplefilter("ignore")

import hio
assert hio.__file__.startswith('/tmp/seed_C01hunt/src'), hio.__file__
from hio.base.doing import Doist, Doer, DoDoer, doify

LOG = []  # (name, context) in global order


class Traced(Doer):
    """Plain Doer that records each of its six lifecycle contexts."""
    def __init__(self, name, stop=None, **kwa):
        super().__init__(**kwa)
        self.name = name
        self.stop = stop  # recur count at which it completes by itself
        self.count = 0

    def enter(self, *, temp=None):
        LOG.append((self.name, 'enter'))

    def recur(self, tyme):
        self.count += 1
        LOG.append((self.name, 'recur'))
        return self.stop is not None and self.count >= self.stop

    def clean(self):
        LOG.append((self.name, 'clean'))

    def cease(self):
        LOG.append((self.name, 'cease'))

    def abort(self, ex):
        LOG.append((self.name, 'abort'))

    def exit(self):
        LOG.append((self.name, 'exit'))


def tracedDo(tymth=None, tock=0.0, label=None, *, temp=None, **opts):
    """generator function doer with the six contexts of the bareDo template"""
    try:
        LOG.append((label, 'enter'))
        while True:
            yield tock
            LOG.append((label, 'recur'))
    except GeneratorExit:
        LOG.append((label, 'cease'))
    except Exception:
        LOG.append((label, 'abort'))
        raise
    else:
        LOG.append((label, 'clean'))
    finally:
        LOG.append((label, 'exit'))
    return True


class TracedDoDoer(DoDoer):
    """DoDoer that records its own contexts the way any DoDoer subclass that
    holds a resource would hook them (override, then call super)."""
    def __init__(self, name, **kwa):
        super().__init__(**kwa)
        self.name = name

    def enter(self, doers=None, *, temp=None):
        if doers is None:  # own enter context, not the helper use by .extend
            LOG.append((self.name, 'enter'))
        return super().enter(doers=doers, temp=temp)

    def recur(self, tyme, deeds=None):
        LOG.append((self.name, 'recur'))
        return super().recur(tyme, deeds=deeds)

    def clean(self):
        LOG.append((self.name, 'clean'))

    def cease(self):
        LOG.append((self.name, 'cease'))

    def abort(self, ex):
        LOG.append((self.name, 'abort'))

    def exit(self, deeds=None):
        LOG.append((self.name, 'exit'))
        return super().exit(deeds=deeds)


CODE = dict(enter='E', recur='R', clean='C', cease='X', abort='A', exit='Z')
WELL = re.compile(r'ER*[CXA]Z')  # exactly one lifecycle


def lifecycles():
    per = {}
    for name, ctx in LOG:
        per.setdefault(name, []).append(ctx)
    return per


def judge(title, inputdesc, func, expect_names):
    """run scenario func, report each doer whose lifecycle is not well formed"""
    LOG.clear()
    print("=" * 78)
    print(title)
    print("  input   :", inputdesc)
    raised = None
    keep = None
    try:
        keep = func()  # keep scheduler referenced so nothing is finalized by gc
    except Exception as ex:
        raised = ex
    print("  raised  :", repr(raised))
    bad = []
    for name, seq in lifecycles().items():
        ok = WELL.fullmatch(''.join(CODE[c] for c in seq)) is not None
        print("  {:<4} {} {}".format(name, ' '.join(seq), '' if ok else '   <-- ILL FORMED'))
        if not ok:
            bad.append(name)
    if bad:
        print("  VIOLATION for", bad)
    else:
        print("  ok, all lifecycles well formed")
    judge.keep.append(keep)
    return bool(bad)
judge.keep = []


# ---------------------------------------------------------------------------
# V1  extend() called from a doer's enter -> the added doer is entered twice
# ---------------------------------------------------------------------------
class Spawner(Traced):
    """A doer that, when it is entered, adds a helper doer to its scheduler.
    (extend is documented as 'cleanly add more doers at runtime')"""
    def __init__(self, name, sched, new, **kwa):
        super().__init__(name, **kwa)
        self.sched = sched  # callable returning Doist or DoDoer
        self.new = new

    def enter(self, *, temp=None):
        super().enter(temp=temp)
        self.sched().extend(self.new)


def v1_doist():
    doist = Doist(tock=1.0, limit=3.0)
    b = Traced('b')
    a = Spawner('a', lambda: doist, [b])
    doist.do(doers=[a])
    return doist


def v1_dodoer():
    dd = TracedDoDoer('dd')
    b = Traced('b', stop=2)  # completes by itself at its 2nd recur
    a = Spawner('a', lambda: dd, [b], stop=3)
    dd.doers.append(a)
    doist = Doist(tock=1.0, limit=6.0)
    doist.do(doers=[dd])
    return doist


def v1_genfunc():
    doist = Doist(tock=1.0, limit=3.0)
    f = doify(tracedDo, name='f', label='f')
    a = Spawner('a', lambda: doist, [f])
    doist.do(doers=[a, Traced('z')])
    return doist


def v1_before_do():
    doist = Doist(tock=1.0, limit=3.0)
    doist.extend([Traced('d')])  # add a doer with the public api, then run
    doist.do()
    return doist


# ---------------------------------------------------------------------------
# V2  a doer that raises in its cease/exit while being force closed stops the
#     close loop: every doer entered before it gets neither cease nor exit
# ---------------------------------------------------------------------------
class BadCease(Traced):
    def cease(self):
        super().cease()
        raise OSError("cease of {} fails".format(self.name))


class BadExit(Traced):
    def exit(self):
        super().exit()
        raise OSError("exit of {} fails".format(self.name))


def v2_limit():
    doist = Doist(tock=1.0, limit=3.0)
    f = doify(tracedDo, name='f', label='f')
    try:
        doist.do(doers=[Traced('a'), f, BadCease('c')])
    finally:
        judge.keep.append(doist)
    return doist


def v2_nested_abort():
    # r raises in its recur -> dd aborts -> dd.exit closes c (raises in exit)
    # and must still close a and b
    class Raiser(Traced):
        def recur(self, tyme):
            super().recur(tyme)
            if self.count == 2:
                raise ValueError("r raises in recur")
            return False
    dd = TracedDoDoer('dd', doers=[Traced('a'), Traced('b'), BadExit('c'), Raiser('r')])
    doist = Doist(tock=1.0, limit=5.0)
    try:
        doist.do(doers=[dd])
    finally:
        judge.keep.append((doist, dd))
    return doist


def v2_remove():
    # runtime removal of three doers, the last one raises in cease
    doist = Doist(tock=1.0, limit=4.0)
    x, y, z = Traced('x'), Traced('y'), BadCease('z')

    class Remover(Traced):
        def recur(self, tyme):
            super().recur(tyme)
            if self.count == 2:
                try:
                    doist.remove([x, y, z])
                except OSError:
                    pass  # caller copes with failing cease of z
            return False
    doist.do(doers=[x, y, z, Remover('m')])
    return doist


# ---------------------------------------------------------------------------
# V3  DoDoer.remove() runs the DoDoer's own exit context (self.exit(deeds=..))
#     so a running DoDoer sees exit, then more recurs, then cease, exit again
# ---------------------------------------------------------------------------
def v3_remove_runs_own_exit():
    y = Traced('y')
    dd = TracedDoDoer('dd')

    class Remover(Traced):
        def recur(self, tyme):
            super().recur(tyme)
            if self.count == 2:
                dd.remove([y])
            return False
    dd.doers.extend([Traced('x'), y, Remover('m')])
    doist = Doist(tock=1.0, limit=4.0)
    doist.do(doers=[dd])
    return doist


def main():
    found = []
    print("statement: every doer a scheduler starts goes through enter, then zero"
          " or more recur steps,\n then exactly one of clean/cease/abort, then exit"
          " exactly once, and nothing after exit.\n")

    r = []
    r.append(judge("V1a Doist: doer 'a' calls doist.extend([b]) in its enter context",
                   "Doist(tock=1,limit=3).do(doers=[a]); a.enter -> doist.extend([b])",
                   v1_doist, ['b']))
    r.append(judge("V1b DoDoer: child 'a' calls dd.extend([b]) in its enter context (b stops at 2nd recur)",
                   "Doist.do(doers=[dd]); dd.doers=[a]; a.enter -> dd.extend([b])",
                   v1_dodoer, ['b']))
    r.append(judge("V1c Doist: same with a doify'd generator function",
                   "Doist.do(doers=[a, z]); a.enter -> doist.extend([f])",
                   v1_genfunc, ['f']))
    r.append(judge("V1d Doist: doist.extend([d]) before doist.do()",
                   "doist=Doist(tock=1,limit=3); doist.extend([d]); doist.do()",
                   v1_before_do, ['d']))
    if any(r):
        found.append("V1")
        print("\n  required: 'goes through enter, then zero or more recur steps, then exactly one of"
              " clean ... cease ... abort, then exit exactly once, and nothing after exit'")
        print("  observed: the extended doer is entered TWICE (two live generators on one doer),"
              " recurs twice per cycle, recurs after its exit, and is ceased/exited twice\n")

    r = []
    r.append(judge("V2a time limit, doers [a, f, c], c.cease() raises OSError",
                   "Doist(tock=1,limit=3).do(doers=[a, f, c])",
                   v2_limit, ['a', 'f']))
    r.append(judge("V2b nested: r raises in recur -> dd aborts -> closing c raises in c.exit()",
                   "Doist.do(doers=[dd]); dd.doers=[a, b, c, r]",
                   v2_nested_abort, ['a', 'b']))
    # control: here the not yet closed x, y are only held by a local deque inside
    # remove(), so CPython refcount finalization of the dropped generators closes
    # them by luck; kept to show the close loop is the only thing at fault
    r.append(judge("V2c (control) runtime removal: doist.remove([x, y, z]) where z.cease() raises",
                   "Doist.do(doers=[x, y, z, m]); m.recur#2 -> doist.remove([x, y, z])",
                   v2_remove, ['x', 'y']))
    if any(r):
        found.append("V2")
        print("\n  required: '... then exactly one of clean, cease (it was force-closed) or abort,"
              " then exit exactly once ... however the run ends: ... time limit, an exception"
              " raised by any doer, removal at runtime'")
        print("  observed: doers entered before the raising one end as 'enter recur*' with"
              " NO cease and NO exit (they stay open in .deeds, or are dropped by remove)\n")

    r = []
    r.append(judge("V3 dd.remove([y]) at runtime runs dd's own exit context",
                   "Doist.do(doers=[dd]); dd.doers=[x, y, m]; m.recur#2 -> dd.remove([y])",
                   v3_remove_runs_own_exit, ['dd']))
    if any(r):
        found.append("V3")
        print("\n  required: 'then exit exactly once, and nothing after exit'")
        print("  observed: the DoDoer's exit context runs at the removal, it then keeps"
              " recurring, and exit runs a second time at the end\n")

    print("=" * 78)
    print("violations reproduced:", found if found else "none")
    return 1 if found else 0


if __name__ == '__main__':
    sys.exit(main())

#!/venv/bin/python
"""
C17 demo: a chunked response body delivered by hio.core.http.clienting.Client
is silently replaced by the body of the NEXT chunked response on the same
persistent connection (bytearray aliasing in Respondent.parseBody).

Run:  PYTHONPATH=/tmp/seed_C17hunt/src PYTHONDONTWRITEBYTECODE=1 /venv/bin/python seed_out/demo.py
Exit 1 if the violation reproduces, 0 otherwise.
"""
import os, sys, time, shutil, warnings
warnings.simplefilter("ignore")

# real sockets -> run inside a private network namespace when possible
if os.environ.get("C17_DEMO_NETNS") != "1" and shutil.which("unshare"):
    env = dict(os.environ, C17_DEMO_NETNS="1")
    cmd = ["unshare", "-n", "sh", "-c", 'ip link set lo up; exec "$@"', "sh",
           sys.executable, "-W", "ignore", os.path.abspath(__file__)]
    import subprocess
    try:
        rc = subprocess.call(cmd, env=env)
        if rc in (0, 1):
            sys.exit(rc)
    except OSError:
        pass
    os.environ["C17_DEMO_NETNS"] = "1"  # fall through and run directly

import hio
assert hio.__file__.startswith('/tmp/seed_C17hunt/src'), hio.__file__
from hio.core import tcp
from hio.core.http import clienting

HEAD_CHUNKED = b'HTTP/1.1 200 OK\r\nTransfer-Encoding: chunked\r\n\r\n'


def chunked(parts, exts=b'', trailers=()):
    wire = b''.join(b'%x%s\r\n%s\r\n' % (len(p), exts, p) for p in parts) + b'0\r\n'
    for k, v in trailers:
        wire += k + b': ' + v + b'\r\n'
    return wire + b'\r\n'


def connect(port):
    alpha = tcp.Server(port=port, bufsize=131072)
    assert alpha.reopen()
    beta = clienting.Client(bufsize=131072, hostname='127.0.0.1', port=port)
    assert beta.reopen()
    t0 = time.time()
    while time.time() - t0 < 5:
        beta.connector.serviceConnect()
        alpha.serviceConnects()
        if beta.connector.connected and beta.connector.ca in alpha.ixes:
            break
        time.sleep(0.005)
    return alpha, beta, alpha.ixes[beta.connector.ca]


def exchange(alpha, beta, ix, wires, want):
    """Serve each queued request with the next raw response in wires until
    the client has `want` responses"""
    served = 0
    t0 = time.time()
    while len(beta.responses) < want and time.time() - t0 < 5:
        beta.service()
        alpha.serviceReceivesAllIx()
        if b'\r\n\r\n' in ix.rxbs and served < len(wires):
            ix.clearRxbs()
            ix.tx(wires[served])
            served += 1
        alpha.serviceSendsAllIx()
        time.sleep(0.005)


def scenario_queued(port):
    """two requests queued, both answered with chunked bodies, read both"""
    first = [b'first ', b'body']
    second = [b'SECOND-', b'one']
    alpha, beta, ix = connect(port)
    try:
        beta.request(method='GET', path='/a')
        beta.request(method='GET', path='/b')
        exchange(alpha, beta, ix,
                 [HEAD_CHUNKED + chunked(first, exts=b';x=1', trailers=[(b'X-T', b'v')]),
                  HEAD_CHUNKED + chunked(second)], want=2)
        assert len(beta.responses) == 2, len(beta.responses)
        ra, rb = beta.responses[0], beta.responses[1]
        return (b''.join(first), bytes(ra['body']), ra['request']['path'],
                b''.join(second), bytes(rb['body']), ra['body'] is rb['body'])
    finally:
        beta.close(); alpha.close()


def scenario_popped(port):
    """caller pops response 1 (Client.respond()) and keeps it, then makes request 2"""
    first = [b'hello ', b'world']
    second = [b'xy']
    alpha, beta, ix = connect(port)
    try:
        beta.request(method='GET', path='/a')
        exchange(alpha, beta, ix, [HEAD_CHUNKED + chunked(first)], want=1)
        rep1 = beta.respond()  # namedtuple handed to the application
        before = bytes(rep1.body)
        beta.request(method='GET', path='/b')
        exchange(alpha, beta, ix, [HEAD_CHUNKED + chunked(second)], want=1)
        after = bytes(rep1.body)
        return b''.join(first), before, after
    finally:
        beta.close(); alpha.close()


def scenario_control(port):
    """same as queued but Content-Length framing (for comparison; same in-place
    clear empties the first body there, outside C17's chunked scope)"""
    alpha, beta, ix = connect(port)
    try:
        beta.request(method='GET', path='/a')
        beta.request(method='GET', path='/b')
        exchange(alpha, beta, ix,
                 [b'HTTP/1.1 200 OK\r\nContent-Length: 10\r\n\r\nfirst body',
                  b'HTTP/1.1 200 OK\r\nContent-Length: 10\r\n\r\nSECOND-one'], want=2)
        return bytes(beta.responses[0]['body']), bytes(beta.responses[1]['body'])
    finally:
        beta.close(); alpha.close()


def main():
    failed = False

    sent1, got1, path1, sent2, got2, same = scenario_queued(6101)
    print("[1] two queued GETs on one keep-alive connection, both answered chunked")
    print("    response for %s : chunks decode to %r" % (path1, sent1))
    print("    Client.responses[0]['body'] read after both arrived = %r" % got1)
    print("    Client.responses[1]['body']                         = %r (sent %r)" % (got2, sent2))
    print("    responses[0]['body'] is responses[1]['body'] -> %s" % same)
    if got1 != sent1:
        failed = True
        print("    VIOLATION: statement requires 'decoding the chunked encoding yields "
              "exactly that body'; first chunked body was replaced by the second")

    sent, before, after = scenario_popped(6102)
    print("[2] response 1 popped with Client.respond() and kept, then request 2 made")
    print("    rep1.body right after delivery = %r" % before)
    print("    rep1.body after response 2     = %r (sent %r)" % (after, sent))
    if after != sent:
        failed = True
        print("    VIOLATION: delivered chunked body mutated to the next message's body")

    c1, c2 = scenario_control(6103)
    print("[comparison, not counted] Content-Length framing: %r / %r "
          "(same root cause clears the first body in place)" % (c1, c2))

    print("RESULT:", "VIOLATION REPRODUCED" if failed else "no violation")
    return 1 if failed else 0


if __name__ == "__main__":
    sys.exit(main())

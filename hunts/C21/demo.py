#!/venv/bin/python
"""C21 hunt demo: no violation found. Runs the strongest attempted scenarios against the
UNCHANGED worktree and exits 0 if (as observed) none of them violates the property, 1 otherwise.

Run:  PYTHONPATH=/tmp/seed_C21hunt/src PYTHONDONTWRITEBYTECODE=1 \
      unshare -n sh -c 'ip link set lo up; exec "$@"' sh /venv/bin/python seed_out/demo.py
(the netns is only needed to keep the real-UDP scenario away from other jobs' sockets)
"""
import sys, os, random, errno, socket, shutil, glob, logging, warnings
warnings.simplefilter("ignore")
import hio
assert hio.__file__.startswith('/tmp/seed_C21hunt/src'), hio.__file__
from hio.core.memo.memoing import Memoer, MemoDex
from hio.core.udp import peermemoing as udpm
from hio.core.uxd import peermemoing as uxdm
from hio.core import wiring
from hio.base import doing
logging.disable(logging.CRITICAL)  # drop-on-unreachable logs an error per drop; not of interest

UNREACH = [errno.ECONNREFUSED, errno.ENOENT, errno.ECONNRESET, errno.ENETRESET,
           errno.ENETUNREACH, errno.EHOSTUNREACH, errno.ENETDOWN, errno.EHOSTDOWN,
           errno.ETIMEDOUT, errno.ETIME]
BLOCK = [errno.EAGAIN, errno.EWOULDBLOCK, errno.ENOBUFS, errno.ENOMEM]
PRE = set(glob.glob('/tmp/hio_*_test'))
failures = []


def check(calls, queued, peer):
    """Reference model. calls = every transport send attempt (offered bytes, dst, outcome) where
    outcome is an accepted count or ('err', errno) for unreachable. Each call must offer exactly
    the unsent remainder of the current head-of-queue gram; a gram ends when fully accepted or
    when unreachable is reported; at the end every queued gram must have ended exactly once."""
    i = 0; rem = None
    for offered, dst, out in calls:
        if rem is None:
            if i >= len(queued):
                return f"extra send {offered[:16]!r} beyond queue (duplicate)"
            rem = bytes(queued[i][0]); cd = queued[i][1]
        if offered != rem or dst != cd:
            return (f"send offered {offered[:16]!r}->{dst} but statement requires "
                    f"{rem[:16]!r}->{cd} (gram #{i}): lost/reordered/duplicated")
        if isinstance(out, tuple):
            rem = None; i += 1
        else:
            rem = rem[out:]
            if not rem:
                rem = None; i += 1
    if rem is not None or i != len(queued):
        return f"queue not fully sent: {i} of {len(queued)} grams done, txbs={peer.txbs}"
    return None


# ---- 1. base Memoer, scripted send(): counts 0..len and unreachable errors, all service APIs,
#         close/reopen between partial sends
class Mock(Memoer):
    def __init__(self, rng, perr, **kwa):
        super().__init__(**kwa); self.rng = rng; self.perr = perr; self.calls = []
    def send(self, gram, dst, **kwa):
        if self.rng.random() < self.perr:
            e = self.rng.choice(UNREACH)
            self.calls.append((bytes(gram), dst, ('err', e))); raise OSError(e, "unreachable")
        k = self.rng.choice([0, 0, len(gram), len(gram), self.rng.randint(0, len(gram))])
        self.calls.append((bytes(gram), dst, k)); return k

def scenario1(n=4000):
    for seed in range(n):
        rng = random.Random(seed)
        peer = Mock(rng, rng.choice([0, 0.05, 0.3])); peer.reopen()
        queued = []; c = 0
        ops = ['gram'] * 3 + ['once', 'greedy', 'allonce', 'all', 'service', 'local', 'reopen',
                              'closeopen', 'svconce']
        for _ in range(rng.randint(1, 40)):
            op = rng.choice(ops)
            if op == 'gram':
                g = bytes([65 + c % 26]) * rng.randint(0, 6) + str(c).encode()
                d = rng.choice(['a', 'b', ('h', 1)]); peer.gramit(g, d); queued.append((g, d)); c += 1
            elif op == 'once': peer.serviceTxGramsOnce()
            elif op == 'greedy': peer.serviceTxGrams()
            elif op == 'allonce': peer.serviceAllTxOnce()
            elif op == 'all': peer.serviceAllTx()
            elif op == 'service': peer.service()
            elif op == 'svconce': peer.serviceAllOnce()
            elif op == 'local': peer.serviceLocal()
            elif op == 'reopen': peer.reopen()
            elif op == 'closeopen':
                peer.close(); peer.serviceTxGrams(); peer.serviceTxGramsOnce(); peer.open()
        for _ in range(10000):
            if not peer.txgs and peer.txbs[1] is None: break
            rng.choice([peer.serviceTxGramsOnce, peer.serviceTxGrams, peer.service])()
        res = check(peer.calls, queued, peer)
        if res: return f"seed {seed}: {res}"


# ---- 2. the shipped udp and uxd PeerMemoer classes (real Peer.send code incl. errno mapping and
#         WireLog) over a scripted fake socket; memos + raw grams; driven directly or by Doist/Doer
class FakeSock:
    def __init__(self, rng, calls, perr): self.rng, self.calls, self.perr = rng, calls, perr
    def sendto(self, data, dst):
        r = self.rng.random()
        if r < self.perr:
            e = self.rng.choice(UNREACH); self.calls.append((bytes(data), dst, ('err', e)))
            raise OSError(e, os.strerror(e))
        if r < self.perr + 0.25:
            e = self.rng.choice(BLOCK); self.calls.append((bytes(data), dst, 0))
            if e == errno.EAGAIN and self.rng.random() < 0.5: raise BlockingIOError(e, os.strerror(e))
            raise OSError(e, os.strerror(e))
        k = self.rng.choice([0, len(data), len(data), self.rng.randint(0, len(data))])
        self.calls.append((bytes(data), dst, k)); return k
    def recvfrom(self, n): raise BlockingIOError(errno.EAGAIN, "x")
    def close(self): pass

def scenario2(n=300):
    for kind in ('udp', 'uxd'):
        for seed in range(n):
            rng = random.Random(seed); calls = []; perr = rng.choice([0, 0.05, 0.3])
            wl = wiring.WireLog(samed=True, temp=True); wl.reopen()
            kw = dict(wl=wl, size=rng.choice([None, 60, 100]), curt=rng.random() < 0.3)
            if kind == 'udp':
                peer = udpm.PeerMemoer(name=f"c21d{seed}", port=0, **kw)
                dsts = [('127.0.0.1', 5001), ('127.0.0.1', 5002)]
            else:
                peer = uxdm.PeerMemoer(name=f"c21d{seed}", temp=True, **kw)
                dsts = ['/tmp/nonexist/a.uxd', '/tmp/nonexist/b.uxd']
            def patch():
                if peer.ls is not None and not isinstance(peer.ls, FakeSock):
                    peer.ls.close(); peer.ls = FakeSock(rng, calls, perr)
            queued = []; orig = peer._serviceOneTxMemo
            def rec():
                n0 = len(peer.txgs); orig()
                queued.extend((bytes(g), d) for g, d in list(peer.txgs)[n0:])
            peer._serviceOneTxMemo = rec  # only records the order in which grams get queued
            try:
                use_doer = rng.random() < 0.4
                if use_doer:
                    cls = udpm.PeerMemoerDoer if kind == 'udp' else uxdm.PeerMemoerDoer
                    if kind == 'udp' and rng.random() < .5: cls = udpm.SafePeerMemoerDoer
                    doist = doing.Doist(tock=0.01, real=False, doers=[cls(peer=peer)])
                    doist.enter()
                else:
                    peer.reopen()
                patch(); c = 0
                for _ in range(rng.randint(1, 30)):
                    op = rng.choice(['memo'] * 3 + ['gram', 'once', 'greedy', 'allonce', 'all',
                                                    'service', 'local', 'reopen', 'svconce', 'recur'])
                    if op == 'memo':
                        peer.memoit(f"m{c}-" + "abcdefghij" * rng.randint(0, 30), rng.choice(dsts)); c += 1
                    elif op == 'gram':
                        g = f"raw{c}".encode() * rng.randint(1, 3); d = rng.choice(dsts)
                        peer.gramit(g, d); queued.append((g, d)); c += 1
                    elif op == 'once': peer.serviceTxGramsOnce()
                    elif op == 'greedy': peer.serviceTxGrams()
                    elif op == 'allonce': peer.serviceAllTxOnce()
                    elif op == 'all': peer.serviceAllTx()
                    elif op == 'service': peer.service()
                    elif op == 'svconce': peer.serviceAllOnce()
                    elif op == 'local': peer.serviceLocal()
                    elif op == 'recur' and use_doer: doist.recur()
                    elif op == 'reopen':
                        if use_doer: doist.exit(); doist.enter()
                        else: peer.reopen()
                        patch()
                for _ in range(20000):
                    if not peer.txms and not peer.txgs and peer.txbs[1] is None: break
                    if use_doer: doist.recur()
                    else: rng.choice([peer.serviceAllTxOnce, peer.serviceAllTx, peer.service])()
                res = check(calls, queued, peer)
                if use_doer: doist.exit()
            finally:
                peer.close(); wl.close(clear=True)
            if res: return f"{kind} seed {seed}: {res}"


# ---- 3. real uxd sockets: slow receiver fills its queue -> genuine EAGAIN backpressure;
#         dead / stale destinations interleaved (must be dropped, nothing else lost or reordered)
def scenario3():
    with uxdm.openPM(name='aC21demo') as a, uxdm.openPM(name='bC21demo') as b, \
         uxdm.openPM(name='cC21demo') as c:
        stale = c.path; c.close(clear=False)
        if not os.path.exists(stale):
            s = socket.socket(socket.AF_UNIX, socket.SOCK_DGRAM); s.bind(stale); s.close()
        sent = []
        for i in range(90):
            d = b.path
            if i % 10 == 4: d = '/tmp/hio_nonexistent_C21/x.uxd'
            if i % 10 == 8: d = stale
            m = f"memo-{i:03d}-" + "x" * (3000 + i)
            a.memoit(m, d)
            if d == b.path: sent.append(m)
        got = []; stalls = 0
        for r in range(2000):
            a.serviceAllTx()
            stalls += a.txbs[1] is not None
            for _ in range(3): b.serviceReceivesOnce()
            b.serviceRxGrams(); b.serviceRxMemos()
            while b.rxms: got.append(b.rxms.popleft()[0])
            while b.inbox: got.append(b.inbox.popleft()[0])
            if len(got) >= len(sent) and not a.txgs and a.txbs[1] is None: break
        try: os.remove(stale)
        except OSError: pass
        if stalls == 0: return "scenario did not produce backpressure (inconclusive)"
        if got != sent: return f"real uxd: delivered {len(got)} of {len(sent)}, in order={got == sent}"


# ---- 4. real udp sockets on loopback, one gram per service call, unroutable dst interleaved
def scenario4():
    with udpm.openPM(name='uaC21', port=0) as a, udpm.openPM(name='ubC21', port=0) as b:
        grams = []
        # what does this kernel/namespace report for an unroutable dst?  Only use it when it is one
        # of the unreachable-peer errors of the property's domain (outside a netns this sandbox
        # answers EINVAL, which is not in the domain).
        probe = socket.socket(socket.AF_INET, socket.SOCK_DGRAM); dead = None
        try: probe.sendto(b'x', ('10.254.254.1', 9))
        except OSError as ex:
            if ex.args[0] in UNREACH: dead = ('10.254.254.1', 9)
        probe.close()
        for i in range(50):
            d = dead if (dead and i % 7 == 3) else b.ha
            g = f"U{i:03d}".encode() * 100; a.gramit(g, d); grams.append((g, d))
        got = []
        for r in range(200):
            a.serviceTxGramsOnce()
            data, src = b.receive()
            if data: got.append(data)
        exp = [g for g, d in grams if d == b.ha]
        if got != exp: return f"real udp: delivered {len(got)} of {len(exp)}"


# ---- 5. end to end: memos -> grams -> partial/zero acceptance -> wire reassembly -> receiving
#         Memoer; every memo must arrive intact and in order (curt/size/code variants)
class Tx(Memoer):
    def __init__(self, rng, rxer, **kwa):
        super().__init__(**kwa); self.rng = rng; self.rxer = rxer; self.acc = bytearray()
    def send(self, gram, dst, **kwa):
        k = self.rng.choice([0, 0, len(gram), self.rng.randint(0, len(gram))])
        self.acc += gram[:k]
        if k == len(gram):
            self.rxer.echos.append((bytes(self.acc), 'tx')); self.acc = bytearray()
        return k

def scenario5(n=800):
    for seed in range(n):
        rng = random.Random(seed); curt = rng.random() < 0.5
        code = rng.choice([MemoDex.GramZero, MemoDex.GramSureZero])
        size = rng.choice([None, 33, 34, 38, 40, 45, 64, 100, 1240])
        rx = Memoer(name='rx', code=code, curt=curt, size=size, echoic=True)
        tx = Tx(rng, rx, name='tx', code=code, curt=curt, size=size); rx.reopen(); tx.reopen()
        memos = []
        for i in range(rng.randint(1, 6)):
            m = f"{i}:" + "".join(rng.choice("abcxyz0123")
                                  for _ in range(rng.choice([0, 1, 2, 5, 30, 31, 32, 33, 200, 1000])))
            memos.append(m); tx.memoit(m, 'rx')
            if rng.random() < 0.5: rng.choice([tx.serviceAllTxOnce, tx.serviceAllTx, tx.service])()
        for _ in range(100000):
            if not tx.txms and not tx.txgs and tx.txbs[1] is None: break
            rng.choice([tx.serviceAllTxOnce, tx.serviceAllTx, tx.service])()
        rx.serviceAllRx()
        got = [m for m, s, v in rx.rxms] + [m for m, s, v in rx.inbox]
        if got != memos: return f"seed {seed}: sent {len(memos)} memos got {len(got)}"


# ---- 6. boundaries: preloaded .txbs via constructor, 1-byte grams, exactly-len acceptance,
#         would-block many times in a row on the first call for a gram then 1 byte at a time
def scenario6():
    script = []
    class S(Memoer):
        calls = []
        def send(self, gram, dst, **kwa):
            k = script.pop(0) if script else len(gram)
            if k == 'U': self.calls.append((bytes(gram), dst, ('err', 111))); raise ConnectionRefusedError(111, 'x')
            k = min(k, len(gram)); self.calls.append((bytes(gram), dst, k)); return k
    p = S(txbs=(bytearray(b'REM'), 'z')); p.reopen()
    queued = [(b'REM', 'z')]
    for g, d in [(b'a', 'x'), (b'bcdef', 'y'), (b'g', 'x'), (b'hijk', 'y'), (b'l', 'x')]:
        p.gramit(g, d); queued.append((g, d))
    script[:] = [0, 0, 0, 1, 0, 1, 1, 0, 0, 1, 0, 5, 0, 'U', 2, 0, 'U', 0, 0, 0, 1]
    for i in range(100):
        (p.serviceTxGramsOnce if i % 2 else p.serviceTxGrams)()
    return check(S.calls, queued, p)


for name, fn in [("1 base Memoer scripted acceptance/unreachable fuzz", scenario1),
                 ("2 udp+uxd PeerMemoer over fake socket (+WireLog, Doist)", scenario2),
                 ("3 real uxd sockets with full receiver queue + dead peers", scenario3),
                 ("4 real udp loopback + unroutable dst", scenario4),
                 ("5 end-to-end memo delivery under partial sends", scenario5),
                 ("6 boundaries / preloaded txbs / long would-block runs", scenario6)]:
    try:
        res = fn()
    except Exception as ex:  # an escaping exception inside the quantified domain is also a finding
        res = f"raised {type(ex).__name__}: {ex}"
    print(f"[{'VIOLATION' if res else 'ok'}] scenario {name}" + (f"\n    observed: {res}\n    required: "
          "every queued gram is eventually sent in full, in queue order, none lost/duplicated/"
          "reordered; dropped only when unreachable" if res else ""))
    if res: failures.append(name)

for d in set(glob.glob('/tmp/hio_*_test')) - PRE:   # clean what this run created
    shutil.rmtree(d, ignore_errors=True)
print("C21:", "VIOLATION(S) REPRODUCED" if failures else "no violation found in any scenario")
sys.exit(1 if failures else 0)

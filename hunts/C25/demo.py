"""C25 adversarial hunt - no violation found.

Runs the strongest attempted scenarios against the UNCHANGED worktree and
exits 0 when every observed exit/enter sequence matches what the statement
requires (exit 1 on any mismatch).

 1. Differential fuzz: random box forests (1..9 boxes), random first box,
    random declaration order of two acts per nabe, goacts from every box to
    every box (sibling, cousin, ancestor, descendant, self / forced re-entry),
    1..3 simultaneously satisfied goacts per pass, randomly failing predo acts
    (also on the very first entry), random end requests.  The complete act log
    of every pass is compared with an independent model of the statement.
 2. Integration scenarios: BoxerDoer under Doist to natural end, re-run of the
    same Boxer, two Boxers sharing one Hold, stray over Box instance and Box
    instance dests, end requested by an exdo act during a transition, at()/be()/
    exec-str deeds declaration order.
"""
import sys, random, itertools
import hio
assert hio.__file__.startswith('/tmp/seed_C25hunt/src'), hio.__file__
from hio.base import Tymist
from hio.base.hier import Hold, Bag, Boxer, ActBase, EndAct

def build(rng, n):
    """random forest: parents[i] = index of over or None; order lexical (over before under)"""
    parents = [None]
    for i in range(1, n):
        parents.append(rng.choice([None] + list(range(i))) if rng.random() < 0.85 else None)
    return parents

def piles(parents):
    n = len(parents)
    unders = {i: [] for i in range(n)}
    for i, p in enumerate(parents):
        if p is not None:
            unders[p].append(i)
    def pile(i):
        up = []
        o = parents[i]
        while o is not None:
            up.insert(0, o); o = parents[o]
        p = up + [i]
        u = unders[i][0] if unders[i] else None
        while u is not None:
            p.append(u); u = unders[u][0] if unders[u] else None
        return p
    return {i: pile(i) for i in range(n)}

def model_exen(nears, far, fars):
    if far in nears:
        i = nears.index(far)
    else:
        i = 0
        while i < min(len(nears), len(fars)) and nears[i] == fars[i]:
            i += 1
    return list(reversed(nears[i:])), fars[i:], list(reversed(nears[:i])), fars[:i]

def run_case(seed, n, steps, verbose=False):
    rng = random.Random(seed)
    ActBase._clearall() if hasattr(ActBase, "_clearall") else None
    parents = build(rng, n)
    P = piles(parents)
    names = [f"b{i}" for i in range(n)]
    log = []
    def mk(kind, i, k):
        def f(**iops):
            log.append((kind, i, k))
        return f
    def mkpre(i, k):
        def f(**iops):
            H = iops['H']
            log.append(('predo', i, k))
            return (i, k) not in H.block.value
        return f
    first = rng.randrange(n) if rng.random() < 0.5 else 0
    def fun(H, bx, go, do, on, at, be):
        H.cmd = Bag(); H.cmd.value = set()
        H.block = Bag(); H.block.value = set()
        for i in range(n):
            over = None if parents[i] is None else names[parents[i]]
            bx(names[i], over=over, first=(i == first))
            order = [(kind, k) for kind in ('endo', 'rendo', 'exdo', 'rexdo', 'redo', 'afdo') for k in range(2)]
            order += [('predo', 0), ('predo', 1)]
            rng.shuffle(order)
            cnt = {}
            for kind, _ in order:
                k = cnt.get(kind, 0); cnt[kind] = k + 1
                if kind == 'predo':
                    do(mkpre(i, k), nabe='predo')
                else:
                    do(mk(kind, i, k), nabe=kind)
            dests = list(range(n)); rng.shuffle(dests)
            for d in dests:
                go(names[d], f"({i},{d}) in H.cmd.value")
            GO[i] = dests
        do(EndAct, nabe='afdo') if False else None
    GO = {}
    hold = Hold()
    boxer = Boxer(name="fz", hold=hold)
    boxer.make(fun)
    tymist = Tymist(tock=1.0)
    boxer.wind(tymist.tymen())
    rung = boxer.run(tock=1.0)

    def two(kind, i): return [(kind, i, 0), (kind, i, 1)]
    def preseq(boxes, block):
        out = []
        for b in boxes:
            for k in range(2):
                out.append(('predo', b, k))
                if (b, k) in block:
                    return out, False
        return out, True

    # first
    block0 = set()
    if rng.random() < 0.2:
        block0 = {(rng.choice(P[first]), rng.randrange(2))}
    hold.block.value = block0
    try:
        next(rung)
    except StopIteration as ex:
        exp, ok = preseq(P[first], block0)
        assert not ok and ex.value is False, (seed, 'first stop')
        assert log == exp, (seed, log, exp)
        return
    exp, ok = preseq(P[first], block0)
    assert ok
    assert log == exp, (seed, 'first predo', log, exp)
    del log[:]
    hold.block.value = set()
    rung.send(tymist.tyme)
    active = first
    exp = []
    for b in P[first]: exp += two('endo', b)
    for b in P[first]: exp += two('redo', b)
    assert log == exp, (seed, 'first pass', log, exp)

    for step in range(steps):
        del log[:]
        nears = P[active]
        # choose commands
        cmds = set()
        for _ in range(rng.choice([0, 1, 1, 1, 2, 3])):
            cmds.add((rng.choice(nears), rng.randrange(n)))
        block = set()
        for _ in range(rng.choice([0, 0, 1, 2])):
            block.add((rng.randrange(n), rng.randrange(2)))
        ending = rng.random() < 0.05
        hold.cmd.value = cmds
        hold.block.value = block
        if ending:
            hold[("", "boxer", "fz", "end")] = Bag()
            hold[("", "boxer", "fz", "end")].value = True
        tymist.tick()
        try:
            rung.send(tymist.tyme)
        except StopIteration as ex:
            assert ending, (seed, 'unexpected stop')
            exp = []
            for b in reversed(nears): exp += two('exdo', b)
            assert log == exp, (seed, 'end', log, exp)
            assert boxer.box is None
            return
        assert not ending
        # model
        exp = []
        newactive = active
        done = False
        trans = None
        for b in nears:
            exp += two('afdo', b)
            for d in GO[b]:
                if (b, d) in cmds:
                    ex, en, rex, ren = model_exen(nears, d, P[d])
                    ps, ok = preseq(en, block)
                    exp += ps
                    if not ok:
                        continue
                    for x in ex: exp += two('exdo', x)
                    for x in rex: exp += two('rexdo', x)
                    trans = (ren, en)
                    newactive = d
                    done = True
                    break
            if done: break
        if trans:
            for x in trans[0]: exp += two('rendo', x)
            for x in trans[1]: exp += two('endo', x)
        for x in P[newactive]: exp += two('redo', x)
        if log != exp:
            print("MISMATCH seed", seed, "step", step, "parents", parents, "active", active, "cmds", cmds, "block", block)
            print(" got", log); print(" exp", exp)
            raise SystemExit(1)
        assert boxer.box.name == names[newactive]
        active = newactive


def scenarios():
    from hio.base import Doist
    from hio.base.hier import BoxerDoer, Box
    bad = []
    log = []
    def L(tag):
        def f(**iops):
            log.append(tag); return True
        return f
    def acts(do, n):
        for k in ("endo", "exdo", "rendo", "rexdo"):
            do(L(f"{n}.{k}"), nabe=k)

    def fun(H, bx, go, do, on, at, be):
        bx("top"); acts(do, "top")
        bx("mid", "top"); acts(do, "mid")
        do("count", "redo"); do("discount", "exdo")
        go("done", on("count >= 2"))
        bx("b0", "mid"); acts(do, "b0")
        go("next", on("lapse >= 1.0"))
        bx("b1"); acts(do, "b1")
        go("b0", on("lapse >= 1.0"))
        bx("done", over=None); acts(do, "done")
        do("end")
    hop01 = ['b0.exdo', 'mid.rexdo', 'top.rexdo', 'top.rendo', 'mid.rendo', 'b1.endo']
    hop10 = ['b1.exdo', 'mid.rexdo', 'top.rexdo', 'top.rendo', 'mid.rendo', 'b0.endo']
    want = (['top.endo', 'mid.endo', 'b0.endo'] + hop01 + hop10 +
            ['b0.exdo', 'mid.exdo', 'top.exdo', 'done.endo', 'done.exdo'])

    # A: Doist + BoxerDoer to natural end
    ActBase._clearall(); del log[:]
    boxer = Boxer(hold=Hold(), fun=fun)
    Doist(tock=1.0).do(doers=[BoxerDoer(boxer=boxer, tock=1.0)], limit=20.0)
    if log != want: bad.append(("doist", list(log), want))

    # C: re-run same boxer: end flag still set so second run enters first pile then exits it
    ActBase._clearall(); del log[:]
    boxer = Boxer(hold=Hold()); boxer.make(fun)
    ty = Tymist(tock=1.0); boxer.wind(ty.tymen())
    outs = []
    for r in range(2):
        g = boxer.run(tock=1.0); next(g)
        try:
            while True:
                g.send(ty.tyme); ty.tick()
        except StopIteration:
            outs.append(list(log)); del log[:]
    if outs[0] != want: bad.append(("rerun0", outs[0], want))
    w1 = ['top.endo', 'mid.endo', 'b0.endo', 'b0.exdo', 'mid.exdo', 'top.exdo']
    if outs[1] != w1: bad.append(("rerun1", outs[1], w1))

    # D: two boxers, one hold
    ActBase._clearall(); del log[:]
    hold = Hold()
    bs = [Boxer(name=n, hold=hold) for n in ("one", "two")]
    for b in bs: b.make(fun)
    ty = Tymist(tock=1.0)
    for b in bs: b.wind(ty.tymen())
    gs = [b.run(tock=1.0) for b in bs]
    for g in gs: next(g)
    ls = [[], []]; alive = [True, True]
    for i in range(20):
        for j, g in enumerate(gs):
            if not alive[j]: continue
            del log[:]
            try: g.send(ty.tyme)
            except StopIteration: alive[j] = False
            ls[j].extend(log)
        ty.tick()
    for j in (0, 1):
        if ls[j] != want: bad.append(("shared hold %d" % j, ls[j], want))

    # G/I: stray over, Box dests, end from exdo act during transition
    ActBase._clearall(); del log[:]
    def funI(H, bx, go, do, on, at, be):
        H.cmd = Bag()
        stray = Box(name="stray", hold=H)
        a = bx("a", over=stray); acts(do, "a"); do("end", nabe="exdo")
        b = bx("b", over=stray); acts(do, "b")
        c = bx("c", over=b); acts(do, "c")
        bx("d", over=a); acts(do, "d")
        go(c, "H.cmd.value == 'c'")
    hold = Hold(); boxer = Boxer(hold=hold); boxer.make(funI)
    ty = Tymist(tock=1.0); boxer.wind(ty.tymen())
    g = boxer.run(tock=1.0); next(g); g.send(ty.tyme)
    hold.cmd.value = 'c'; ty.tick(); g.send(ty.tyme); ty.tick()
    try: g.send(ty.tyme)
    except StopIteration: pass
    w = ['a.endo', 'd.endo', 'd.exdo', 'a.exdo', 'b.endo', 'c.endo', 'c.exdo', 'b.exdo']
    if log != w: bad.append(("stray/end-in-exdo", list(log), w))

    # at()/be()/exec str declaration order in one context
    ActBase._clearall(); del log[:]
    def funO(H, bx, go, do, on, at, be):
        H.x = Bag(); H.t = Bag(); H.t.value = log
        bx("top")
        at("exdo"); do(L("x0")); do("H.t.value.append('x1')"); be("x.value", "H.t.value.append('x2')"); do(L("x3"))
        at("endo"); do(L("e0")); be("x.value", "H.t.value.append('e1')"); do("H.t.value.append('e2')")
        at("native"); do(L("e3"))
        go("top")
    hold = Hold(); boxer = Boxer(hold=hold); boxer.make(funO)
    ty = Tymist(tock=1.0); boxer.wind(ty.tymen())
    g = boxer.run(tock=1.0); next(g); g.send(ty.tyme); ty.tick(); g.send(ty.tyme)
    w = ['e0', 'e1', 'e2', 'e3', 'x0', 'x1', 'x2', 'x3', 'e0', 'e1', 'e2', 'e3']
    if log != w: bad.append(("declaration order", list(log), w))
    return bad


if __name__ == "__main__":
    import warnings; warnings.simplefilter("ignore")
    N = int(sys.argv[1]) if len(sys.argv) > 1 else 1500
    NMAX = int(sys.argv[2]) if len(sys.argv) > 2 else 9
    for seed in range(N):
        ActBase._clearall()
        run_case(seed, n=random.Random(seed * 7 + 1).randint(1, NMAX), steps=25)
    print(f"differential fuzz: {N} random boxworks x 25 passes all match the statement's model")
    bad = scenarios()
    for name, got, want in bad:
        print("VIOLATION in scenario", name); print("  observed:", got); print("  required:", want)
    if bad:
        sys.exit(1)
    print("integration scenarios: all match")
    print("no violation of C25 reproduced")
    sys.exit(0)

#!/venv/bin/python
"""
C11 demo: Closing a TCP endpoint releases every socket it opened.

Reproduces, on the unchanged worktree, server side connection sockets that
stay open after Server.close() / ServerTls.close():

  A  plain Server : connection replaced by a newer one from the same address
  B  ServerTls    : established connection (.ixes) replaced after new handshake
  C  ServerTls    : still-handshaking connection (.cxes) replaced by a newer one
  D  Server       : accepted sockets still queued in .axes when close() is called

exit 1 if any violation reproduces, 0 if none.
"""
import os
import sys

SRC = '/tmp/seed_C11hunt/src'
CERTS = '/tmp/seed_C11hunt/tests/core/tcp/certs'

if os.environ.get('C11_DEMO_NS') != '1':
    # re-exec inside a private network namespace so fixed ports cannot collide
    env = dict(os.environ, C11_DEMO_NS='1', PYTHONPATH=SRC, PYTHONDONTWRITEBYTECODE='1')
    import subprocess
    try:
        probe = subprocess.run(['unshare', '-n', 'true'], capture_output=True)
        usens = probe.returncode == 0
    except OSError:
        usens = False
    if usens:
        cmd = ['unshare', '-n', 'sh', '-c', 'ip link set lo up; exec "$@"', 'sh',
               sys.executable, '-W', 'ignore::SyntaxWarning', os.path.abspath(__file__)]
    else:
        cmd = [sys.executable, '-W', 'ignore::SyntaxWarning', os.path.abspath(__file__)]
    sys.exit(subprocess.run(cmd, env=env).returncode)

sys.path.insert(0, SRC)
import socket
import ssl
import struct
import time

import hio
assert hio.__file__.startswith(SRC), hio.__file__
from hio.core.tcp import serving

HOST = '127.0.0.1'


def fdOpen(fd):
    """True if descriptor fd of this process is still an open socket"""
    try:
        return os.readlink('/proc/self/fd/%d' % fd).startswith('socket:')
    except OSError:
        return False


def rawClient(port, cport):
    """remote peer that connects from the fixed source address (HOST, cport)"""
    c = socket.socket(socket.AF_INET, socket.SOCK_STREAM)
    c.setsockopt(socket.SOL_SOCKET, socket.SO_REUSEADDR, 1)
    c.bind((HOST, cport))
    c.connect((HOST, port))
    return c


def crash(c):
    """peer dies abruptly: RST, no TIME_WAIT, so the peer may come back from
    the very same (host, port) as a rebooted or restarted peer does"""
    c.setsockopt(socket.SOL_SOCKET, socket.SO_LINGER, struct.pack('ii', 1, 0))
    c.close()


def tlsServer(port):
    server = serving.ServerTls(host=HOST, port=port,
                               keypath=os.path.join(CERTS, 'server_key.pem'),
                               certpath=os.path.join(CERTS, 'server_cert.pem'),
                               cafilepath=os.path.join(CERTS, 'client.pem'),
                               certify=ssl.CERT_NONE)
    assert server.reopen()
    return server


def tlsClient(server, port, cport):
    """TLS peer from fixed source address, handshake driven together with server"""
    c = rawClient(port, cport)
    ctx = ssl.create_default_context(purpose=ssl.Purpose.SERVER_AUTH)
    ctx.check_hostname = False
    ctx.verify_mode = ssl.CERT_NONE
    c.setblocking(False)
    t = ctx.wrap_socket(c, server_side=False, do_handshake_on_connect=False)
    done = False
    for i in range(1000):
        if not done:
            try:
                t.do_handshake()
                done = True
            except (ssl.SSLWantReadError, ssl.SSLWantWriteError):
                pass
        server.serviceConnects()
        if done and not server.cxes:
            break
        time.sleep(0.005)
    assert done
    return t


def report(tag, history, observed, required, bad):
    print("-" * 72)
    print("{0}: {1}".format(tag, "VIOLATION" if bad else "ok"))
    print("  history : " + history)
    print("  observed: " + observed)
    print("  required: " + required)
    return bad


REQ = ("'After a TCP server is closed, its listen socket and every connection "
       "socket it accepted are closed, including TLS connections still "
       "handshaking and connections that were replaced by a newer one from "
       "the same address.'")


def scenarioA():
    port, cport = 6301, 45301
    ca = (HOST, cport)
    server = serving.Server(host=HOST, port=port)
    assert server.reopen()
    c1 = rawClient(port, cport)
    time.sleep(0.05)
    server.service()
    old = server.ixes[ca]  # app keeps handle to its connection like http Requestant does
    oldfd = old.cs.fileno()
    crash(c1)
    c2 = rawClient(port, cport)  # same address comes back
    time.sleep(0.05)
    server.service()  # accepts newer connection from same address, replaces old
    new = server.ixes[ca]
    assert new is not old
    server.close()
    bad = old.cs is not None and fdOpen(oldfd)
    obs = ("after Server.close(): listen ss={0}, newer remoter.cs={1}, REPLACED "
           "remoter.cs={2!r} descriptor {3} still open={4}"
           "".format(server.ss, new.cs, old.cs, oldfd, fdOpen(oldfd)))
    old.close()
    c2.close()
    return report("A plain Server, replaced connection",
                  "Server(127.0.0.1:6301).reopen(); peer connects from 127.0.0.1:45301; "
                  "service(); peer resets; peer reconnects from 127.0.0.1:45301; "
                  "service(); close()", obs, REQ, bad)


def scenarioB():
    port, cport = 6302, 45302
    ca = (HOST, cport)
    server = tlsServer(port)
    t1 = tlsClient(server, port, cport)
    old = server.ixes[ca]
    oldfd = old.cs.fileno()
    crash(t1)
    t2 = tlsClient(server, port, cport)  # new handshake completes, moved to .ixes[ca]
    new = server.ixes[ca]
    assert new is not old
    server.close()
    bad = old.cs is not None and fdOpen(oldfd)
    obs = ("after ServerTls.close(): newer remoter.cs={0}, REPLACED established "
           "remoter.cs={1!r} descriptor {2} still open={3}"
           "".format(new.cs, old.cs, oldfd, fdOpen(oldfd)))
    old.close()
    t2.close()
    return report("B ServerTls, established connection replaced via serviceCxes",
                  "ServerTls(127.0.0.1:6302); TLS peer from 127.0.0.1:45302 handshakes; "
                  "peer resets; TLS peer from 127.0.0.1:45302 handshakes again; close()",
                  obs, REQ, bad)


def scenarioC():
    port, cport = 6303, 45303
    ca = (HOST, cport)
    server = tlsServer(port)
    c1 = rawClient(port, cport)  # tcp connected, TLS hello not sent yet
    time.sleep(0.05)
    server.serviceConnects()
    old = server.cxes[ca]  # handshake in progress
    assert not old.connected and not old.aborted
    oldfd = old.cs.fileno()
    crash(c1)
    c2 = rawClient(port, cport)
    time.sleep(0.05)
    server.serviceConnects()  # serviceAxes overwrites .cxes[ca] before serviceCxes sees abort
    new = server.cxes[ca]
    assert new is not old
    server.close()
    bad = old.cs is not None and fdOpen(oldfd)
    obs = ("after ServerTls.close(): newer handshaking remoter.cs={0}, REPLACED "
           "handshaking remoter.cs={1!r} descriptor {2} still open={3}"
           "".format(new.cs, old.cs, oldfd, fdOpen(oldfd)))
    old.close()
    c2.close()
    return report("C ServerTls, handshaking connection replaced via serviceAxes",
                  "ServerTls(127.0.0.1:6303); peer from 127.0.0.1:45303 tcp connects "
                  "(handshake pending); serviceConnects(); peer resets; peer from "
                  "127.0.0.1:45303 connects again; serviceConnects(); close()",
                  obs, REQ, bad)


def scenarioD():
    port = 6304
    server = serving.Server(host=HOST, port=port)
    assert server.reopen()
    c1 = socket.create_connection((HOST, port))
    c2 = socket.create_connection((HOST, port))
    time.sleep(0.05)
    server.serviceAccepts()  # public Acceptor method, accepts into .axes
    held = [cs for cs, ca in server.axes]
    fds = [cs.fileno() for cs in held]
    assert len(fds) == 2
    server.close()
    still = [fd for cs, fd in zip(held, fds) if cs.fileno() != -1 and fdOpen(fd)]
    bad = bool(still)
    obs = ("after Server.close(): len(.axes)={0}, accepted descriptors {1}, still "
           "open {2}".format(len(server.axes), fds, still))
    for cs in held:
        cs.close()
    server.axes.clear()
    c1.close()
    c2.close()
    return report("D Server, accepted sockets queued in .axes at close",
                  "Server(127.0.0.1:6304).reopen(); two peers connect; "
                  "serviceAccepts(); close()", obs, REQ, bad)


def main():
    results = [scenarioA(), scenarioB(), scenarioC(), scenarioD()]
    print("-" * 72)
    print("violations reproduced: {0} of {1}".format(sum(results), len(results)))
    return 1 if any(results) else 0


if __name__ == '__main__':
    sys.exit(main())

#!/usr/bin/env python
"""C20 adversarial hunt: no violation found.

Runs the strongest attempted scenarios against the UNCHANGED worktree and exits 0
when every one of them satisfies the statement (exit 1 if any violation reproduces).

Run with:
  PYTHONPATH=/tmp/seed_C20hunt/src PYTHONDONTWRITEBYTECODE=1 /venv/bin/python demo.py
Optional real UDP leg (fixed ports, so use a private netns):
  ... unshare -n sh -c 'ip link set lo up; exec "$@"' sh /venv/bin/python demo.py --udp

Scenarios deliberately stay inside the quantified domain and avoid the three known
violations (duplicate after completion, signed non-zeroth gram before its zeroth gram,
base2 unsigned sizes < 33 which is fixed).
"""
import sys, random, itertools, warnings
warnings.simplefilter("ignore")
import hio
assert hio.__file__.startswith('/tmp/seed_C20hunt/src'), hio.__file__
import pysodium
from hio import hioing
from hio.base import doing
from hio.core.memo.memoing import Memoer, AuthMemoer, MemoDex, Keyage
from hio.core.uxd import peermemoing as uxdm
from hio.core.udp import peermemoing as udpm

ZC = [MemoDex.GramZero, MemoDex.GramAuthZero, MemoDex.GramSureZero, MemoDex.GramSureAuthZero]
SIGNED = (MemoDex.GramAuthZero, MemoDex.GramSureAuthZero)
MINSIZE = {(False, False): 33, (False, True): 25, (True, False): 165, (True, True): 124}


def mkkeys(codes="BBDE"):
    keep = {}; vids = []
    for i, c in enumerate(codes):
        seed = bytes([i + 1]) * 32
        vk, sk = pysodium.crypto_sign_seed_keypair(seed)
        raw = vk if c in "BD" else bytes([0x55 + i]) * 32
        vid = Memoer._encodeVID(raw, c)
        keep[vid] = Keyage(qvk=Memoer._encodeQVK(vk), qss=Memoer._encodeQSS(seed))
        vids.append(vid)
    return keep, vids

keep, vids = mkkeys()
violations = []


def deliver(rx, seq, greedy=True):
    rx._echoic = True
    if greedy:
        rx.echos.extend(seq); rx.serviceAllRx()
    else:
        for g in seq:
            rx.echos.append(g); rx.serviceAllRxOnce()
        for _ in range(6):
            rx.serviceAllRxOnce()


def clean(rx):
    return not (rx.rxgs or rx.counts or rx.vids or rx.sources or rx.rxms)


def attack_fuzz(seed=1, n=1500):
    """random codes x curt x sizes x unicode memos x permutation + duplicates + interleave"""
    rng = random.Random(seed)
    alphabet = ["a", "Z", "0", "é", "中", "\U0001F600", "\x00", "\n", "_", "b", "-", "﻿", "￿"]
    for it in range(n):
        code = rng.choice(ZC); curt = rng.choice([False, True]); signed = code in SIGNED
        base = MINSIZE[(signed, curt)]
        size = rng.choice([None, 0, 1, base - 1, base, base + 1, base + rng.randrange(0, 200),
                           rng.randrange(1, 400), 1240, 65535])
        tx = Memoer(code=code, curt=curt, size=size, keep=keep, vid=vids[0]); tx.reopen()
        rx = Memoer(keep=keep, authic=rng.choice([False, signed])); rx.reopen()
        expected = []; seqs = []
        for m in range(rng.randrange(1, 4)):
            ml = rng.choice([1, 1, 2, rng.randrange(1, 30), rng.randrange(1, 400)])
            memo = "".join(rng.choice(alphabet) for _ in range(ml)); src = f"src{m}"
            vv = rng.choice(vids) if (signed and rng.random() < 0.7) else None
            grams = [(bytes(g), src) for g in tx.rend(memo, vv)]
            if any(len(g) > tx.size for g, _ in grams):
                violations.append(("fuzz gram bigger than size", code, curt, size))
            expected.append((memo, src, (vv or vids[0]) if signed else None))
            first = list(range(len(grams))); rng.shuffle(first)
            if signed:  # keep zeroth first (known violation 2 otherwise)
                first = [0] + [i for i in first if i != 0]
            seq = first[:]
            for _ in range(rng.randrange(0, 4)):  # duplicates strictly before completion
                d = rng.randrange(len(grams)); idx = seq.index(d)
                if idx + 1 <= len(seq) - 1:
                    seq.insert(rng.randrange(idx + 1, len(seq)), d)
            seqs.append([grams[i] for i in seq])
        order = []; ptr = [0] * len(seqs)
        while any(p < len(s) for p, s in zip(ptr, seqs)):
            c = rng.choice([i for i in range(len(seqs)) if ptr[i] < len(seqs[i])])
            order.append(seqs[c][ptr[c]]); ptr[c] += 1
        deliver(rx, order, greedy=rng.choice([True, False]))
        if sorted(rx.inbox) != sorted(expected) or not clean(rx):
            violations.append(("fuzz", code, curt, size, [len(e[0]) for e in expected], len(rx.inbox)))


def attack_boundaries():
    """memo byte lengths at zbz-1, zbz, zbz+1, zbz+k*nbz(+-1) at and near every minimum size"""
    for code in ZC:
        for curt in (False, True):
            signed = code in SIGNED; base = MINSIZE[(signed, curt)]
            for size in list(range(base, base + 6)) + [base + 44, base + 45, base + 120]:
                for vid in ([vids[0], vids[2]] if signed else [None]):
                    tx = Memoer(code=code, curt=curt, size=size, keep=keep, vid=vid); tx.reopen()
                    zoz = sum(tx.Sizes[code]); noz = sum(tx.Sizes[tx.Pairs[code]])
                    if curt: zoz = 3 * zoz // 4
                    zbz = tx.size - zoz; nbz = max(1, tx.size - noz)
                    lens = {1, zbz - 1, zbz, zbz + 1, zbz + nbz - 1, zbz + nbz, zbz + nbz + 1, zbz + 3 * nbz + 1}
                    for ml in sorted(l for l in lens if l > 0):
                        memo = ("é" * (ml // 2)) + ("x" * (ml % 2))
                        grams = [(bytes(g), "S") for g in tx.rend(memo)]
                        seq = grams[:1] + grams[:0:-1] if signed else grams[::-1]
                        rx = Memoer(keep=keep, authic=signed); rx.reopen()
                        deliver(rx, seq, greedy=(ml % 2 == 0))
                        if list(rx.inbox) != [(memo, "S", vid)] or not clean(rx):
                            violations.append(("boundary", code, curt, size, ml, len(grams)))


def attack_permutations():
    """exhaustive orders of a 3 gram memo and a 2 gram memo interleaved, plus one duplicate"""
    cnt = 0
    for code in ZC:
        for curt in (False, True):
            signed = code in SIGNED
            tx = Memoer(code=code, curt=curt, size=1, keep=keep, vid=vids[2]); tx.reopen()
            zbz = tx.size - (3 * sum(tx.Sizes[code]) // 4 if curt else sum(tx.Sizes[code]))
            nbz = max(1, tx.size - sum(tx.Sizes[tx.Pairs[code]]))
            m1 = "a" * (zbz + 2 * nbz)
            m2 = ("é" + "b" * (zbz + nbz - 2)) if zbz + nbz >= 2 else "b" * (zbz + nbz)
            g1 = [(bytes(g), "s1") for g in tx.rend(m1)]
            g2 = [(bytes(g), "s2") for g in tx.rend(m2, vids[3] if signed else None)]
            assert len(g1) == 3 and len(g2) == 2
            items = [(1, i) for i in range(3)] + [(2, i) for i in range(2)]
            exp = sorted([(m1, "s1", vids[2] if signed else None), (m2, "s2", vids[3] if signed else None)])
            for dup in items:
                for perm in set(itertools.permutations(items + [dup])):
                    ok = True
                    for m, n in ((1, 3), (2, 2)):
                        seen = set(); done = False
                        for mm, i in perm:
                            if mm != m: continue
                            if done: ok = False            # duplicate after completion: known 1
                            if signed and i != 0 and 0 not in seen: ok = False  # known 2
                            seen.add(i); done = done or len(seen) == n
                    if not ok: continue
                    cnt += 1
                    rx = Memoer(keep=keep); rx.reopen()
                    deliver(rx, [(g1 if m == 1 else g2)[i] for m, i in perm], greedy=(cnt % 2 == 0))
                    if sorted(rx.inbox) != exp or not clean(rx):
                        violations.append(("perm", code, curt, perm, sorted(rx.inbox)))
    return cnt


def attack_reuse(n=150):
    """one sender reused with code/curt/size changed between memos, all memos interleaved into one
    receiver that is reopened half way"""
    rng = random.Random(5)
    for it in range(n):
        tx = Memoer(keep=keep, vid=vids[0]); tx.reopen()
        rx = Memoer(keep=keep); rx.reopen()
        exp = []; allg = []
        for k in range(6):
            op = rng.randrange(3)
            if op == 0: tx.code = rng.choice(ZC)
            elif op == 1: tx.curt = rng.choice([True, False])
            else: tx.size = rng.choice([None, 1, 30, 100, 130, 170, 400])
            signed = tx.code in SIGNED
            memo = "".join(rng.choice("aé中\U0001F600﻿\x00") for _ in range(rng.randrange(1, 300)))
            v = rng.choice(vids)
            gs = [(bytes(g), f"s{k}") for g in tx.rend(memo, v)]
            if any(len(g) > tx.size for g, _ in gs):
                violations.append(("reuse gram bigger than size", it, k))
            exp.append((memo, f"s{k}", v if signed else None))
            rest = gs[1:]; rng.shuffle(rest)
            if signed: allg.append(gs[:1] + rest)
            else: gs = gs[:]; rng.shuffle(gs); allg.append(gs)
        ptr = [0] * len(allg); seq = []
        while any(p < len(s) for p, s in zip(ptr, allg)):
            c = rng.choice([i for i in range(len(allg)) if ptr[i] < len(allg[i])])
            seq.append(allg[c][ptr[c]]); ptr[c] += 1
        half = len(seq) // 2
        deliver(rx, seq[:half], greedy=False)
        rx.reopen()
        deliver(rx, seq[half:], greedy=True)
        if sorted(rx.inbox) != sorted(exp) or not clean(rx):
            violations.append(("reuse", it, len(rx.inbox), len(exp)))


def attack_authmemoer_selfloop():
    """AuthMemoer talking to itself through memoit + serviceAll / serviceAllOnce"""
    for curt in (False, True):
        for size in (None, 1, 170):
            p = AuthMemoer(keep=keep, vid=vids[1], curt=curt, size=size, echoic=True); p.reopen()
            memos = ["m%d" % i + "中" * (i * 37) for i in range(5)]
            for i, m in enumerate(memos):
                p.memoit(m, "dst%d" % i, vids[i % 4] if i % 2 else None)
            for _ in range(4000):
                p.serviceAllOnce() if size == 1 else p.serviceAll()
                if len(p.inbox) == len(memos): break
            for _ in range(3): p.serviceAll()
            exp = [(m, "dst%d" % i, vids[i % 4] if i % 2 else vids[1]) for i, m in enumerate(memos)]
            if list(p.inbox) != exp or not clean(p):
                violations.append(("authmemoer", curt, size, len(p.inbox)))


def attack_gramcount_limit():
    """exactly MaxGramCount grams is accepted and reassembles, one byte more is refused"""
    class Tiny(Memoer):
        MaxGramCount = 70
    for curt in (False, True):
        tx = Tiny(size=1, curt=curt); tx.reopen()
        zbz = tx.size - (24 if curt else 32); nbz = max(1, tx.size - 32)
        memo = "q" * (nbz * 69 + zbz)
        gs = [(bytes(g), None) for g in tx.rend(memo)]
        rx = Memoer(); rx.reopen(); deliver(rx, gs[::-1])
        if list(rx.inbox) != [(memo, None, None)] or len(gs) != 70:
            violations.append(("gramcount", curt, len(gs)))
        try:
            tx.rend(memo + "q"); violations.append(("gramcount over limit accepted", curt))
        except hioing.MemoerError:
            pass


def attack_transport(kind):
    """real sockets; uxd is reliable so every memo must arrive (udp may drop under burst, so the udp
    leg only checks that whatever is delivered is exact and delivered once)"""
    rng = random.Random(7)
    for code in ZC:
        for curt in (False, True):
            for size in (None, 1, 200):
                signed = code in SIGNED
                if kind == "udp":
                    a = udpm.PeerMemoer(name="a", ha=("127.0.0.1", 57001), code=code, curt=curt, size=size, keep=keep, vid=vids[0])
                    b = udpm.PeerMemoer(name="b", ha=("127.0.0.1", 57002), keep=keep, authic=signed)
                else:
                    a = uxdm.PeerMemoer(name="a", temp=True, code=code, curt=curt, size=size, keep=keep, vid=vids[0])
                    b = uxdm.PeerMemoer(name="b", temp=True, keep=keep, authic=signed)
                assert a.reopen() and b.reopen()
                dst = b.ha if kind == "udp" else b.path; src = a.ha if kind == "udp" else a.path
                memos = ["%d" % i + "".join(rng.choice("aé中\U0001F600\x00z") for _ in range(rng.choice([1, 50, 2000])))
                         for i in range(4)]
                for m in memos: a.memoit(m, dst)
                for _ in range(20000):
                    a.serviceAllTx(); b.serviceAllRx()
                    if not a.txms and not a.txgs and a.txbs[1] is None and len(b.inbox) >= len(memos): break
                for _ in range(3): b.serviceAllRx()
                exp = [(m, src, vids[0] if signed else None) for m in memos]
                got = list(b.inbox)
                if kind == "uxd":
                    bad = got != exp
                else:
                    bad = any(g not in exp for g in got) or len(set(got)) != len(got)
                if bad:
                    violations.append((kind, code, curt, size, len(got)))
                a.close(); b.close()


def attack_doist_uxd():
    """Doist driven PeerMemoerDoers, both directions at once, different codes and encodings"""
    a = uxdm.PeerMemoer(name="a", temp=True, code=MemoDex.GramSureAuthZero, curt=True, size=130, keep=keep, vid=vids[0])
    b = uxdm.PeerMemoer(name="b", temp=True, code=MemoDex.GramZero, curt=False, size=40, keep=keep)
    doist = doing.Doist(tock=0.01, real=False, limit=50.0)
    deeds = doist.enter(doers=[uxdm.PeerMemoerDoer(peer=a), uxdm.PeerMemoerDoer(peer=b)])
    doist.recur(deeds)
    ma = ["A%d" % i + "中é" * (50 * i + 1) for i in range(4)]
    mb = ["B%d" % i + "\U0001F600" * (40 * i + 1) for i in range(4)]
    for m in ma: a.memoit(m, b.path)
    for m in mb: b.memoit(m, a.path)
    for _ in range(3000):
        doist.recur(deeds)
        if len(a.inbox) == 4 and len(b.inbox) == 4: break
    for _ in range(5): doist.recur(deeds)
    if list(b.inbox) != [(m, a.path, vids[0]) for m in ma] or list(a.inbox) != [(m, b.path, None) for m in mb]:
        violations.append(("doist uxd", len(a.inbox), len(b.inbox)))
    doist.exit(deeds)


if __name__ == "__main__":
    steps = [("fuzz", attack_fuzz), ("boundaries", attack_boundaries), ("permutations", attack_permutations),
             ("reuse", attack_reuse), ("authmemoer self loop", attack_authmemoer_selfloop),
             ("gram count limit", attack_gramcount_limit), ("uxd transport", lambda: attack_transport("uxd")),
             ("doist uxd", attack_doist_uxd)]
    if "--udp" in sys.argv:
        steps.append(("udp transport", lambda: attack_transport("udp")))
    for name, fn in steps:
        before = len(violations)
        fn()
        print(f"{name:22s}: {'ok' if len(violations) == before else 'VIOLATION'}")
    for v in violations[:20]:
        print("VIOLATION", v)
    if violations:
        print("C20 violated: statement requires every memo reconstructed exactly once with same text, source, signer id")
        sys.exit(1)
    print("no C20 violation reproduced")
    sys.exit(0)

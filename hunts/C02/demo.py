#!/venv/bin/python
"""
C02 demo: forced exits must be nested (reverse enter order, children before
parent) whenever a scheduler (Doist / DoDoer) stops with doers still alive.

Run with:
  PYTHONPATH=/tmp/seed_C02hunt/src PYTHONDONTWRITEBYTECODE=1 /venv/bin/python demo.py

Exit status 1 when a violation reproduces, 0 otherwise.

Violation shown (one root cause, three shapes):
  A doer that is removed with .remove() WHILE IT IS THE ONE RUNNING (it removes
  itself, or a child removes its own parent DoDoer) is dropped from .doers but,
  as upstream's own test_doist_remove_own_doer / test_dodoer_remove_own_doer
  document, its deed stays alive and keeps running. When the scheduler later
  stops (limit, exception), .exit() restores "enter order" by ranking deeds with
  .doers.index(); a deed whose doer is no longer in .doers is ranked
  len(.doers), i.e. as if it had been entered LAST, so it is force-exited FIRST
  even when it was entered before doers that are still alive.
"""
import sys
import warnings
warnings.simplefilter("ignore")

import hio
assert hio.__file__.startswith('/tmp/seed_C02hunt/src'), hio.__file__
from hio.base import doing

LOG = []


class L(doing.Doer):
    """Leaf doer that logs enter/exit and can run a hook in recur"""
    def __init__(self, name, onrecur=None, **kw):
        super().__init__(**kw)
        self.name = name
        self.onrecur = onrecur
        self.n = 0

    def enter(self, *, temp=None):
        LOG.append(('enter', self.name))

    def recur(self, tyme):
        self.n += 1
        if self.onrecur:
            return self.onrecur(self)
        return False

    def exit(self):
        LOG.append(('exit', self.name))


class LD(doing.DoDoer):
    """DoDoer that logs its own enter and its own exit (after children closed)"""
    def __init__(self, name, **kw):
        super().__init__(**kw)
        self.name = name

    def enter(self, doers=None, *, temp=None):
        if doers is None:
            LOG.append(('enter', self.name))
        return super().enter(doers=doers, temp=temp)

    def exit(self, deeds=None):
        super().exit(deeds=deeds)
        if deeds is None:
            LOG.append(('exit', self.name))


def forced(log, start):
    """names exited at or after log index start"""
    return [n for k, n in log[start:] if k == 'exit']


def report(title, history, log, observed, required):
    bad = observed != required
    print("=" * 72)
    print(title)
    print("  input/history :", history)
    print("  event log     :", log)
    print("  observed forced exit order :", observed)
    print("  required (reverse of enter) :", required)
    print("  ->", "VIOLATION" if bad else "ok")
    return bad


def scenario_doist_self_remove_limit():
    """Doist [A, B, C]; B removes itself in its first recur; run hits limit"""
    LOG.clear()
    doist = doing.Doist(tock=1.0, limit=3.0)

    def rm(d):
        if d.n == 1:
            doist.remove([d])  # same call upstream test_doist_remove_own_doer makes
        return False
    A, B, C = L('A'), L('B', onrecur=rm), L('C')
    doist.do(doers=[A, B, C])
    log = list(LOG)
    start = 3  # three enters, then nothing but forced exits
    assert B.n == 3  # B kept running after remove as upstream documents
    return report("V1a Doist: doer removes itself, run stops at limit",
                  "Doist(tock=1, limit=3).do(doers=[A,B,C]); B.recur#1 calls "
                  "doist.remove([B]); B keeps recurring (n=%d)" % B.n,
                  log, forced(log, start), ['C', 'B', 'A'])


def scenario_dodoer_self_remove_exception():
    """DoDoer D [c1,c2,c3] under Doist; c1 removes itself cycle 1; c3 raises cycle 2"""
    LOG.clear()

    def rm(d):
        if d.n == 1:
            D.remove([d])
        return False

    def boom(d):
        if d.n == 2:
            raise ValueError("boom in c3.recur")
        return False
    c1, c2, c3 = L('c1', onrecur=rm), L('c2'), L('c3', onrecur=boom)
    D = LD('D', doers=[c1, c2, c3])
    doist = doing.Doist(tock=1.0, limit=5.0)
    try:
        doist.do(doers=[D])
    except ValueError:
        pass
    log = list(LOG)
    # c3 exits by itself (abort), then D force exits c1,c2, then D itself
    obs = [n for n in forced(log, 4) if n != 'c3']
    return report("V1b DoDoer: child removes itself, sibling raises in recur later",
                  "Doist.do([D]); D=DoDoer([c1,c2,c3]); c1.recur#1 calls D.remove([c1]); "
                  "c3.recur#2 raises ValueError",
                  log, obs, ['c2', 'c1', 'D'])


def scenario_child_removes_parent():
    """Doist [D, Y, Z]; child of D removes D from the doist; stop at limit"""
    LOG.clear()
    doist = doing.Doist(tock=1.0, limit=3.0)

    def rm(d):
        if d.n == 1:
            doist.remove([D])
        return False
    c1, c2 = L('c1', onrecur=rm), L('c2')
    D = LD('D', doers=[c1, c2])
    Y, Z = L('Y'), L('Z')
    doist.do(doers=[D, Y, Z])
    log = list(LOG)
    return report("V1c Doist: child removes its own (running) parent DoDoer, stop at limit",
                  "Doist(limit=3).do([D,Y,Z]); D=DoDoer([c1,c2]); c1.recur#1 calls "
                  "doist.remove([D]); D and its children keep running (c1.n=%d)" % c1.n,
                  log, forced(log, 5), ['Z', 'Y', 'c2', 'c1', 'D'])


def info_bad_tock():
    """Informational only (borderline domain): not counted in exit status"""
    LOG.clear()

    def mk(name, bad=None):
        @doing.doize()
        def f(tymth=None, tock=0.0, **opts):
            LOG.append(('enter', name))
            try:
                n = 0
                while True:
                    n += 1
                    if bad is not None and n == 2:
                        yield bad
                    else:
                        yield
            finally:
                LOG.append(('exit', name))
        return f
    A, B, C = mk('A'), mk('B', bad='soon'), mk('C')
    doist = doing.Doist(tock=1.0, limit=5.0)
    held = None
    try:
        doist.do(doers=[A, B, C])
    except TypeError as ex:
        held = ex  # keep traceback alive like a logging caller would
    exited = [n for k, n in LOG if k == 'exit']
    print("=" * 72)
    print("INFO (borderline, not counted): generator doer B yields non numeric "
          "tock 'soon' from recur")
    print("  Doist.do raised:", repr(held))
    print("  exited when do() raised:", exited, "(B still alive: %s)" % ('B' not in exited))
    del held


def main():
    bad = 0
    bad += scenario_doist_self_remove_limit()
    bad += scenario_dodoer_self_remove_exception()
    bad += scenario_child_removes_parent()
    info_bad_tock()
    print("=" * 72)
    print("violations reproduced:", bad)
    return 1 if bad else 0


if __name__ == "__main__":
    sys.exit(main())

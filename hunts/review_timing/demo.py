"""Adversarial review of 38a622e (Timer.restart drift repair) - reproductions.

Run:  PYTHONPATH=/tmp/review_timing/src PYTHONDONTWRITEBYTECODE=1 /venv/bin/python seed_out/demo.py
Deterministic: the system clock / event loop clock are replaced by exact
(Fraction based) fake clocks, nothing sleeps for real and no socket is opened.
Exit status 1 when any problem reproduces, else 0.
"""
import sys, time, math, asyncio, selectors, warnings
from fractions import Fraction as F
warnings.simplefilter("ignore")
import hio
assert hio.__file__.startswith('/tmp/review_timing/src'), hio.__file__
from hio.base import doing
from hio.help import timing

found = []

def report(tag, input_, observed, expected, bad):
    print(f"[{tag}] {'REPRODUCED' if bad else 'not reproduced'}")
    print(f"    input:    {input_}")
    print(f"    observed: {observed}")
    print(f"    expected: {expected}")
    if bad:
        found.append(tag)


def cycler(record):
    def doer(tymth=None, tock=0.0, **opts):
        yield 0.0  # enter
        while True:
            record()  # start of this doist cycle
            yield 0.0
    doer.tock = 0.0; doer.done = None; doer.opts = {}
    return doer


# ---------------------------------------------------------------- problem 1
# Doist.ado() / AsyncTimer still re-derive the duration from the rounded ._stop
class VSel(selectors.DefaultSelector):
    """selector that advances virtual loop time instead of blocking"""
    clk = None
    def select(self, timeout=None):
        if timeout and timeout > 0:
            self.clk[0] += F(timeout)
        return super().select(0)

class VLoop(asyncio.SelectorEventLoop):
    """event loop on an exact virtual monotonic clock that starts at t0"""
    def __init__(self, t0):
        self.clk = [F(t0)]
        sel = VSel(); sel.clk = self.clk
        super().__init__(sel)
    def time(self):
        return float(self.clk[0])

def run_ado(tock, t0, cycles):
    loop = VLoop(t0)
    asyncio.set_event_loop(loop)
    starts = []
    doist = doing.Doist(tock=tock, real=True, limit=tock * cycles)
    try:
        loop.run_until_complete(doist.ado(doers=[cycler(lambda: starts.append(loop.clk[0]))]))
    finally:
        loop.close()
        asyncio.set_event_loop(None)
    return starts

def problem1():
    t0, tock, n = 1.0e7, 0.0001, 5000   # loop.time() == time.monotonic() after 116 days up
    s = run_ado(tock, t0, n)
    early = max(F(tock) * k - (m - s[0]) for k, m in enumerate(s))
    q = math.ulp(t0)
    # same thing straight on the timer, no scheduler
    class L:  # stand in for the running loop
        now = t0
        def time(self): return self.now
    real = asyncio.get_event_loop
    asyncio.get_event_loop = lambda: L()
    try:
        at = timing.AsyncTimer(duration=tock); at.start()
        first = at._start
        for k in range(n):
            at.restart()
        tdrift = (F(first) + F(tock) * (n + 1)) - F(at._stop)
    finally:
        asyncio.get_event_loop = real
    bad = early > q  # more than one quantum of the loop clock = accumulated, not rounding
    report("P1 AsyncTimer/Doist.ado still drift (variant not repaired by 38a622e)",
           f"Doist(tock={tock}, real=True).ado() on an event loop whose monotonic clock reads {t0:g} s, {n} cycles",
           f"cycle k starts up to {float(early):.3e} s before k tocks elapsed ({float(early / F(q)):.0f} loop clock quanta, "
           f"{float(early / (F(tock) * n)) * 1e6:.2f} ppm, grows linearly); AsyncTimer deadline after {n} restart() is "
           f"{float(tdrift):.3e} s before start+k*tock",
           f"never earlier than k tocks by more than the clock quantum {q:.2e} s (as Timer/MonoTimer do since 38a622e)",
           bad)


# ---------------------------------------------------------------- problem 2
# do(): deadlines are rounded to nearest so a cycle may start before k tocks
class Clock:
    def __init__(self, t0):
        self.t = F(t0)
    def time(self):
        return float(self.t)
    def sleep(self, x):
        assert x >= 0
        self.t += F(x)

def run_do(tock, t0, cycles):
    clk = Clock(t0)
    rt, rs = time.time, time.sleep
    time.time, time.sleep = clk.time, clk.sleep
    try:
        starts = []
        doist = doing.Doist(tock=tock, real=True, limit=tock * cycles)
        doist.do(doers=[cycler(lambda: starts.append(clk.t))])
    finally:
        time.time, time.sleep = rt, rs
    return starts

def problem2():
    t0, n = 1700000000.123, 2000
    rows = []
    worst = F(0)
    for tock in (0.1, 0.005, 0.7):
        s = run_do(tock, t0, n)
        early = max(F(tock) * k - (m - s[0]) for k, m in enumerate(s))
        first = next((k for k, m in enumerate(s) if F(tock) * k - (m - s[0]) > 0), None)
        rows.append(f"tock={tock}: worst {float(early):.3e} s early, first early cycle k={first}")
        worst = max(worst, early)
    report("P2 do() cycles start up to half a clock quantum before k tocks (deadline rounded to nearest, not up)",
           f"Doist(tock=T, real=True).do(), exact fake time.time()/time.sleep() at epoch {t0!r} (no overshoot), {n} cycles",
           "; ".join(rows) + " (bounded, does not grow; before 38a622e tock 0.005 and 0.7 were never early, only late)",
           "k-th cycle starts no earlier than k tocks after the run started (C07), i.e. 0 s early",
           worst > 0)


if __name__ == "__main__":
    problem1()
    problem2()
    print("problems reproduced:", found if found else "none")
    sys.exit(1 if found else 0)

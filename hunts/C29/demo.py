#!/venv/bin/python
"""
C29 demo: a temp Filer that is reopened abandons its earlier temp directory.

Run with:
  PYTHONPATH=/tmp/seed_C29hunt/src PYTHONDONTWRITEBYTECODE=1 /venv/bin/python seed_out/demo.py

Statement clause under test:
  "... every directory or file the Filer creates or deletes lies inside its own
   head directory (the temp directory when temp). Closing with clear removes
   what it created and nothing outside its own path."
  (title: "... temp resources are removed")

Every scenario runs with a private TMPDIR so only directories made by this
script are ever looked at or removed.  Exit 1 when a violation reproduces.
"""
import os
import sys
import shutil
import warnings

warnings.simplefilter("ignore")

SB = "/tmp/c29demo_%d" % os.getpid()        # private sandbox
TMP = os.path.join(SB, "t")                 # private temp head dir
os.makedirs(TMP)
os.makedirs(os.path.join(SB, "home"))
os.environ["TMPDIR"] = TMP                  # before hio import, TempHeadDir is
os.environ["HOME"] = os.path.join(SB, "home")  # computed at class creation

import hio  # noqa: E402
assert hio.__file__.startswith("/tmp/seed_C29hunt/src"), hio.__file__
from hio.base import filing, Tymist  # noqa: E402
assert filing.Filer.TempHeadDir == TMP, filing.Filer.TempHeadDir


def tree(top):
    out = []
    for root, dirs, files in os.walk(top):
        for x in dirs + files:
            out.append(os.path.relpath(os.path.join(root, x), top))
    return sorted(out)


def leftovers():
    """temp head dirs still present in the private temp dir"""
    return sorted(os.listdir(TMP))


def wipe():
    for x in os.listdir(TMP):
        shutil.rmtree(os.path.join(TMP, x), ignore_errors=True)


failures = []


def report(title, history, made, left):
    print("=" * 72)
    print(title)
    print("  history :", history)
    print("  temp dirs the Filer created :", made)
    if left:
        print("  OBSERVED after final close(clear=True): still on disk ->")
        for d in left:
            print("     ", os.path.join(TMP, d), tree(os.path.join(TMP, d)))
        print("  REQUIRED: 'Closing with clear removes what it created' /"
              " 'temp resources are removed'")
        failures.append(title)
    else:
        print("  ok: nothing left in temp head dir")
    wipe()


# ---------------------------------------------------------------- scenario 1
def s1():
    made = []
    filer = filing.Filer(name="x", temp=True)          # opens, mkdtemp #1
    made.append(filer.path)
    filer.reopen()                                     # defaults: clear=False reuse=False
    made.append(filer.path)                            # mkdtemp #2, #1 abandoned
    filer.close(clear=True)
    report("S1 plain Filer(temp=True): reopen() then close(clear=True)",
           "Filer(name='x', temp=True); .reopen(); .close(clear=True)",
           made, leftovers())


# ---------------------------------------------------------------- scenario 2
def s2():
    made = []
    filer = filing.Filer(name="x", temp=True, filed=True)
    made.append(filer.path)
    filer.close()                                      # plain close, no clear
    doer = filing.FilerDoer(filer=filer)
    doer.enter()                                       # not opened -> filer.reopen(temp=None)
    made.append(filer.path)
    doer.exit()                                        # filer.close(clear=filer.temp)
    report("S2 FilerDoer: close(); enter(); exit() on a temp filed Filer",
           "Filer(name='x', temp=True, filed=True); .close(); "
           "FilerDoer.enter(); FilerDoer.exit()",
           made, leftovers())


# ---------------------------------------------------------------- scenario 3
def s3():
    from hio.base.hier import Hog, Hold, Bag
    Hog._clearall()
    made = []
    tymist = Tymist()
    boxer = "BoxerTest"
    iops = dict(_boxer=boxer, _box="top")
    hold = Hold()
    tk = hold.tokey(("", "boxer", boxer, "tyme"))
    hold[tk] = Bag()
    hold[tk].value = tymist.tyme
    hog = Hog(name="rat", iops=iops, hold=hold, temp=True, flushForce=True,
              cycleCount=2, cycleSize=1)               # rotate on every log
    made.append(hog.path)
    for i in range(3):
        hog()                                          # log -> Hog.cycle -> self.reopen()
        if hog.path not in made:
            made.append(hog.path)
        tymist.tick()
        hold[tk].value = tymist.tyme
    hog.close(clear=True)
    report("S3 Hog (Filer subclass) temp log with rotation: each cycle() "
           "calls reopen()",
           "Hog(name='rat', temp=True, cycleCount=2, cycleSize=1); hog() x3; "
           ".close(clear=True)",
           made, leftovers())


# ---------------------------------------------------------------- scenario 4
def s4():
    try:
        from hio.base import during
    except Exception as ex:   # lmdb missing
        print("S4 skipped:", ex)
        return
    made = []
    duror = during.Duror(name="db", temp=True)
    made.append(duror.path)
    duror.reopen()
    made.append(duror.path)
    duror.close(clear=True)
    report("S4 Duror (lmdb Filer subclass) temp: reopen() then close(clear=True)",
           "Duror(name='db', temp=True); .reopen(); .close(clear=True)",
           made, leftovers())


# ---------------------------------------------------------------- scenario 5
def s5():
    made = []
    filer = filing.Filer(name="x", temp=True)
    made.append(filer.path)
    filer.reopen(temp=False, headDirPath=os.path.join(SB, "head5"))
    made.append(filer.path)
    filer.close(clear=True)
    report("S5 temp Filer switched to persistent by reopen(temp=False)",
           "Filer(name='x', temp=True); .reopen(temp=False, headDirPath=H); "
           ".close(clear=True)",
           made, leftovers())


# ------------------------------------------------ side observations (not counted)
def side():
    print("=" * 72)
    print("Side observations (NOT counted: the statement as written does not "
          "clearly forbid them)")
    # a) clean + extensioned persistent Filer: remake rmtree's the whole parent
    head = os.path.join(SB, "headA")
    other = filing.Filer(name="other", headDirPath=head, clean=True, filed=True)
    other.file.write("precious")
    other.close()
    f = filing.Filer(name="db", headDirPath=head, clean=True, extensioned=True)
    with open(f.path, "w") as fo:      # caller puts its file at the extensioned path
        fo.write("data")
    f.close()
    before = tree(head)
    f2 = filing.Filer(name="db", headDirPath=head, clean=True, extensioned=True)
    after = tree(head)
    f2.close(clear=True)
    print("  a) persistent clean+extensioned reopen: before", before, "after", after,
          "(sibling Filer's other.text removed, but still inside head dir)")
    # b) alt fallback creates in ~/.hio, outside the given headDirPath
    head = os.path.join(SB, "headB")
    a = filing.Filer(name="db.text", headDirPath=head, filed=True)
    a.close()
    b = filing.Filer(name="db.text/sub", headDirPath=head)
    print("  b) name clash -> OSError -> alt fallback: headDirPath", b.headDirPath,
          "path", b.path, "(documented fallback)")
    b.close(clear=True)


try:
    for fn in (s1, s2, s3, s4, s5):
        try:
            fn()
        except Exception as ex:
            print("scenario", fn.__name__, "raised", repr(ex))
            raise
    side()
finally:
    shutil.rmtree(SB, ignore_errors=True)

print("=" * 72)
if failures:
    print("VIOLATION reproduced (one root cause: reopen abandons temp dir) in %d histories:" % len(failures))
    for t in failures:
        print("  -", t)
    sys.exit(1)
print("no violation reproduced")
sys.exit(0)

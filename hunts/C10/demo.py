#!/venv/bin/python
"""
C10 demo: a peer RST that lands just after the TCP connection is established
(after hio saw the socket as connected, before hio finished adopting it)
escapes servicing.

  S1  ServerTls.service()  deterministic schedule  -> ConnectionResetError from RemoterTls.wrap()
  S2  ServerTls.service()  free running peer process (connect, RST)       -> same
  S3  ClientTls.service()  free running peer process (accept, RST)        -> ConnectionResetError from ClientTls.wrap()
  S4  Client.service()     free running peer process (accept, RST)        -> OSError(ENOTCONN) from Client.accept()

Run:  PYTHONPATH=/tmp/seed_C10hunt/src PYTHONDONTWRITEBYTECODE=1 /venv/bin/python seed_out/demo.py
(re-executes itself inside a private network namespace)
exit 1 if any violation reproduces, else 0
"""
import sys, os

ROOT = '/tmp/seed_C10hunt'
if os.environ.get('C10_IN_NETNS') != '1':
    env = dict(os.environ, C10_IN_NETNS='1', PYTHONPATH=ROOT + '/src', PYTHONDONTWRITEBYTECODE='1')
    os.execvpe('unshare', ['unshare', '-n', 'sh', '-c', 'ip link set lo up; exec "$@"', 'sh',
                           sys.executable, '-W', 'ignore', os.path.abspath(__file__)] + sys.argv[1:], env)

import socket, struct, time, errno, ssl, random, traceback, collections, signal

import hio
assert hio.__file__.startswith(ROOT + '/src'), hio.__file__
from hio.core import tcp
from hio.base import tyming

CERTS = ROOT + '/tests/core/tcp/certs'
SKW = dict(keypath=CERTS + '/server_key.pem', certpath=CERTS + '/server_cert.pem',
           cafilepath=CERTS + '/client.pem', certify=ssl.CERT_NONE)
CKW = dict(keypath=CERTS + '/client_key.pem', certpath=CERTS + '/client_cert.pem',
           cafilepath=CERTS + '/server.pem', certify=ssl.CERT_NONE, hostify=False,
           certedhost='localhost')
RACE_SECS = float(os.environ.get('C10_RACE_SECS', '20'))

REQUIRED = ("'Whenever a connection fails at the socket level (peer reset or close, ...) servicing "
            "that client or server does not raise. The affected connection is marked cut off (or "
            "aborted, for a handshake in progress), and other connections on the same server keep "
            "being serviced normally.'")


def rst(sock):
    """real TCP RST: close with SO_LINGER 0"""
    sock.setsockopt(socket.SOL_SOCKET, socket.SO_LINGER, struct.pack('ii', 1, 0))
    sock.close()


def where(ex):
    """innermost frame inside src/hio of traceback of ex"""
    loc = '?'
    for fs in traceback.extract_tb(ex.__traceback__):
        if '/src/hio/' in fs.filename:
            loc = "%s:%d %s" % (fs.filename.replace(ROOT + '/', ''), fs.lineno, fs.name)
    return loc


def s1_servertls_deterministic():
    """
    ServerTls with an established bystander TLS connection (gamma).
    A raw peer connects and sends a real RST exactly while the server is adopting
    the accepted socket: after serviceAxes' guarded getpeername() succeeded,
    before RemoterTls.wrap(). The schedule is pinned with the only caller supplied
    callable that runs in that window: the tymth clock closure (read by the
    Remoter's Tymer when it is created). The RST itself is a real one from a real socket.
    """
    print("S1: ServerTls, peer connects then RSTs while the server adopts the accepted socket")
    port = 7301
    tymist = tyming.Tymist()
    state = dict(armed=False, peer=None, fired=False)
    inner = tymist.tymen()

    def tymth():  # clock closure handed to the server, also pins the schedule
        if state['armed'] and state['peer'] is not None:
            state['armed'] = False
            rst(state['peer'])
            state['fired'] = True
            time.sleep(0.002)
        return inner()

    bad = False
    with tcp.openServer(cls=tcp.ServerTls, tymth=tymth, ha=("127.0.0.1", port), **SKW) as server, \
         tcp.openClient(cls=tcp.ClientTls, tymth=tymist.tymen(), ha=("127.0.0.1", port), **CKW) as gamma:
        t0 = time.time()
        while not (gamma.connected and len(server.ixes) >= 1):
            gamma.service(); server.service(); time.sleep(0.002)
            assert time.time() - t0 < 10
        gix = server.ixes[gamma.ca]

        gamma.tx(b'bystander data'); gamma.serviceSends(); time.sleep(0.01)  # waiting at server
        peer = socket.socket(); peer.connect(("127.0.0.1", port)); time.sleep(0.01)
        state['peer'] = peer; state['armed'] = True
        raised = None
        try:
            server.service()
        except Exception as ex:
            raised = ex
        print("    RST sent in window:", state['fired'])
        if raised is not None:
            bad = True
            print("    OBSERVED: server.service() raised %r at %s" % (raised, where(raised)))
            print("    OBSERVED: bystander connection in that pass: rxbs=%r (its data was waiting, "
                  "not serviced)" % bytes(gix.rxbs))
        else:
            print("    server.service() did not raise; bystander rxbs=%r cxes=%d" %
                  (bytes(gix.rxbs), len(server.cxes)))
            if bytes(gix.rxbs) != b'bystander data':
                bad = True
                print("    OBSERVED: bystander not serviced")
        # follow up passes
        try:
            for i in range(20):
                server.service(); gamma.service(); time.sleep(0.001)
            if server.cxes:
                print("    OBSERVED: %d handshakes still pending for a reset peer" % len(server.cxes))
                bad = True
        except Exception as ex:
            bad = True
            print("    OBSERVED: follow up server.service() raised %r at %s" % (ex, where(ex)))
    print("    REQUIRED:", REQUIRED)
    print("    ->", "VIOLATION" if bad else "ok")
    return bad


def fork_peer(fn):
    pid = os.fork()
    if pid == 0:
        try:
            fn()
        except BaseException:
            pass
        finally:
            os._exit(0)
    return pid


def spin(d):
    t0 = time.perf_counter()
    while time.perf_counter() - t0 < d:
        pass


def s2_servertls_race():
    print("S2: ServerTls service loop, separate peer process doing connect -> RST (free running)")
    port = 7302
    out = collections.Counter(); first = None; n = 0
    with tcp.openServer(cls=tcp.ServerTls, ha=("127.0.0.1", port), **SKW) as server:
        def peer():
            while True:
                s = socket.socket()
                try:
                    s.connect(("127.0.0.1", port))
                except OSError:
                    s.close(); continue
                spin(random.random() * 0.0005)
                rst(s)
        pid = fork_peer(peer)
        try:
            t0 = time.time()
            while time.time() - t0 < RACE_SECS and sum(out.values()) < 5:
                n += 1
                try:
                    server.service()
                except Exception as ex:
                    out[repr(ex) + ' at ' + where(ex)] += 1
                for ca, ix in list(server.ixes.items()):
                    if ix.cutoff:
                        server.removeIx(ca)
        finally:
            os.kill(pid, signal.SIGKILL); os.waitpid(pid, 0)
    return report(n, 'server.service()', out)


def client_race(tls, port, label):
    print(label)
    ls = socket.socket(); ls.setsockopt(socket.SOL_SOCKET, socket.SO_REUSEADDR, 1)
    ls.bind(("127.0.0.1", port)); ls.listen(128)

    def peer():
        while True:
            s, _ = ls.accept()
            spin(random.random() * 0.0001)
            rst(s)
    pid = fork_peer(peer)
    ls.close()
    out = collections.Counter(); n = 0; cuts = 0
    client = (tcp.ClientTls if tls else tcp.Client)(ha=("127.0.0.1", port), **(CKW if tls else {}))
    client.reopen()
    try:
        t0 = time.time()
        while time.time() - t0 < RACE_SECS and sum(out.values()) < 5:
            n += 1
            try:
                if not client.txbs:
                    client.tx(b'x')
                client.service()
            except Exception as ex:
                out[repr(ex) + ' at ' + where(ex)] += 1
                client.close()
            if client.cutoff:  # documented reaction to cutoff: close/reopen
                cuts += 1
                client.reopen()
    finally:
        os.kill(pid, signal.SIGKILL); os.waitpid(pid, 0)
        client.close()
    print("    connections seen cut off (handled nicely): %d" % cuts)
    return report(n, 'client.service()', out)


def report(n, what, out):
    bad = bool(out)
    print("    %d %s calls" % (n, what))
    for k, v in out.items():
        print("    OBSERVED: %s raised %s   (x%d)" % (what, k, v))
    if not out:
        print("    no exception escaped")
    print("    REQUIRED:", REQUIRED)
    print("    ->", "VIOLATION" if bad else "ok")
    return bad


def main():
    results = []
    results.append(('S1 ServerTls deterministic', s1_servertls_deterministic()))
    results.append(('S2 ServerTls race', s2_servertls_race()))
    results.append(('S3 ClientTls race', client_race(True, 7303,
                    "S3: ClientTls service loop, separate peer process doing accept -> RST (free running)")))
    results.append(('S4 Client race', client_race(False, 7304,
                    "S4: Client service loop, separate peer process doing accept -> RST (free running)")))
    print()
    for name, bad in results:
        print("%-28s %s" % (name, "VIOLATION reproduced" if bad else "ok"))
    sys.exit(1 if any(b for _, b in results) else 0)


if __name__ == '__main__':
    main()

#!/venv/bin/python
"""
Adversarial review demo for the repairs touching
  src/hio/core/http/clienting.py  src/hio/core/http/httping.py

Run:
  PYTHONPATH=/tmp/review_httpcli/src PYTHONDONTWRITEBYTECODE=1 /venv/bin/python seed_out/demo.py

Re-executes itself in a private network namespace (unshare -n, lo up).
Prints input / observed / expected for each problem, exits 1 if any
reproduces on the tree under PYTHONPATH, else 0.
"""
import os
import sys

if os.environ.get("DEMO_NETNS") != "1":
    env = dict(os.environ, DEMO_NETNS="1", PYTHONDONTWRITEBYTECODE="1")
    env.setdefault("PYTHONPATH", "/tmp/review_httpcli/src")
    os.execvpe("unshare", ["unshare", "-n", "sh", "-c",
                           'ip link set lo up; exec "$@"', "sh",
                           sys.executable, "-W", "ignore", os.path.abspath(__file__)] + sys.argv[1:], env)

import socket
import logging
from collections import deque

import hio
assert hio.__file__.startswith("/tmp/review_httpcli/"), hio.__file__
from hio.base import tyming
from hio.core.http import clienting

logging.disable(logging.CRITICAL)


class Srv:
    """tiny scripted raw tcp server on 127.0.0.1 serviced in the same thread"""
    def __init__(self):
        self.ls = socket.socket()
        self.ls.setsockopt(socket.SOL_SOCKET, socket.SO_REUSEADDR, 1)
        self.ls.bind(("127.0.0.1", 0))
        self.ls.listen(5)
        self.ls.setblocking(False)
        self.port = self.ls.getsockname()[1]
        self.conns = []
        self.rx = []

    def service(self):
        try:
            c, a = self.ls.accept()
            c.setblocking(False)
            self.conns.append(c)
            self.rx.append(bytearray())
        except BlockingIOError:
            pass
        for i, c in enumerate(self.conns):
            try:
                self.rx[i].extend(c.recv(65536))
            except OSError:
                pass

    def close(self):
        for c in self.conns:
            try:
                c.close()
            except OSError:
                pass
        self.ls.close()


def spin(cl, srv, n, tymist=None):
    for i in range(n):
        cl.service()
        srv.service()
        if tymist:
            tymist.tick()


def brief(responses):
    return [(r["status"], r["errored"], r["error"], bytes(r["body"])) for r in responses]


def show(title, commit, inp, observed, expected, bad):
    print("-" * 78)
    print("{0}  [{1}]  {2}".format("REPRODUCED" if bad else "not reproduced", commit, title))
    print("  input   :", inp)
    print("  observed:", observed)
    print("  expected:", expected)
    return bad


def p1_leftover_bytes():
    """c5a20fc: bytes of the cut off response stay in rx buffer"""
    tymist = tyming.Tymist(tock=0.1)
    srv = Srv()
    cl = clienting.Client(hostname="127.0.0.1", port=srv.port, tymth=tymist.tymen())
    cl.reopen()
    cl.request(method="GET", path="/a")
    spin(cl, srv, 5)
    srv.conns[0].send(b"HTTP/1.1 200 OK\r\nContent-Length: 10\r\n\r\nabc")
    srv.conns[0].close()
    spin(cl, srv, 6)
    first = brief(cl.responses)
    left = bytes(cl.connector.rxbs)
    cl.responses.clear()
    cl.reopen()  # what an application (or reconnectable=True) does after the errored response
    cl.request(method="GET", path="/b")
    spin(cl, srv, 5)
    srv.conns[1].send(b"HTTP/1.1 200 OK\r\nContent-Length: 2\r\n\r\nOK")
    spin(cl, srv, 6)
    second = brief(cl.responses)
    srv.close(); cl.close()
    bad = second != [(200, False, None, b"OK")]
    return show("bytes of a cut off response poison the next response", "c5a20fc",
                "GET /a -> 'HTTP/1.1 200 OK, Content-Length: 10, abc' + close ; client.reopen() ; "
                "GET /b -> complete 200 'OK'",
                "1st {0}; rxbs left {1!r}; 2nd {2}".format(first, left, second),
                "1st errored (closed before complete); 2nd [(200, False, None, b'OK')]", bad)


def p2_reconnect_timer():
    """c5a20fc: reconnectable client, timer already expired, reopen() resets .cutoff first"""
    tymist = tyming.Tymist(tock=0.1)
    srv = Srv()
    cl = clienting.Client(hostname="127.0.0.1", port=srv.port, tymth=tymist.tymen(),
                          reconnectable=True, tymeout=0.5)
    cl.reopen()
    cl.request(method="GET", path="/a")
    spin(cl, srv, 10, tymist)  # connection is older than tymeout, as any long lived one is
    srv.conns[0].send(b"HTTP/1.1 200 OK\r\nContent-Length: 10\r\n\r\nabc")
    srv.conns[0].close()
    spin(cl, srv, 40, tymist)
    obs = "responses {0} waited {1} after 40 more service() cycles".format(brief(cl.responses), cl.waited)
    bad = not cl.responses or cl.waited
    srv.close(); cl.close()
    return show("reconnectable client still waits for ever when server closes inside a response",
                "c5a20fc",
                "Client(reconnectable=True, tymeout=0.5), connection up for 1.0 s, then "
                "'...Content-Length: 10, abc' + close",
                obs, "one errored entry in .responses, waited False (as with reconnectable=False)", bad)


def p3_stale_head():
    """c5a20fc x 2aca68b/69c2b79: response made for a request that got no bytes is stale"""
    tymist = tyming.Tymist(tock=0.1)
    srv = Srv()
    cl = clienting.Client(hostname="127.0.0.1", port=srv.port, tymth=tymist.tymen())
    cl.reopen()
    cl.request(method="GET", path="/a")
    cl.request(method="GET", path="/b")
    spin(cl, srv, 4)
    srv.conns[0].send(b"HTTP/1.1 302 Found\r\nLocation: http://[::abc]/x\r\nX-One: 1\r\n"
                      b"Content-Length: 3\r\n\r\none")
    spin(cl, srv, 4)
    srv.conns[0].close()  # /b was sent, nothing comes back
    spin(cl, srv, 4)
    rs = list(cl.responses)
    srv.close(); cl.close()
    if len(rs) != 2:
        return show("stale head in closure response", "c5a20fc", "see source", brief(rs), "2 responses", True)
    r = rs[1]
    obs = "2nd response: status {0} error {1!r} headers {2} body {3!r} same body object as 1st: {4}".format(
        r["status"], r["error"], dict(r["headers"] or {}), bytes(r["body"]), r["body"] is rs[0]["body"])
    bad = (bool(r["headers"]) or bytes(r["body"]) != b"" or "Redirect" in (r["error"] or ""))
    return show("response for a request that got no bytes carries prior response's head/body and "
                "retries the prior (refused) redirect", "c5a20fc (with 2aca68b, 69c2b79)",
                "GET /a -> 302 Location: http://[::abc]/x (not followed) ; GET /b -> server closes, no bytes",
                obs,
                "2nd: error 'Connection closed unexpectedly...', no headers, empty own body, no redirect attempt",
                bad)


def p4_evented_cut_in_chunk():
    """c5a20fc excludes evented: stream cut inside a chunk, resumed stream is swallowed"""
    tymist = tyming.Tymist(tock=0.02)
    srv = Srv()
    cl = clienting.Client(hostname="127.0.0.1", port=srv.port, tymth=tymist.tymen(),
                          reconnectable=True, tymeout=0.2)
    cl.reopen()
    cl.request(method="GET", path="/stream")
    spin(cl, srv, 4, tymist)
    head = b"HTTP/1.1 200 OK\r\nContent-Type: text/event-stream\r\nTransfer-Encoding: chunked\r\n\r\n"
    srv.conns[0].send(head + b"f\r\nid: 1\ndata: a\n\n\r\n" + b"f\r\nid: 2\nda")
    spin(cl, srv, 3, tymist)
    srv.conns[0].close()
    spin(cl, srv, 40, tymist)
    if len(srv.conns) > 1:
        srv.conns[-1].send(head + b"f\r\nid: 3\ndata: c\n\n\r\n")
        spin(cl, srv, 10, tymist)
    evs = [(e["id"], e["data"]) for e in cl.events]
    obs = "events {0}; respondent.errored {1} error {2!r}; reconnect request had {3}".format(
        evs, cl.respondent.errored, cl.respondent.error,
        [l for l in bytes(srv.rx[-1]).split(b"\r\n") if l.lower().startswith(b"last-event")])
    bad = evs != [("1", "a"), ("3", "c")]
    srv.close(); cl.close()
    return show("event stream cut inside a chunk: stream resumed after reconnect is lost",
                "c5a20fc (evented excluded) / 2866e23 (same symptom, other cause)",
                "chunked event stream: chunk(id 1,data a) + half a chunk, close; after reconnect "
                "new 200 chunked stream with event id 3",
                obs, "events [('1','a'), ('3','c')]", bad)


def p5_length_event_stream():
    """10a74d5: events of a Content-Length event stream only when the whole length is there"""
    out = {}
    for framing in ("length", "chunked", "close"):
        msg = bytearray()
        ev = deque()
        r = clienting.Respondent(msg=msg, events=ev)
        body = b"retry: 250\nid: 7\ndata: first\n\n"
        head = b"HTTP/1.1 200 OK\r\nContent-Type: text/event-stream\r\n"
        if framing == "length":
            msg.extend(head + b"Content-Length: 1000\r\n\r\n" + body)
        elif framing == "chunked":
            msg.extend(head + b"Transfer-Encoding: chunked\r\n\r\n%x\r\n" % len(body) + body + b"\r\n")
        else:
            msg.extend(head + b"\r\n" + body)
        r.parse()
        out[framing] = ([(e["id"], e["data"]) for e in ev], r.leid, r.retry)
    bad = out["length"] != out["chunked"]
    return show("event stream with Content-Length yields nothing until the last byte "
                "(none at all, and no Last-Event-ID/retry, if the connection drops before)",
                "10a74d5",
                "200 text/event-stream, Content-Length: 1000, first complete event "
                "'retry: 250, id: 7, data: first' received",
                "length: {0}  chunked: {1}  close-delimited: {2}".format(out["length"], out["chunked"], out["close"]),
                "the event, leid '7' and retry 250 in all three framings", bad)


def p6_ipv6_redirect():
    """b5571f2: other IPv6 literals still make service() raise"""
    tymist = tyming.Tymist(tock=0.1)
    srv = Srv()
    cl = clienting.Client(hostname="127.0.0.1", port=srv.port, tymth=tymist.tymen())
    cl.reopen()
    cl.request(method="GET", path="/a")
    spin(cl, srv, 4)
    srv.conns[0].send(b"HTTP/1.1 302 Found\r\nLocation: http://[2001:db8::1:8080]/x\r\n"
                      b"Content-Length: 0\r\n\r\n")
    raised = []
    for i in range(6):
        try:
            spin(cl, srv, 1)
        except Exception as ex:
            raised.append(repr(ex))
    obs = "service() raised {0} times of 6: {1}; connector.ha {2}; responses {3}".format(
        len(raised), raised[:1], cl.connector.ha, brief(cl.responses))
    bad = bool(raised)
    srv.close()
    try:
        cl.close()
    except Exception:
        pass
    return show("redirect to an IPv6 literal whose last group is decimal raises out of service() for ever",
                "b5571f2",
                "302 Location: http://[2001:db8::1:8080]/x  (also http://[::1:81]/x, //[::1:81]/x)",
                obs, "no raise; 302 delivered with errored=True 'Redirect failed: ...' like [::abc]", bad)


def main():
    print("hio from", hio.__file__)
    results = []
    for f in (p1_leftover_bytes, p2_reconnect_timer, p3_stale_head,
              p4_evented_cut_in_chunk, p5_length_event_stream, p6_ipv6_redirect):
        try:
            results.append(bool(f()))
        except Exception as ex:  # demo itself must not hide a crash
            import traceback
            traceback.print_exc()
            print("check", f.__name__, "crashed:", repr(ex))
            results.append(True)
    print("-" * 78)
    print("reproduced {0} of {1}".format(sum(results), len(results)))
    sys.exit(1 if any(results) else 0)


if __name__ == "__main__":
    main()

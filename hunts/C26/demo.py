#!/venv/bin/python
"""C26 hunt: Base64 int/code conversions are exact inverses.
No violation was found; this script re-runs the strongest attempted scenarios
against the worktree code and exits 0 if (as observed) none of them fails,
1 if any scenario reproduces a violation.
Run: PYTHONPATH=/tmp/seed_C26hunt/src PYTHONDONTWRITEBYTECODE=1 /venv/bin/python seed_out/demo.py
"""
import sys, os, itertools, random, base64, enum, warnings
warnings.simplefilter("ignore")
sys.path.insert(0, "/tmp/seed_C26hunt/src")
import hio
assert hio.__file__.startswith("/tmp/seed_C26hunt/src"), hio.__file__
from hio.help import helping as h

random.seed(26)
ALPHA = ''.join(h.B64ChrByIdx[i] for i in range(64))
violations = []

def scenario(name):
    def deco(f):
        try:
            f()
            print(f"PASS  {name}")
        except AssertionError as ex:
            violations.append((name, ex.args))
            print(f"FAIL  {name}: {ex.args!r}")
        except Exception as ex:
            violations.append((name, repr(ex)))
            print(f"FAIL  {name}: raised {ex!r}")
        return f
    return deco

def cdiv(a, b):
    return -(-a // b)

@scenario("1 int->B64->int for 0..69999, 64**k+-1, random up to 600 bits, 2**4096+1; l in 0..64 and negative")
def _():
    ints = list(range(70000)) + [64**k + d for k in range(1, 40) for d in (-1, 0, 1)]
    ints += [random.getrandbits(random.randint(1, 600)) for _ in range(5000)]
    ints += [2**53 - 1, 2**53, 2**53 + 1, 2**64 - 1, 2**64, 2**4096 + 1]
    for i in ints:
        for l in (0, 1, 2, 3, 4, 5, 7, 8, 9, 64, -1, -5):
            s = h.intToB64(i, l); sb = h.intToB64b(i, l)
            assert sb == s.encode(), (i, l, s, sb)
            if i == 0 and l == 0:
                continue  # '' : zero chars requested for zero; asserted by tests/help/test_helping.py
            assert len(s) >= l, (i, l, s)
            assert h.b64ToInt(s) == i and h.b64ToInt(sb) == i, (i, l, s, h.b64ToInt(s))
            assert len(s) == max(l, 1) or s[0] != 'A', (i, l, s)

def check_code(s):
    n = cdiv(len(s) * 3, 4)
    b = h.codeB64ToB2(s)
    assert len(b) == n, (s, b)
    assert h.codeB2ToB64(b, len(s)) == s, (s, b, h.codeB2ToB64(b, len(s)))
    assert h.codeB64ToB2(s.encode()) == b
    pad = (4 - len(s) % 4) % 4
    ref = base64.urlsafe_b64decode(s + 'A' * pad)[:n]  # independent left-aligned oracle
    assert ref == b, (s, ref, b)
    for junk in (b'\xff\xff\xff', b'\x00'):
        assert h.codeB2ToB64(b + junk, len(s)) == s, (s, junk)
        assert h.codeB2ToB64(bytearray(b + junk), len(s)) == s, (s, junk)
    full = b + b'\xa5\xff'
    bits = bin(int.from_bytes(full, 'big'))[2:].zfill(8 * len(full))
    for l in range(0, len(s) + 1):
        nn = cdiv(l * 3, 4)
        p = h.nabSextets(full, l)
        assert len(p) == nn, (s, l, p)
        got = bin(int.from_bytes(p, 'big'))[2:].zfill(8 * nn) if nn else ''
        assert got == bits[:6 * l].ljust(8 * nn, '0'), (s, l, got)
        if l:
            assert h.codeB2ToB64(p, l) == s[:l], (s, l)

@scenario("2 code B64->B2->B64 + stdlib oracle + nabSextets leading bits: exhaustive len 1..3 (266304 strings)")
def _():
    for L in (1, 2, 3):
        for t in itertools.product(ALPHA, repeat=L):
            check_code(''.join(t))

@scenario("3 same, random strings len 1..200 incl. leading/trailing 'A' runs, trailing junk bytes, bytearray")
def _():
    for _ in range(5000):
        L = random.randint(1, 200)
        s = ''.join(random.choice(ALPHA) for _ in range(L))
        if random.random() < 0.3:
            s = ('A' * random.randint(1, L) + s)[:L]
        if random.random() < 0.2:
            s = s[:-1] + 'A' * random.randint(1, 8)
        check_code(s)

@scenario("4 long strings (float sceil path) len 20001..40000, all-ones nabSextets l=0..63")
def _():
    for L in (20001, 20002, 20003, 40000):
        for s in (''.join(random.choices(ALPHA, k=L)), 'A' * (L - 1) + 'B'):
            b = h.codeB64ToB2(s)
            assert len(b) == cdiv(L * 3, 4), L
            assert h.codeB2ToB64(b, L) == s, L
            assert h.nabSextets(b + b'\xff', L) == b, L
    ones = b'\xff' * 60
    for l in range(64):
        nn = cdiv(l * 3, 4)
        exp = int('1' * (6 * l) + '0' * (8 * nn - 6 * l) or '0', 2).to_bytes(nn, 'big')
        assert h.nabSextets(ones, l) == exp, l
        if l:
            assert h.codeB2ToB64(ones, l) == '_' * l, l

@scenario("5 type variants: str/bytes/bytearray/memoryview inputs, IntEnum/bool ints, huge min length, exactly-at-limit buffers")
def _():
    for s in ('A', '_', 'AB', '-_9', 'AAAA', '__AA', 'A' * 7 + 'B', 'Zz09-_AAA'):
        for conv in (str, str.encode, lambda x: bytearray(x.encode())):
            v = conv(s)
            b = h.codeB64ToB2(v)
            assert h.codeB2ToB64(b, len(s)) == s
            assert h.codeB2ToB64(memoryview(b), len(s)) == s
            assert h.nabSextets(memoryview(b), len(s)) == b
            assert h.intToB64(h.b64ToInt(v), len(s)) == s
    class E(enum.IntEnum):
        x = 4097
    assert h.b64ToInt(h.intToB64(E.x)) == 4097 and h.b64ToInt(h.intToB64(True)) == 1
    s = h.intToB64(5, 50000); assert len(s) == 50000 and h.b64ToInt(s) == 5
    assert (h.intToB64(63, 3), h.intToB64(64, 3)) == ('AA_', 'ABA')
    for l in range(1, 30):
        n = cdiv(l * 3, 4)
        bb = bytes(random.getrandbits(8) for _ in range(n))
        p = h.nabSextets(bb, l); c = h.codeB2ToB64(bb, l)
        assert len(p) == n and len(c) == l and h.codeB64ToB2(c) == p, (l, bb)
        for f in (h.nabSextets, h.codeB2ToB64):
            try:
                f(bb[:-1], l); raise AssertionError(("no ValueError one byte short", f.__name__, l))
            except ValueError:
                pass

@scenario("6 memo header usage: every Memoer code B64<->B2, neck numbers at 0/63/64/64**nz-1, rend->pick of 63-gram memo")
def _():
    from hio.core.memo import memoing as m
    for code, (bz, nz, mz, vz, az) in m.Memoer.Sizes.items():
        b = h.codeB64ToB2(code)
        assert h.codeB2ToB64(bytearray(b) + bytearray(b'\xff' * 10), len(code)) == code, code
        for x in (0, 1, 63, 64, 64**nz - 1):
            s = h.intToB64b(x, l=nz)
            assert len(s) == nz and h.b64ToInt(s) == x and h.b64ToInt(bytearray(s)) == x, (code, x, s)
    mr = m.Memoer(size=40)
    grams = mr.rend("x" * 500)
    assert len(grams) == 63 and grams[0][4:8] == b'AAA_', (len(grams), grams[0])
    for k, g in enumerate(grams):
        out = mr.pick(bytearray(g))
        assert out[2] == k, (k, out)

print()
print("Not counted (documented, intended): intToB64(0, l=0) ->", repr(h.intToB64(0, 0)),
      "and b64ToInt('') raises ValueError; tests/help/test_helping.py asserts exactly this.")
if violations:
    print(f"{len(violations)} VIOLATION(S) reproduced")
    sys.exit(1)
print("no violation of C26 reproduced")
sys.exit(0)

#!/venv/bin/python
"""
C03 demo: run order within a cycle is not enter order after a mid-cycle extend().

Run:  PYTHONPATH=/tmp/seed_C03hunt/src PYTHONDONTWRITEBYTECODE=1 /venv/bin/python demo.py
Exit 1 when the violation reproduces, 0 otherwise.
"""
import sys
import warnings
warnings.simplefilter("ignore")
sys.dont_write_bytecode = True
if "/tmp/seed_C03hunt/src" not in sys.path:
    sys.path.insert(0, "/tmp/seed_C03hunt/src")

import hio
assert hio.__file__.startswith("/tmp/seed_C03hunt/src"), hio.__file__
from hio.base import doing


def scenario(nested, restart):
    """
    Doers A, B, C (all yield 0/None so all are due every cycle) are scheduled
    flat in a Doist(tock=1.0) or inside one tock-0 DoDoer.
    In its 2nd run (cycle tyme 1.0) doer A calls the scheduler's public
    extend() the way keripy style doers do:
        restart False: host.extend([D])               add new doer D
        restart True:  host.remove([C]); host.extend([C])   restart doer C
    Returns (trace, enter order) where trace is list of (tyme, name) in the
    order the doers were run and enter order is host.doers names (extend
    appends so .doers is the enter order).
    """
    trace = []
    host = [None]

    def mk(name, tock, action=None):
        def f(tymth, tock=0.0, **opts):
            i = 0
            while True:
                tyme = yield tock
                assert tyme == tymth()  # observes scheduler's current tyme
                trace.append((tyme, name))
                if action:
                    action(i)
                i += 1
        return doing.doify(f, name=name)

    def act(i):
        if i == 1:
            if restart:
                host[0].remove([C])
                host[0].extend([C])
            else:
                host[0].extend([D])

    A = mk('A', 0.0, act)
    B = mk('B', None)
    C = mk('C', 0)
    D = mk('D', 0.0)
    if nested:
        host[0] = dodoer = doing.DoDoer(doers=[A, B, C], tock=0.0)
        doist = doing.Doist(tock=1.0, tyme=0.0, real=False, doers=[dodoer])
    else:
        host[0] = doist = doing.Doist(tock=1.0, tyme=0.0, real=False, doers=[A, B, C])
    doist.do(limit=5.0)
    return trace, [d.__name__ for d in host[0].doers]


def main():
    failed = False
    for nested in (False, True):
        for restart in (False, True):
            trace, order = scenario(nested, restart)
            cycles = {}
            for tyme, name in trace:
                cycles.setdefault(tyme, []).append(name)
            where = "tock-0 DoDoer inside Doist" if nested else "flat Doist"
            op = ("A calls host.remove([C]); host.extend([C])" if restart
                  else "A calls host.extend([D])")
            print(f"--- {where}, doers [A, B, C] all yielding 0/None, Doist tock=1.0; "
                  f"at tyme 1.0 {op}")
            print(f"    enter order (host.doers): {order}")
            bad = []
            for tyme in sorted(cycles):
                ran = cycles[tyme]
                expect = [n for n in order if n in ran]  # enter order of those run
                dup = len(set(ran)) != len(ran)
                ok = (ran == expect) and not dup
                print(f"    cycle tyme={tyme}: ran {ran}" + ("" if ok else
                      f"   <-- VIOLATION statement requires enter order {expect}"))
                if not ok:
                    bad.append(tyme)
            if bad:
                failed = True
                print("    observed: doer entered LAST runs FIRST in every later cycle "
                      f"(cycles {bad}); required: 'Within a cycle, due doers run at "
                      "most once each, in enter order'")
            else:
                print("    ok: every cycle ran the due doers in enter order")
    if failed:
        print("RESULT: C03 violation reproduced (mid-cycle extend() breaks enter order)")
        return 1
    print("RESULT: no violation reproduced")
    return 0


if __name__ == "__main__":
    sys.exit(main())

#!/venv/bin/python
"""
C12 demo: Idle HTTP connections time out after the configured tymeout.

Run as:
  PYTHONPATH=/tmp/seed_C12hunt/src PYTHONDONTWRITEBYTECODE=1 /venv/bin/python seed_out/demo.py

The script re-executes itself inside a private network namespace (unshare -n)
so that it never collides with ports held by other jobs. If unshare is not
available it falls back to kernel assigned free ports on the host loopback.

Exit status 1 if any violation reproduces, 0 if none.
"""
import os
import sys
import socket
import ssl
import subprocess
import time
import warnings

warnings.simplefilter("ignore")

ROOT = '/tmp/seed_C12hunt'
SRC = ROOT + '/src'
CERTS = ROOT + '/tests/core/tls/certs'

if os.environ.get("C12_DEMO_INNER") != "1":
    env = dict(os.environ)
    env["C12_DEMO_INNER"] = "1"
    env["PYTHONPATH"] = SRC
    env["PYTHONDONTWRITEBYTECODE"] = "1"
    probe = subprocess.run(["unshare", "-n", "sh", "-c", "ip link set lo up"],
                           capture_output=True)
    if probe.returncode == 0:
        cmd = ["unshare", "-n", "sh", "-c", 'ip link set lo up; exec "$@"', "sh",
               sys.executable, "-W", "ignore", os.path.abspath(__file__)]
    else:
        cmd = [sys.executable, "-W", "ignore", os.path.abspath(__file__)]
    sys.exit(subprocess.run(cmd, env=env).returncode)

sys.path.insert(0, SRC)
import hio
assert hio.__file__.startswith(SRC), hio.__file__
from hio.base import tyming
from hio.core import http


def freePort():
    s = socket.socket()
    s.bind(('127.0.0.1', 0))
    port = s.getsockname()[1]
    s.close()
    return port


def app(environ, start_response):
    start_response('200 OK', [('Content-type', 'text/plain'),
                              ('Content-length', '12')])
    return [b"Hello World!"]


def serverKwa(secured, tymeout, tymist, port):
    kwa = dict(port=port, app=app, tymeout=tymeout, tymth=tymist.tymen())
    if secured:
        kwa.update(scheme='https',
                   keypath=CERTS + '/server_key.pem',
                   certpath=CERTS + '/server_cert.pem',
                   cafilepath=CERTS + '/client.pem')
    return kwa


def tlsClient(sock, server):
    """Non blocking TLS client handshake interleaved with server.service()"""
    ctx = ssl.create_default_context(ssl.Purpose.SERVER_AUTH,
                                     cafile=CERTS + '/server.pem')
    ctx.verify_flags &= ~ssl.VERIFY_X509_STRICT
    ctx.load_cert_chain(CERTS + '/client_cert.pem', CERTS + '/client_key.pem')
    sock.setblocking(False)
    sock = ctx.wrap_socket(sock, server_hostname='localhost',
                           do_handshake_on_connect=False)
    for i in range(400):
        try:
            sock.do_handshake()
            break
        except (ssl.SSLWantReadError, ssl.SSLWantWriteError):
            server.service()
            time.sleep(0.005)
    else:
        raise RuntimeError("TLS handshake did not complete")
    for i in range(5):  # let server side finish and move cx to .ixes
        server.service()
        time.sleep(0.005)
    return sock


def peerClosed(sock):
    """True when the far side (server) has closed or reset the connection"""
    try:
        data = sock.recv(65536)
    except (BlockingIOError, ssl.SSLWantReadError):
        return False
    except OSError:
        return True
    return data == b''


# Non persistent request (HTTP/1.0 no keep-alive) whose body is drip fed
HEAD = b"POST /x HTTP/1.0\r\nContent-Length: 1000\r\n\r\n"


def drip(secured, tymeout=1.0, tock=0.25, every=0.5, total=6.0):
    """
    Client sends some request bytes every `every` secs of virtual tyme, always
    BEFORE the server is serviced at that same tyme so the server reads them
    at once. every < tymeout so there is traffic in every tymeout window.
    Returns (tyme server closed or None, list of tymes client sent).
    """
    port = freePort()
    tymist = tyming.Tymist(tyme=0.0, tock=tock)
    sends = []
    with http.openServer(**serverKwa(secured, tymeout, tymist, port)) as server:
        c = socket.socket()
        c.setsockopt(socket.IPPROTO_TCP, socket.TCP_NODELAY, 1)  # no Nagle hold back
        c.connect(('127.0.0.1', port))
        if secured:
            c = tlsClient(c, server)
        c.setblocking(False)
        time.sleep(0.01)
        server.service()
        assert len(server.servant.ixes) == 1
        first = True
        nxt = tymist.tyme
        closedAt = None
        while tymist.tyme <= total:
            if tymist.tyme >= nxt:
                c.send(HEAD if first else b"a")
                first = False
                sends.append(tymist.tyme)
                nxt += every
                time.sleep(0.02)  # loopback delivery
            server.service()
            if not server.servant.ixes:
                closedAt = tymist.tyme
                break
            tymist.tick()
        c.close()
    return closedAt, sends


def silent(secured, tymeout=1.0, tock=0.25, total=10.0):
    """
    Client opens a TCP connection to the server and never sends one byte.
    Returns tyme at which client saw the server close, or None.
    """
    port = freePort()
    tymist = tyming.Tymist(tyme=0.0, tock=tock)
    with http.openServer(**serverKwa(secured, tymeout, tymist, port)) as server:
        c = socket.socket()
        c.setsockopt(socket.IPPROTO_TCP, socket.TCP_NODELAY, 1)  # no Nagle hold back
        c.connect(('127.0.0.1', port))
        c.setblocking(False)
        time.sleep(0.01)
        closedAt = None
        while tymist.tyme <= total:
            server.service()
            time.sleep(0.002)
            if peerClosed(c):
                closedAt = tymist.tyme
                break
            tymist.tick()
        held = (len(getattr(server.servant, 'cxes', {})), len(server.servant.ixes))
        c.close()
    return closedAt, held


def lateRead(tymeout=1.0, tock=0.25, sendTymes=(0.75, 1.5, 2.25, 3.0), total=3.5):
    """
    Plain http. Each cycle the server is serviced first and the client acts
    second (as with Doist(doers=[serverDoer, clientDoer])). The client sends
    a piece of its request at the virtual tymes in sendTymes, which puts
    client traffic inside every tymeout window after the accept at tyme 0.0.
    Returns (tyme accepted, tyme closed or None, tymes sent, tymes not sent).
    """
    port = freePort()
    tymist = tyming.Tymist(tyme=0.0, tock=tock)
    with http.openServer(**serverKwa(False, tymeout, tymist, port)) as server:
        c = socket.socket()
        c.setsockopt(socket.IPPROTO_TCP, socket.TCP_NODELAY, 1)  # no Nagle hold back
        c.connect(('127.0.0.1', port))
        c.setblocking(False)
        time.sleep(0.01)
        accepted = None
        closedAt = None
        todo = list(sendTymes)
        sent = []
        while tymist.tyme <= total:
            server.service()
            if accepted is None and server.servant.ixes:
                accepted = tymist.tyme
            if accepted is not None and not server.servant.ixes:
                closedAt = tymist.tyme
                break
            if todo and tymist.tyme >= todo[0]:
                c.send(b"a" if sent else HEAD)
                sent.append(todo.pop(0))
                time.sleep(0.01)
            tymist.tick()
        c.close()
    return accepted, closedAt, sent, todo


def main():
    found = 0

    print("=" * 72)
    print("V1  https (TLS) server closes a connection that has traffic in every")
    print("    tymeout window")
    print("    input: http.Server(scheme='https', tymeout=1.0), tock 0.25; client")
    print("    sends part of a non persistent HTTP/1.0 request every 0.5 of tyme")
    closedAt, sends = drip(secured=False)
    print("    control plain http: closed at", closedAt, " client sends at", sends)
    closedAt, sends = drip(secured=True)
    print("    https             : closed at", closedAt, " client sends at", sends)
    if closedAt is not None:
        found += 1
        print("    VIOLATION: statement requires 'A connection with traffic in every")
        print("    tymeout window is never closed for being idle' but the https server")
        print("    closed it at tyme {} although the client sent at {}".format(closedAt, sends))
    else:
        print("    not reproduced")

    print("=" * 72)
    print("V2  https (TLS) server never closes a connection that never sends anything")
    print("    input: http.Server(scheme='https', tymeout=1.0), tock 0.25; client")
    print("    opens a TCP connection and stays silent for 10.0 of tyme")
    closedAt, held = silent(secured=False)
    print("    control plain http: closed at", closedAt)
    closedAt, held = silent(secured=True)
    print("    https             : closed at", closedAt,
          " server still holds (cxes, ixes) =", held)
    if closedAt is None:
        found += 1
        print("    VIOLATION: statement requires 'An HTTP server connection that has had")
        print("    no traffic for the server's configured tymeout of virtual time, and is")
        print("    not a persistent connection, is closed by the server' but after 10x the")
        print("    tymeout the connection is still open, parked in servant.cxes")
    else:
        print("    not reproduced")

    print("=" * 72)
    print("V3  plain http server closes as idle a connection whose request bytes")
    print("    arrived inside the tymeout window but were not yet read")
    print("    input: http.Server(tymeout=1.0), tock 0.25, server serviced before")
    print("    client each cycle; client sends request pieces at 0.75, 1.5, 2.25, 3.0")
    accepted, closedAt, sent, todo = lateRead()
    print("    accepted at", accepted, " client sent at", sent, " closed at", closedAt,
          " client sends cut off:", todo)
    if closedAt is not None:
        found += 1
        print("    VIOLATION: the window [0.0, 1.0) had client traffic at 0.75, statement")
        print("    requires 'A connection with traffic in every tymeout window is never")
        print("    closed for being idle', but the server tested the idle tymer before")
        print("    reading the socket and closed it at tyme {} with the bytes sent at".format(closedAt))
        print("    {} still unread".format(sent[-1] if sent else None))
    else:
        print("    not reproduced")

    print("=" * 72)
    print("violations reproduced:", found)
    return 1 if found else 0


if __name__ == "__main__":
    sys.exit(main())

#!/venv/bin/python
# -*- encoding: utf-8 -*-
"""
C16 demo: client/peer-sent bytes that make the hio HTTP server / HTTP client
service loop raise.

Run:  /venv/bin/python /tmp/seed_C16hunt/seed_out/demo.py
Exit status 1 if any violation reproduces, 0 if none.

The script re-executes itself in a private network namespace (unshare -n) so
that the fixed/ephemeral ports used can not collide with other jobs.
"""
import os
import sys

ROOT = '/tmp/seed_C16hunt'
SRC = ROOT + '/src'

if os.environ.get('C16_DEMO_NETNS') != '1':
    env = dict(os.environ)
    env['C16_DEMO_NETNS'] = '1'
    env['PYTHONPATH'] = SRC
    env['PYTHONDONTWRITEBYTECODE'] = '1'
    try:
        os.execvpe('unshare', ['unshare', '-n', 'sh', '-c',
                               'ip link set lo up; exec "$@"', 'sh',
                               sys.executable, '-W', 'ignore',
                               os.path.abspath(__file__)] + sys.argv[1:], env)
    except OSError:
        pass  # no unshare available, run in place with free ports

sys.dont_write_bytecode = True
sys.path.insert(0, SRC)

import socket
import ssl
import threading
import time
import logging
import warnings
warnings.simplefilter('ignore')

import hio
assert hio.__file__.startswith(SRC), hio.__file__
from hio.base import tyming
from hio.core.http import serving, clienting, httping

logging.disable(logging.CRITICAL)  # keep the output readable

CERTS = ROOT + '/tests/core/tls/certs'


def freePort():
    s = socket.socket()
    s.setsockopt(socket.SOL_SOCKET, socket.SO_REUSEADDR, 1)
    s.bind(('127.0.0.1', 0))
    port = s.getsockname()[1]
    s.close()
    return port


def describe(ex):
    """Return 'Type: msg  @ file:line' of the innermost hio frame"""
    import traceback
    where = ''
    for fr in reversed(traceback.extract_tb(ex.__traceback__)):
        if '/src/hio/' in fr.filename:
            where = " @ {0}:{1} in {2}".format(fr.filename.replace(SRC + '/', ''),
                                              fr.lineno, fr.name)
            break
    return "{0}: {1}{2}".format(type(ex).__name__, str(ex)[:120], where)


# ---------------------------------------------------------------- servers

def serveBytes(cls, payload, cycles=15, **kwa):
    """
    Open http server of class cls, connect TWO plain tcp clients. First sends
    payload, second sends a good request. Service the server.
    Returns (exception or None, bytes received by good client)
    """
    port = freePort()
    srv = cls(port=port, **kwa)
    assert srv.reopen()
    bad = socket.create_connection(('127.0.0.1', port))
    good = socket.create_connection(('127.0.0.1', port))
    good.setblocking(False)
    err = None
    out = b''
    try:
        bad.sendall(payload)
        good.sendall(b'GET /good HTTP/1.1\r\nContent-Length: 0\r\n\r\n')
        for i in range(cycles):
            time.sleep(0.005)
            srv.service()
            try:
                out += good.recv(65536)
            except (BlockingIOError, ConnectionError):
                pass
    except Exception as ex:
        err = ex
    finally:
        bad.close()
        good.close()
        try:
            srv.close()
        except Exception:
            srv.servant.close()
    return err, out


def serveTlsThenGarbage(cls, request, garbage, **kwa):
    """
    Open https server, client completes real TLS handshake, sends request
    encrypted then writes garbage that is not a TLS record to the same tcp
    connection.
    """
    port = freePort()
    srv = cls(port=port, scheme='https',
              keypath=CERTS + '/server_key.pem',
              certpath=CERTS + '/server_cert.pem',
              cafilepath=CERTS + '/client.pem', **kwa)
    assert srv.reopen()
    done = threading.Event()
    hold = threading.Event()

    def client():
        try:
            ctx = ssl.create_default_context(ssl.Purpose.SERVER_AUTH,
                                             cafile=CERTS + '/server.pem')
            ctx.check_hostname = False
            ctx.load_cert_chain(CERTS + '/client_cert.pem', CERTS + '/client_key.pem')
            s = socket.create_connection(('127.0.0.1', port))
            ss = ctx.wrap_socket(s, server_hostname='localhost')
            ss.sendall(request)
            os.write(ss.fileno(), garbage)  # raw bytes on the wire
            done.set()
            hold.wait(5.0)
            ss.close()
        except Exception as ex:
            print("   (tls test client problem: {0!r})".format(ex))
            done.set()

    t = threading.Thread(target=client)
    t.start()
    err = None
    try:
        t0 = time.time()
        while time.time() - t0 < 5.0 and not done.is_set():
            srv.servant.serviceConnects()  # accepts and handshakes only
            time.sleep(0.01)
        time.sleep(0.1)
        for i in range(20):
            srv.service()
            time.sleep(0.005)
    except Exception as ex:
        err = ex
    hold.set()
    t.join()
    try:
        srv.close()
    except Exception:
        srv.servant.close()
    return err


def wsgiApp(environ, start_response):
    start_response('200 OK', [('Content-Type', 'text/plain')])
    yield b''
    yield b'hello'


# ---------------------------------------------------------------- clients

def clientAgainst(responses, cycles=40, **kwa):
    """
    Run hio http Client against a raw tcp server that answers each request
    head with next (bytes, closeAfter) in responses.
    Returns (exception or None, client)
    """
    port = freePort()
    ls = socket.socket()
    ls.setsockopt(socket.SOL_SOCKET, socket.SO_REUSEADDR, 1)
    ls.bind(('127.0.0.1', port))
    ls.listen(5)
    ls.setblocking(False)
    tymist = tyming.Tymist(tyme=0.0)
    cl = clienting.Client(hostname='127.0.0.1', port=port,
                          tymth=tymist.tymen(), **kwa)
    cl.reopen()
    cl.request(method='GET', path='/')
    conns = []
    pending = list(responses)
    err = None
    try:
        for i in range(cycles):
            try:
                s, a = ls.accept()
                s.setblocking(False)
                conns.append([s, b'', False])
            except BlockingIOError:
                pass
            for c in conns:
                if c[2]:
                    continue
                try:
                    c[1] += c[0].recv(65536)
                except BlockingIOError:
                    pass
                except ConnectionError:
                    c[2] = True
                    continue
                while b'\r\n\r\n' in c[1] and pending:
                    c[1] = c[1].split(b'\r\n\r\n', 1)[1]
                    resp, close = pending.pop(0)
                    c[0].sendall(resp)
                    if close:
                        c[0].close()
                        c[2] = True
                        break
            time.sleep(0.005)
            tymist.tick(0.05)
            cl.service()
    except Exception as ex:
        err = ex
    finally:
        for c in conns:
            try:
                c[0].close()
            except Exception:
                pass
        ls.close()
        cl.close()
    return err, cl


def tlsClientAgainst(mode):
    """
    hio https Client against: mode 'plain' a server that answers the TLS
    ClientHello with a plaintext HTTP 400; mode 'tls' a real TLS server that
    after the handshake writes a plaintext HTTP response on the raw socket
    """
    port = freePort()
    ls = socket.socket()
    ls.setsockopt(socket.SOL_SOCKET, socket.SO_REUSEADDR, 1)
    ls.bind(('127.0.0.1', port))
    ls.listen(5)
    hold = threading.Event()

    def server():
        try:
            s, a = ls.accept()
            if mode == 'plain':
                s.recv(4096)
                s.sendall(b'HTTP/1.1 400 Bad Request\r\nContent-Length: 0\r\n\r\n')
                hold.wait(5.0)
                s.close()
                return
            ctx = ssl.create_default_context(ssl.Purpose.CLIENT_AUTH)
            ctx.load_cert_chain(CERTS + '/server_cert.pem', CERTS + '/server_key.pem')
            ss = ctx.wrap_socket(s, server_side=True)
            ss.recv(4096)
            os.write(ss.fileno(), b'HTTP/1.1 200 OK\r\nContent-Length: 0\r\n\r\n')
            hold.wait(5.0)
            ss.close()
        except Exception as ex:
            print("   (tls test server problem: {0!r})".format(ex))

    t = threading.Thread(target=server)
    t.start()
    tymist = tyming.Tymist(tyme=0.0)
    cl = clienting.Client(hostname='localhost', port=port, scheme='https',
                          tymth=tymist.tymen(), certedhost='localhost',
                          keypath=CERTS + '/client_key.pem',
                          certpath=CERTS + '/client_cert.pem',
                          cafilepath=CERTS + '/server.pem')
    cl.reopen()
    cl.request(method='GET', path='/')
    err = None
    try:
        for i in range(60):
            cl.service()
            time.sleep(0.01)
            tymist.tick(0.02)
    except Exception as ex:
        err = ex
    hold.set()
    cl.close()
    t.join()
    ls.close()
    return err, cl


# ---------------------------------------------------------------- scenarios

SERVER_RULE = ("'For any byte sequence a client sends, servicing the HTTP server "
               "(WSGI or bare) does not raise. Malformed input only closes, or "
               "answers with an error on, that client's connection, and other "
               "connections keep being served.'")
CLIENT_RULE = ("'servicing the HTTP client on any response bytes does not raise; "
               "malformed responses are reported through the response's error flag.'")

results = []


def report(name, sent, err, rule, extra=''):
    print("-" * 78)
    print("[{0}]".format(name))
    print("  input    : {0}".format(sent))
    if err is not None:
        print("  observed : service() RAISED {0}".format(describe(err)))
        if extra:
            print("             {0}".format(extra))
        print("  required : {0}".format(rule))
        print("  => VIOLATION reproduced")
    else:
        print("  observed : no exception {0}".format(extra))
        print("  => not reproduced")
    results.append((name, err is not None))


def main():
    # V1 BareServer echo responder, unquote before urlsplit
    payload = b'GET //%5B HTTP/1.1\r\nContent-Length: 0\r\n\r\n'
    err, out = serveBytes(serving.BareServer, payload)
    report("V1 BareServer: request target '//%5B'", repr(payload), err, SERVER_RULE,
           "second (well formed) client got {0} bytes of reply".format(len(out)))

    # V2 BareServer deeply nested json body
    depth = 10000
    payload = (b'POST / HTTP/1.1\r\nContent-Type: application/json\r\n'
               b'Content-Length: ' + str(depth).encode() + b'\r\n\r\n' + b'[' * depth)
    err, out = serveBytes(serving.BareServer, payload)
    report("V2a BareServer: application/json body of {0} '[' bytes".format(depth),
           repr(payload[:80]) + " + b'[' * {0}".format(depth), err, SERVER_RULE,
           "second (well formed) client got {0} bytes of reply".format(len(out)))

    resp = (b'HTTP/1.1 200 OK\r\nContent-Type: application/json\r\n'
            b'Content-Length: ' + str(depth).encode() + b'\r\n\r\n' + b'[' * depth)
    err, cl = clientAgainst([(resp, False)])
    report("V2b Client: application/json response body of {0} '[' bytes".format(depth),
           repr(resp[:80]) + " + b'[' * {0}".format(depth), err, CLIENT_RULE,
           "responses delivered: {0}".format(len(cl.responses)))

    # V3 Client SSE stream that is not utf-8
    resp = b'HTTP/1.1 200 OK\r\nContent-Type: text/event-stream\r\n\r\ndata: \xff\n\n'
    err, cl = clientAgainst([(resp, False)])
    report("V3 Client: text/event-stream with a non UTF-8 byte", repr(resp), err,
           CLIENT_RULE, "respondent.errored={0}".format(cl.respondent.errored))

    # V4 Client redirect to IPv6 literal host
    resp = (b'HTTP/1.1 301 Moved Permanently\r\nLocation: http://[::abc]/x\r\n'
            b'Content-Length: 0\r\n\r\n')
    err, cl = clientAgainst([(resp, False)])
    report("V4 Client: redirect Location with IPv6 literal host", repr(resp), err,
           CLIENT_RULE, "responses delivered: {0}".format(len(cl.responses)))

    # V5 Client SSE last event id not latin-1 then server closes, client reconnects
    resp = (b'HTTP/1.1 200 OK\r\nContent-Type: text/event-stream\r\n\r\n'
            b'id: \xe2\x82\xac\ndata: x\n\n')
    err, cl = clientAgainst([(resp, True)], reconnectable=True, tymeout=0.1)
    report("V5 Client: SSE 'id: \\u20ac' (valid UTF-8) then close, reconnectable client",
           repr(resp) + " then FIN", err, CLIENT_RULE,
           "events received: {0}".format(list(cl.events)))

    # V6 TLS servers, bytes that are not a TLS record after a good request
    request = b'GET / HTTP/1.0\r\n\r\n'
    garbage = b'THIS IS NOT A TLS RECORD\r\n\r\n'
    err = serveTlsThenGarbage(serving.Server, request, garbage, app=wsgiApp)
    report("V6a https WSGI Server: encrypted request then raw non-TLS bytes",
           "TLS({0!r}) + raw {1!r}".format(request, garbage), err, SERVER_RULE)
    err = serveTlsThenGarbage(serving.BareServer, request, garbage)
    report("V6b https BareServer: encrypted request then raw non-TLS bytes",
           "TLS({0!r}) + raw {1!r}".format(request, garbage), err, SERVER_RULE)

    # V7 TLS client, response bytes that are not TLS
    err, cl = tlsClientAgainst('plain')
    report("V7a https Client: server answers ClientHello with plaintext HTTP 400",
           repr(b'HTTP/1.1 400 Bad Request\r\nContent-Length: 0\r\n\r\n'), err,
           CLIENT_RULE, "responses delivered: {0}".format(len(cl.responses)))
    err, cl = tlsClientAgainst('tls')
    report("V7b https Client: after TLS handshake server writes plaintext response",
           "raw " + repr(b'HTTP/1.1 200 OK\r\nContent-Length: 0\r\n\r\n'), err,
           CLIENT_RULE, "responses delivered: {0}".format(len(cl.responses)))

    print("=" * 78)
    bad = [name for name, hit in results if hit]
    for name, hit in results:
        print("{0:9s} {1}".format("VIOLATED" if hit else "ok", name))
    return 1 if bad else 0


if __name__ == '__main__':
    sys.exit(main())

"""In-memory hio HTTP servers: the real http.Server / BareServer on a FakeServant (real tcp.Server code,
in-memory accepts), wound to a harness Tymist.  Plus an independent strict HTTP/1.1 response parser."""
from hio.base import tyming
from hio.core.http import serving

from vlib import fakenet
from vlib.core import assert_in_tree

assert_in_tree(serving)


class Rig:
    def __init__(self, app=None, tymeout=None, tock=0.125, bare=False, bs=256, **kwa):
        self.tymist = tyming.Tymist(tyme=0.0, tock=tock)
        skw = {"bs": bs}
        if tymeout is not None:
            skw["tymeout"] = tymeout
        self.servant = fakenet.FakeServant(**skw)
        if bare:
            self.server = serving.BareServer(servant=self.servant, **kwa)
        else:
            self.server = serving.Server(servant=self.servant, app=app, **kwa)
        if hasattr(self.server, 'wind'):
            self.server.wind(self.tymist.tymen())
        else:
            self.servant.wind(self.tymist.tymen())
        self.clients = {}
        self.rx = {}
        self.eof = {}
        self.nextport = 42000

    def connect(self):
        port = self.nextport
        self.nextport += 1
        c = self.servant.connect(port)
        self.clients[port] = c
        self.rx[port] = bytearray()
        self.eof[port] = False
        return port

    def ssock(self, port):
        """Server side fake socket of the connection (after it has been accepted)."""
        ix = self.servant.ixes.get(("127.0.0.1", port))
        return ix.cs if ix is not None else None

    def send(self, port, data):
        c = self.clients[port]
        if not c.closed:
            c.send(data)

    def drain(self):
        for port, c in self.clients.items():
            while True:
                try:
                    d = c.recv(65536)
                except OSError:
                    break
                if not d:
                    self.eof[port] = True
                    break
                self.rx[port].extend(d)

    def cycle(self, tick=True):
        self.server.service()
        self.drain()
        if tick:
            self.tymist.tick()


# ------------------------------------------------------------------ strict response parser

class ParseError(Exception):
    pass


def parse_responses(data, eof):
    """Strictly parse a byte stream of HTTP/1.x responses.
    Returns (responses, leftover, problem). Each response: dict(status, reason, headers(list), body, framing).
    framing in {"length", "chunked", "close"}; a close-delimited response consumes everything and needs eof."""
    out = []
    pos = 0
    n = len(data)
    while pos < n:
        he = data.find(b"\r\n\r\n", pos)
        if he < 0:
            return out, bytes(data[pos:]), "incomplete head"
        head = bytes(data[pos:he]).split(b"\r\n")
        sl = head[0].split(b" ", 2)
        if len(sl) < 2 or not sl[0].startswith(b"HTTP/1.") or not sl[1].isdigit() or len(sl[1]) != 3:
            return out, bytes(data[pos:]), "bad status line %r" % head[0][:60]
        hdrs = []
        for ln in head[1:]:
            if b":" not in ln:
                return out, bytes(data[pos:]), "bad header line %r" % ln[:60]
            k, v = ln.split(b":", 1)
            hdrs.append((k.decode("latin-1").strip().lower(), v.decode("latin-1").strip()))
        hd = dict(hdrs)
        body_start = he + 4
        resp = {"status": int(sl[1]), "reason": sl[2].decode("latin-1") if len(sl) > 2 else "", "headers": hdrs}
        if hd.get("transfer-encoding", "").lower() == "chunked":
            p = body_start
            body = bytearray()
            while True:
                le = data.find(b"\r\n", p)
                if le < 0:
                    return out, bytes(data[pos:]), "incomplete chunk size"
                size_s = bytes(data[p:le]).split(b";")[0]
                if not size_s or any(c not in b"0123456789abcdefABCDEF" for c in size_s):
                    return out, bytes(data[pos:]), "bad chunk size %r" % size_s[:20]
                size = int(size_s, 16)
                p = le + 2
                if size == 0:
                    # trailers until blank line
                    while True:
                        te = data.find(b"\r\n", p)
                        if te < 0:
                            return out, bytes(data[pos:]), "incomplete trailer"
                        line = data[p:te]
                        p = te + 2
                        if not line:
                            break
                    break
                if p + size + 2 > n:
                    return out, bytes(data[pos:]), "incomplete chunk"
                body.extend(data[p:p + size])
                if data[p + size:p + size + 2] != b"\r\n":
                    return out, bytes(data[pos:]), "chunk not terminated by CRLF"
                p += size + 2
            resp["body"] = bytes(body)
            resp["framing"] = "chunked"
            pos = p
        elif "content-length" in hd:
            try:
                ln = int(hd["content-length"])
            except ValueError:
                return out, bytes(data[pos:]), "bad content-length"
            if body_start + ln > n:
                return out, bytes(data[pos:]), "incomplete body (%d of %d)" % (n - body_start, ln)
            resp["body"] = bytes(data[body_start:body_start + ln])
            resp["framing"] = "length"
            pos = body_start + ln
        elif resp["status"] in (204, 304) or 100 <= resp["status"] < 200:
            resp["body"] = b""
            resp["framing"] = "length"
            pos = body_start
        else:
            resp["body"] = bytes(data[body_start:])
            resp["framing"] = "close"
            pos = n
            out.append(resp)
            if not eof:
                return out, b"", "undelimited response on an open connection"
            return out, b"", None
        out.append(resp)
    return out, b"", None

"""Shared core of the hio property checks: case records, known findings,
Hypothesis driving in collect-classify-shrink mode, evidence, protocol lines.

Every property module (vlib/props/Cxx.py) exposes

    PID, RULE, ASSUMPTIONS            text for the evidence file
    LEVEL                             optional, default "exploration"
    searches(tier) -> [(name, strategy, n_examples)]
    run_case(case) -> Result          pure function of (tree, case); case is JSON-able
    enumerate_cases(tier, shard, nshards) -> iterable of cases   (optional, finite sub-domains)

A *case* is plain data (dict / list / str / int / float / bool / None / bytes)
so that the shrunk failure can be written out and replayed without Hypothesis.
"""
import collections
import hashlib
import json
import os
import sys
import time
import traceback

VERIF = os.path.dirname(os.path.dirname(os.path.abspath(__file__)))
REPO_SRC = os.path.realpath(os.environ.get("HIO_SRC", "/repo/src"))
WORK = os.path.join(VERIF, ".work")


class HarnessError(Exception):
    """Problem in the machinery, never a verdict about hio (exit 2)."""


class Violation(Exception):
    def __init__(self, sig, detail=""):
        super().__init__("%s: %s" % (sig, detail))
        self.sig = sig
        self.detail = detail


class Failure:
    __slots__ = ("sig", "detail")

    def __init__(self, sig, detail=""):
        self.sig = sig
        self.detail = str(detail)[:2000]

    def __repr__(self):
        return "Failure(%r, %r)" % (self.sig, self.detail[:200])


class Result:
    """Outcome of running one case against the real code and the oracle."""
    __slots__ = ("failures", "nontrivial", "labels", "canon", "notes")

    def __init__(self, failures=None, nontrivial=False, labels=(), canon=None, notes=None):
        self.failures = list(failures or [])
        self.nontrivial = bool(nontrivial)
        self.labels = list(labels)
        self.canon = canon
        self.notes = notes

    def fail(self, sig, detail=""):
        self.failures.append(Failure(sig, detail))


# ---------------------------------------------------------------- JSON-able cases

def to_jsonable(x):
    if isinstance(x, (bytes, bytearray)):
        return {"$b": bytes(x).hex()}
    if isinstance(x, dict):
        return {str(k): to_jsonable(v) for k, v in x.items()}
    if isinstance(x, (list, tuple)):
        return [to_jsonable(v) for v in x]
    if isinstance(x, float):
        if x != x or x in (float("inf"), float("-inf")):
            return {"$f": repr(x)}
        return x
    if isinstance(x, (str, int, bool)) or x is None:
        return x
    return {"$r": repr(x)}


def from_jsonable(x):
    if isinstance(x, dict):
        if set(x) == {"$b"}:
            return bytes.fromhex(x["$b"])
        if set(x) == {"$f"}:
            return float(x["$f"])
        return {k: from_jsonable(v) for k, v in x.items()}
    if isinstance(x, list):
        return [from_jsonable(v) for v in x]
    return x


def canon_hash(x):
    s = json.dumps(to_jsonable(x), sort_keys=True, separators=(",", ":"), ensure_ascii=True)
    return hashlib.sha1(s.encode()).hexdigest()[:16]


def _shorten(x, limit=160):
    """Readable sample: long strings / byte strings are cut (with a length note)."""
    if isinstance(x, dict):
        if set(x) == {"$b"} and len(x["$b"]) > 2 * limit:
            return {"$b": x["$b"][:2 * limit] + "...", "len": len(x["$b"]) // 2}
        return {k: _shorten(v, limit) for k, v in x.items()}
    if isinstance(x, list):
        if len(x) > 40:
            return [_shorten(v, limit) for v in x[:40]] + ["... %d more" % (len(x) - 40)]
        return [_shorten(v, limit) for v in x]
    if isinstance(x, str) and len(x) > limit:
        return x[:limit] + "...(%d chars)" % len(x)
    return x


# ---------------------------------------------------------------- tree guard

def hio_frame(exc):
    """Innermost traceback frame of exc that lies in the hio tree: 'rel/file.py:func'."""
    found = None
    tb = exc.__traceback__
    for fs in traceback.extract_tb(tb):
        fn = os.path.realpath(fs.filename)
        if fn.startswith(REPO_SRC + os.sep):
            found = "%s:%s" % (os.path.relpath(fn, REPO_SRC), fs.name)
    return found


def exc_sig(exc, prefix="exc"):
    fr = hio_frame(exc)
    return "%s:%s@%s" % (prefix, type(exc).__name__, fr or "?")


def assert_tree():
    import hio
    f = os.path.realpath(hio.__file__)
    if not f.startswith(REPO_SRC + os.sep):
        raise HarnessError("hio imported from %s, not from the tree %s" % (f, REPO_SRC))


def assert_in_tree(*modules):
    for m in modules:
        f = os.path.realpath(m.__file__)
        if not f.startswith(REPO_SRC + os.sep):
            raise HarnessError("%s imported from %s, not the tree" % (m.__name__, f))


# ---------------------------------------------------------------- known findings

KNOWN_PATH = os.path.join(VERIF, "known_findings.json")


def load_known(pid):
    if not os.path.exists(KNOWN_PATH):
        return []
    with open(KNOWN_PATH) as f:
        data = json.load(f)
    out = []
    for e in data.get("findings", []):
        if e.get("property") == pid:
            e = dict(e)
            if "witness" in e:
                e["witness"] = from_jsonable(e["witness"])
            out.append(e)
    return out


# ---------------------------------------------------------------- the check object

class Check:
    def __init__(self, mod, tier, seed, shard=None, nshards=1):
        self.mod = mod
        self.pid = mod.PID
        self.tier = tier
        self.seed = seed
        self.shard = shard
        self.nshards = nshards
        self.evaluations = 0
        self.nontrivial = set()
        self.labels = collections.Counter()
        self.samples = []
        self.plain_samples = []
        self.excluded_known = collections.Counter()
        self.violations = []        # [(sig, detail, case)]
        self.known_lines = []
        self.per_search = {}
        self.exhaustive = {}
        self.notes = collections.Counter()
        self.t0 = time.time()
        known = load_known(self.pid)
        self.open_sigs = {e["signature"]: e for e in known if e.get("status") == "open"}
        self.fixed = [e for e in known if e.get("status") == "fixed"]
        self.session_ignored = set()

    # -- one case ------------------------------------------------------------
    def evaluate(self, case):
        """Run a case; exceptions escaping from inside hio become failures,
        exceptions of the harness itself are harness errors."""
        try:
            r = self.mod.run_case(case)
        except (Violation, HarnessError):
            raise
        except Exception as ex:          # noqa: BLE001 - classified below
            fr = hio_frame(ex)
            if fr is None:
                raise HarnessError("harness exception on case %r: %s" % (
                    _shorten(to_jsonable(case)), traceback.format_exc())) from ex
            r = Result([Failure(exc_sig(ex, "escaped"), traceback.format_exc()[-1500:])],
                       nontrivial=False)
        return r

    def record(self, case, r, search=None):
        self.evaluations += 1
        if search is not None:
            ps = self.per_search.setdefault(search, {"evaluations": 0, "nontrivial": 0})
            ps["evaluations"] += 1
        for lb in r.labels:
            self.labels[lb] += 1
        if r.nontrivial:
            h = canon_hash(r.canon if r.canon is not None else case)
            if h not in self.nontrivial:
                self.nontrivial.add(h)
                if search is not None:
                    self.per_search[search]["nontrivial"] += 1
                if len(self.samples) < 4:
                    self.samples.append(_shorten(to_jsonable(case)))
        elif len(self.plain_samples) < 1:
            self.plain_samples.append(_shorten(to_jsonable(case)))

    def unknown_failures(self, r):
        out = []
        for f in r.failures:
            if f.sig in self.open_sigs:
                self.excluded_known[f.sig] += 1
            elif f.sig in self.session_ignored:
                pass
            else:
                out.append(f)
        return out

    # -- witnesses -----------------------------------------------------------
    def run_witnesses(self):
        for sig, e in sorted(self.open_sigs.items()):
            if "witness" not in e:
                continue
            r = self.evaluate(e["witness"])
            sigs = [f.sig for f in r.failures]
            if sig in sigs:
                self.known_lines.append("KNOWN-FINDING: property=%s %s [%s]" % (
                    self.pid, e.get("what", ""), sig))
            else:
                self.notes["known finding no longer reproduces: " + sig] += 1
            for f in r.failures:
                if f.sig != sig and f.sig not in self.open_sigs:
                    self.add_violation(f, e["witness"])
        for e in self.fixed:
            if "witness" not in e:
                continue
            r = self.evaluate(e["witness"])
            for f in r.failures:
                if f.sig not in self.open_sigs:
                    self.add_violation(f, e["witness"])

    def add_violation(self, f, case):
        for (s, _d, _c) in self.violations:
            if s == f.sig:
                return
        self.violations.append((f.sig, f.detail, case))

    # -- generated search ----------------------------------------------------
    def search(self, name, strategy, n):
        import hypothesis
        from hypothesis import HealthCheck, Phase, given, settings

        rounds = 0
        while rounds < 6:
            rounds += 1
            state = {"target": None, "case": None, "fail": None, "shrinks": 0, "failed": set()}
            budget = 120 if self.tier == "quick" else 500

            def body(case):
                if state["target"] is not None:
                    # shrinking: bounded number of attempts, afterwards only cases already seen failing still fail
                    state["shrinks"] += 1
                    if state["shrinks"] > budget and canon_hash(case) not in state["failed"]:
                        return
                r = self.evaluate(case)
                if state["target"] is None:
                    self.record(case, r, name)
                unk = self.unknown_failures(r)
                if not unk:
                    return
                if state["target"] is None:
                    state["target"] = unk[0].sig
                for f in unk:
                    if f.sig == state["target"]:
                        state["case"] = case
                        state["fail"] = f
                        state["failed"].add(canon_hash(case))
                        raise Violation(f.sig, f.detail)

            prop = given(strategy)(body)
            prop = settings(max_examples=n, database=None, deadline=None, derandomize=False,
                            report_multiple_bugs=False,
                            suppress_health_check=list(HealthCheck),
                            phases=[Phase.explicit, Phase.generate, Phase.target, Phase.shrink],
                            )(prop)
            prop = hypothesis.seed(self.seed * 7919 + rounds - 1)(prop)
            try:
                prop()
                return
            except Violation:
                f = state["fail"]
                self.add_violation(f, state["case"])
                self.session_ignored.add(f.sig)
            except HarnessError:
                raise
            except Exception as ex:     # noqa: BLE001
                if state["fail"] is not None:
                    # the library failed while shrinking (internal error / flaky report): the violation itself
                    # was observed on a concrete case, keep the smallest failing case seen so far
                    f = state["fail"]
                    self.add_violation(f, state["case"])
                    self.session_ignored.add(f.sig)
                    self.notes["shrinker stopped early: %s" % type(ex).__name__] += 1
                else:
                    raise HarnessError("hypothesis: %r" % (ex,)) from ex

    def enumerate(self, name, cases, exhaustive=True):
        cnt = 0
        for case in cases:
            cnt += 1
            r = self.evaluate(case)
            self.record(case, r, name)
            for f in self.unknown_failures(r):
                self.add_violation(f, case)
                self.session_ignored.add(f.sig)
        self.exhaustive[name] = {"cases": cnt, "exhaustive": bool(exhaustive)}

    # -- results -------------------------------------------------------------
    def partial(self):
        return {
            "evaluations": self.evaluations,
            "nontrivial": sorted(self.nontrivial),
            "labels": dict(self.labels),
            "samples": self.samples,
            "plain_samples": self.plain_samples,
            "excluded_known": dict(self.excluded_known),
            "violations": [[s, d, to_jsonable(c)] for s, d, c in self.violations],
            "per_search": self.per_search,
            "exhaustive": self.exhaustive,
            "notes": dict(self.notes),
        }

    def merge(self, part):
        self.evaluations += part["evaluations"]
        self.nontrivial.update(part["nontrivial"])
        self.labels.update(part["labels"])
        for s in part["samples"]:
            if len(self.samples) < 4:
                self.samples.append(s)
        for s in part["plain_samples"]:
            if len(self.plain_samples) < 1:
                self.plain_samples.append(s)
        self.excluded_known.update(part["excluded_known"])
        for s, d, c in part["violations"]:
            self.add_violation(Failure(s, d), from_jsonable(c))
        for k, v in part["per_search"].items():
            ps = self.per_search.setdefault(k, {"evaluations": 0, "nontrivial": 0})
            ps["evaluations"] += v["evaluations"]
            ps["nontrivial"] += v["nontrivial"]
        for k, v in part["exhaustive"].items():
            e = self.exhaustive.setdefault(k, {"cases": 0, "exhaustive": v["exhaustive"]})
            e["cases"] += v["cases"]
        self.notes.update(part["notes"])

    def write_evidence(self):
        mod = self.mod
        cov = {
            "evaluations": self.evaluations,
            "distinct_nontrivial": len(self.nontrivial),
            "rule": mod.RULE,
            "samples": (self.samples + self.plain_samples) or ["<no case generated>"],
            "labels": dict(sorted(self.labels.items())),
            "per_search": self.per_search,
            "excluded_known": dict(self.excluded_known),
            "known_findings_reproduced": len(self.known_lines),
        }
        if self.exhaustive:
            cov["enumerated"] = self.exhaustive
            cov["exhaustive_subdomains"] = sorted(k for k, v in self.exhaustive.items() if v["exhaustive"])
        if self.notes:
            cov["notes"] = dict(self.notes)
        ev = {
            "property_id": self.pid,
            "tier": self.tier,
            "seed": self.seed,
            "level": getattr(mod, "LEVEL", "exploration"),
            "coverage": cov,
            "assumptions": list(getattr(mod, "ASSUMPTIONS", [])),
            "wall_s": round(time.time() - self.t0, 2),
            "violations": len(self.violations),
        }
        os.makedirs(os.path.join(VERIF, "evidence"), exist_ok=True)
        path = os.path.join(VERIF, "evidence", self.pid + ".json")
        tmp = "%s.%d.tmp" % (path, os.getpid())      # unique: two runs of one check must not share the temporary file
        with open(tmp, "w") as f:
            json.dump(ev, f, indent=1, sort_keys=True, ensure_ascii=True)
            f.write("\n")
        os.replace(tmp, path)
        return path

    def write_replays(self):
        out = []
        d = os.path.join(VERIF, "replays", self.pid)
        for sig, detail, case in self.violations:
            os.makedirs(d, exist_ok=True)
            body = {"property": self.pid, "signature": sig, "detail": detail,
                    "case": to_jsonable(case)}
            name = canon_hash(body) + ".json"
            p = os.path.join(d, name)
            with open(p, "w") as f:
                json.dump(body, f, indent=1, ensure_ascii=True)
            out.append(p)
        return out

"""Private network namespace for checks that use real loopback sockets.

isolate() moves the calling process into a fresh network namespace with only its own loopback
interface, so that no other process on the machine (other checks, test runs holding hio's fixed
test ports, ephemeral-port users) can take or occupy a port the harness relies on.  It needs
CAP_SYS_ADMIN; where that is missing it returns False and the caller keeps working in the shared
namespace (the harness then treats its own bind failures as inconclusive cases, never as results).
"""
import fcntl
import os
import socket
import struct

_done = None


def isolate():
    global _done
    if _done is not None:
        return _done
    try:
        os.unshare(os.CLONE_NEWNET)
        s = socket.socket(socket.AF_INET, socket.SOCK_DGRAM)
        try:
            res = fcntl.ioctl(s, 0x8913, struct.pack("16sH22x", b"lo", 0))            # SIOCGIFFLAGS
            flags = struct.unpack("16sH22x", res)[1]
            fcntl.ioctl(s, 0x8914, struct.pack("16sH22x", b"lo", flags | 1))          # SIOCSIFFLAGS, IFF_UP
        finally:
            s.close()
        _done = True
    except (OSError, AttributeError):
        _done = False
    return _done

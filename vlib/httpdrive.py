"""Drive the incremental HTTP parsers the way hio's servers / client drive them.

drive_requestant(fragments) and drive_respondent(fragments, close, method) feed
the byte fragments one by one into the buffer the parser reads from, call
.parse() until it stops making progress, record a snapshot of every message that
ends, and re-arm the parser for pipelined messages exactly as Server.serviceReps /
Client.serviceResponse do.
"""
from hio.core.http import clienting, httping, serving

from vlib.core import assert_in_tree

assert_in_tree(clienting, httping, serving)


class StubRemoter:
    """What Requestant touches on its remoter."""

    def __init__(self):
        self.tymeout = 5.0
        self.ca = ("127.0.0.1", 12345)


def snap_common(p):
    return {
        "headers": {k.lower(): v for k, v in p.headers.items()} if p.headers is not None else None,
        "body": bytes(p.body),
        "trails": ({k.lower(): v for k, v in p.trails.items()} if p.trails else {}),
        "parms": dict(p.parms) if p.parms else {},
        "persisted": p.persisted,
        "errored": p.errored,
        "error": p.error,
        "ended": p.ended,
        "chunked": p.chunked,
        "length": p.length,
        "jsoned": p.jsoned,
        "version": p.version,
    }


def snap_req(p):
    d = snap_common(p)
    d.update(method=p.method, url=p.url, path=p.path, query=p.query, fragment=p.fragment,
             scheme=p.scheme, hostname=p.hostname, port=p.port)
    return d


def snap_resp(p):
    d = snap_common(p)
    d.update(status=p.status, reason=p.reason, evented=p.evented, redirectant=p.redirectant,
             events=[dict(e) for e in p.events], leid=p.leid, retry=p.retry)
    return d


def drive_requestant(frags, idle=(0,)):
    """Returns (results, leftover, raised). results = list of snapshots of ended messages.
    idle[i % len(idle)] further service passes without new bytes follow the i-th read."""
    msg = bytearray()
    rem = StubRemoter()
    req = serving.Requestant(msg=msg, remoter=rem)
    results = []
    raised = None
    stopped = False

    def pump():
        nonlocal raised, stopped
        while True:
            if req.parser is None:
                break
            try:
                req.parse()
            except httping.HTTPException as ex:
                raised = "HTTPException:" + type(ex).__name__
                stopped = True
                break
            if req.parser is None and req.ended:
                results.append(snap_req(req))
                if req.errored or not req.persisted:
                    stopped = True       # the server closes the connection
                    break
                req.makeParser()
                if not msg:
                    break
                continue
            break

    idle = tuple(idle) or (0,)
    for i, frag in enumerate(frags):
        msg.extend(frag)
        for _ in range(1 + idle[i % len(idle)]):
            if not stopped:
                pump()
    return results, bytes(msg), raised


def drive_respondent(frags, close=False, method="GET", idle=(0,)):
    msg = bytearray()
    rsp = clienting.Respondent(msg=msg, method=method)
    results = []
    raised = None
    stopped = False

    def pump():
        nonlocal raised, stopped
        while True:
            try:
                rsp.parse()
            except httping.HTTPException as ex:
                raised = "HTTPException:" + type(ex).__name__
                stopped = True
                return
            if rsp.parser is None and rsp.ended:
                results.append(snap_resp(rsp))
                if rsp.errored:
                    stopped = True
                    return
                rsp.makeParser()
                rsp.reinit(method=method)
                if not msg:
                    return
                continue
            return

    idle = tuple(idle) or (0,)
    for i, frag in enumerate(frags):
        msg.extend(frag)
        for _ in range(1 + idle[i % len(idle)]):
            if not stopped:
                pump()
    if close and not stopped:
        rsp.close()
        pump()
    return results, bytes(msg), raised

"""Reference scheduler for fault-free programs (no raise / extend / remove actions).

Written from the documented cycle model (Doist / DoDoer docstrings and the
property statements), not from doing.py:

  * enter: doers are entered in list order at the start tyme; the value yielded at
    enter is ignored; first due = the enter tyme; a doer that finishes inside enter
    is never scheduled.
  * cycle: every live doer whose due tyme <= tyme runs once, in enter order, and is
    sent the scheduler tyme.  Yield t > 0 -> next due = previous due + t, where the
    previous due of a doer that was asked to run "again next cycle" is the tyme of the
    cycle in which it then ran.  Yield 0 / None -> runs again in the next cycle.
  * the tyme advances by exactly one tock at the end of every cycle (float addition).
  * a DoDoer is a doer of its parent that yields its own tock, runs its own children
    with the tyme it is sent, and completes in the recur in which its last child
    completes (never, when always).
  * stop: no live doers after a cycle -> done True; else limit L and tyme >= start + L
    -> stop, done False; forced closes in reverse enter order, children before parent.
"""


class Ent:
    __slots__ = ("name", "spec", "due", "asap", "i", "kids", "live", "isdd")

    def __init__(self, name, spec):
        self.name = name
        self.spec = spec
        self.due = None
        self.asap = False
        self.i = 0
        self.kids = []
        self.live = True
        self.isdd = spec["k"] == "dodoer"


class Model:
    def __init__(self, prog, nested_asap_bug=False):
        # nested_asap_bug=True reproduces the known defect "a DoDoer stores tyme + its own
        # tock as the next due tyme of a child that yielded 0/None" so that a mismatch can be
        # attributed to exactly that defect and to nothing else.
        self.nested_asap_bug = nested_asap_bug
        self.prog = prog
        self.recurs = {}     # name -> [(cycle, sent)]
        self.term = {}       # name -> 'C' | 'Z' | None (not entered)
        self.done = {}       # name -> expected done value (see judge_done)
        self.finished = {}   # name -> return value when finished on its own
        self.enter_order = []
        self.exit_order = []   # forced exits at the stop, in expected order
        self.order = []      # global recur order [(cycle, name)]
        self.tymes = []
        self.counter = 0

    # -- build + enter ---------------------------------------------------------
    def enter_node(self, spec, tyme):
        name = "d%d" % self.counter
        self.counter += 1
        e = Ent(name, spec)
        self.enter_order.append(name)
        self.recurs[name] = []
        self.done[name] = False
        e.due = tyme
        if e.isdd:
            for s in spec["kids"]:
                k = self.enter_node(s, tyme)
                if k.live:
                    e.kids.append(k)
            return e
        if spec["enter"] == "ret" and spec["k"] != "doer":
            e.live = False
            v = spec["end"][1] if spec["end"][0] == "ret" else True
            self.finish(e, v)
        return e

    def skip_names(self, spec):
        """Count names of a subtree without entering (not used: every node is entered)."""

    def finish(self, e, v):
        self.term[e.name] = "C"
        self.finished[e.name] = v
        self.done[e.name] = v

    # -- one doer step -------------------------------------------------------------
    def step(self, e, tyme, cycle):
        """Run entry e (it is due). Returns True when it stays live."""
        self.recurs[e.name].append((cycle, tyme))
        self.order.append((cycle, e.name))
        if e.isdd:
            self.run_pass(e.kids, tyme, cycle, float(e.spec["tock"]))
            e.kids = [k for k in e.kids if k.live]
            if not e.kids and not e.spec.get("always", False):
                e.live = False
                self.finish(e, True)
                return False, None
            return True, e.spec["tock"]
        spec = e.spec
        steps, end = spec["steps"], spec["end"]
        n = len(steps)
        i = e.i
        y = steps[i][1] if i < n else (steps[-1][1] if steps else spec["tock"])
        e.i = i + 1
        forever = end[0] == "forever" or (spec["k"] == "doer" and not end[1])
        if e.i >= n and not forever:
            e.live = False
            self.finish(e, end[1])
            return False, None
        return True, y

    def run_pass(self, ents, tyme, cycle, dd_tock):
        for e in list(ents):
            if not e.live:
                continue
            if e.asap or e.due <= tyme:
                base = tyme if e.asap else e.due
                live, y = self.step(e, tyme, cycle)
                if live:
                    if not y and self.nested_asap_bug and dd_tock is not None:
                        e.asap = False
                        e.due = tyme + dd_tock
                    elif not y:
                        e.asap = True
                        e.due = tyme
                    else:
                        e.asap = False
                        e.due = base + y

    # -- whole run -------------------------------------------------------------------
    def run(self, max_cycles=400):
        prog = self.prog
        tyme = float(prog.get("tyme", 0.0))
        tock = float(prog["tock"])
        limit = prog.get("limit")
        top = []
        for s in prog["doers"]:
            e = self.enter_node(s, tyme)
            if e.live:
                top.append(e)
        start = tyme
        stop = (start + abs(float(limit))) if limit is not None else None
        cycle = 0
        self.doist_done = False
        self.truncated = False
        while True:
            self.run_pass(top, tyme, cycle, None)
            top = [e for e in top if e.live]
            tyme = tyme + tock
            self.tymes.append(tyme)
            cycle += 1
            if not top:
                self.doist_done = True
                break
            if limit and tyme >= stop:
                break
            if cycle >= max_cycles:
                self.truncated = True
                break
        self.cycles = cycle
        self.tyme = tyme
        # forced closes: reverse enter order, children before parent
        def close(e):
            if not e.live:
                return
            if e.isdd:
                for k in reversed(e.kids):
                    close(k)
            self.term[e.name] = "Z"
            self.exit_order.append(e.name)
        for e in reversed(top):
            close(e)
        return self

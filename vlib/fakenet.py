"""In-memory sockets with a scripted kernel, for running hio's real tcp / http classes
without the operating system (C09, C10, C12, C16, C18, C19).

A FakeSocket implements exactly the calls the tcp classes make.  Two fake sockets
form a pipe.  Each send/recv/do_handshake call consumes one token of the socket's
*kernel script*; when the script is exhausted the kernel is healthy (accepts
everything, delivers everything):

  send:  ["accept", n]  accept min(n, len) >= 1 bytes     ["block"]  would-block
         ["fail", errno-name]  raise OSError(errno) / "SSLEOF" raises ssl.SSLEOFError
  recv:  ["short", k]  deliver at most k >= 1 bytes         ["block"]  would-block although data may wait
         ["fail", errno-name]                               ["eof"]    peer closed: returns b""
  handshake: ["want"] would-block   ["ok"]   ["fail", name]
"""
import errno
import socket
import ssl

from hio.core import tcp
from hio.core.tcp import clienting as tcpc
from hio.core.tcp import serving as tcps

from vlib.core import assert_in_tree

assert_in_tree(tcpc, tcps)

ERRNOS = ["ECONNRESET", "EPIPE", "ENETRESET", "ENETUNREACH", "EHOSTUNREACH", "ENETDOWN", "EHOSTDOWN",
          "ETIMEDOUT", "ECONNREFUSED"]


def make_error(name, tls=False):
    if name == "SSLEOF":
        return ssl.SSLEOFError(ssl.SSL_ERROR_EOF, "EOF occurred in violation of protocol (_ssl.c:1000)")
    if name == "SSLZERORETURN":
        return ssl.SSLZeroReturnError(ssl.SSL_ERROR_ZERO_RETURN, "TLS/SSL connection has been closed (EOF)")
    code = getattr(errno, name)
    return OSError(code, "fake " + name)


class FakeSocket:
    def __init__(self, name, sockname, peername, tls=False):
        self.name = name
        self._sockname = sockname
        self._peername = peername
        self.tls = tls
        self.peer = None
        self.inbuf = bytearray()      # bytes delivered by the peer's kernel, waiting for recv
        self.closed = False           # this end closed
        self.shut_wr = False
        self.send_script = []
        self.recv_script = []
        self.hs_script = []
        self.accepted = bytearray()   # bytes this socket's kernel accepted from send() calls, in order
        self.delivered = bytearray()  # bytes handed to the application by recv(), in order
        self.calls = []               # ("send", n) / ("recv", n) / ...
        self.peer_gone = False        # getpeername raises when True (after a reset)

    # -- plumbing the tcp classes call ------------------------------------------------
    def setblocking(self, flag):
        pass

    def setsockopt(self, *a):
        pass

    def getsockopt(self, *a):
        return 1 << 16

    def fileno(self):
        return -1

    def getpeername(self):
        if self.peer_gone or self.closed:
            raise OSError(errno.ENOTCONN, "Transport endpoint is not connected")
        return self._peername

    def getsockname(self):
        return self._sockname

    def shutdown(self, how):
        if self.closed:
            raise OSError(errno.EBADF, "Bad file descriptor")
        if how in (socket.SHUT_WR, socket.SHUT_RDWR):
            self.shut_wr = True

    def close(self):
        self.closed = True
        self.shut_wr = True

    def _block(self, reading):
        if self.tls:
            return ssl.SSLWantReadError(ssl.SSL_ERROR_WANT_READ, "want read") if reading else \
                ssl.SSLWantWriteError(ssl.SSL_ERROR_WANT_WRITE, "want write")
        return BlockingIOError(errno.EAGAIN, "Resource temporarily unavailable")

    def reset_by_peer(self):
        """The peer closed abortively (RST).  As on Linux: bytes already queued are still delivered by recv, but the
        socket is no longer connected (getpeername raises ENOTCONN); afterwards recv raises ECONNRESET and send EPIPE."""
        self.peer_gone = True
        self.rst = True

    def send(self, data):
        if self.closed:
            raise OSError(errno.EBADF, "Bad file descriptor")
        if getattr(self, "rst", False):
            self.calls.append(("send-fail", "EPIPE"))
            raise make_error("EPIPE", self.tls)
        tok = self.send_script.pop(0) if self.send_script else None
        data = bytes(data)
        if tok is not None:
            if tok[0] in ("block", "block-x"):
                self.calls.append(("send-block", len(data)))
                # "block-x": on TLS the other want-kind (a send may need to read, a recv may need to write)
                raise self._block(tok[0] == "block-x")
            if tok[0] == "fail":
                self.calls.append(("send-fail", tok[1]))
                raise make_error(tok[1], self.tls)
            n = max(1, min(int(tok[1]), len(data))) if data else 0
        else:
            n = len(data)
        if self.peer is not None and self.peer.closed:
            # healthy kernel, peer already gone: first write is accepted by real kernels too; keep simple
            pass
        part = data[:n]
        self.accepted.extend(part)
        if self.peer is not None and not self.peer.closed:
            self.peer.inbuf.extend(part)
        self.calls.append(("send", n))
        return n

    def recv(self, bs):
        if self.closed:
            raise OSError(errno.EBADF, "Bad file descriptor")
        tok = self.recv_script.pop(0) if self.recv_script else None
        limit = bs
        if tok is not None:
            if tok[0] in ("block", "block-x"):
                self.calls.append(("recv-block", 0))
                raise self._block(tok[0] == "block")
            if tok[0] == "fail":
                self.calls.append(("recv-fail", tok[1]))
                raise make_error(tok[1], self.tls)
            if tok[0] == "eof":
                self.calls.append(("recv-eof", 0))
                return b""
            if tok[0] == "short":
                limit = max(1, min(bs, int(tok[1])))
        if self.inbuf:
            part = bytes(self.inbuf[:limit])
            del self.inbuf[:limit]
            self.delivered.extend(part)
            self.calls.append(("recv", len(part)))
            return part
        if getattr(self, "rst", False):
            self.calls.append(("recv-fail", "ECONNRESET"))
            raise make_error("ECONNRESET", self.tls)
        if self.peer is None or self.peer.closed or self.peer.shut_wr:
            self.calls.append(("recv-eof", 0))
            return b""
        self.calls.append(("recv-block", 0))
        raise self._block(True)

    def do_handshake(self):
        tok = self.hs_script.pop(0) if self.hs_script else ["ok"]
        if tok[0] == "want":
            raise self._block(True)
        if tok[0] == "fail":
            raise make_error(tok[1], True)
        return None


def pipe(a_name="a", b_name="b", a_addr=("127.0.0.1", 40000), b_addr=("127.0.0.1", 8080), tls=False):
    """Two connected fake sockets: a (client side) and b (server side)."""
    a = FakeSocket(a_name, a_addr, b_addr, tls=tls)
    b = FakeSocket(b_name, b_addr, a_addr, tls=tls)
    a.peer, b.peer = b, a
    return a, b


# ------------------------------------------------------------------ endpoints on fake sockets

_TLS_CTX = {}


def server_ctx():
    if "s" not in _TLS_CTX:
        ctx = ssl.SSLContext(ssl.PROTOCOL_TLS_SERVER)
        certs = "/repo/tests/core/tcp/certs"
        import os
        keyp = os.path.join(certs, "server_key.pem")
        certp = os.path.join(certs, "server_cert.pem")
        if os.path.exists(keyp) and os.path.exists(certp):
            ctx.load_cert_chain(certfile=certp, keyfile=keyp)
        ctx.verify_mode = ssl.CERT_NONE
        _TLS_CTX["s"] = ctx
    return _TLS_CTX["s"]


def client_ctx():
    if "c" not in _TLS_CTX:
        ctx = ssl.SSLContext(ssl.PROTOCOL_TLS_CLIENT)
        ctx.check_hostname = False
        ctx.verify_mode = ssl.CERT_NONE
        _TLS_CTX["c"] = ctx
    return _TLS_CTX["c"]


def make_endpoint(kind, sock, wl=None, bs=64, tymth=None):
    """Real hio endpoint object of the given class running on the fake socket."""
    if kind == "Client":
        c = tcpc.Client(ha=sock._peername, bs=bs, wl=wl, tymth=tymth)
        c.cs = sock
        c.accepted = True
        c.opened = True
        return c
    if kind == "ClientTls":
        c = tcpc.ClientTls(ha=sock._peername, bs=bs, wl=wl, context=client_ctx(), tymth=tymth)
        sock.tls = True
        c.cs = sock
        c.accepted = True
        c.connected = True
        c.opened = True
        return c
    if kind == "Remoter":
        return tcps.Remoter(ha=sock._sockname, ca=sock._peername, cs=sock, bs=bs, wl=wl, tymth=tymth)
    if kind == "RemoterTls":
        # RemoterTls wraps its socket in the constructor: build it on a real socketpair end, then swap
        s1, s2 = socket.socketpair()
        try:
            r = tcps.RemoterTls(ha=sock._sockname, ca=sock._peername, cs=s1, bs=bs, wl=wl, tymth=tymth,
                                context=server_ctx())
            real = r.cs
            sock.tls = True
            r.cs = sock
            r.connected = True
            try:
                real.close()
            except OSError:
                pass
        finally:
            s1.close()
            s2.close()
        return r
    raise ValueError(kind)


class FakeServant(tcps.Server):
    """tcp.Server whose accepts come from the harness instead of a listen socket.
    Everything else (serviceAxes -> Remoter creation, ixes handling, service loops) is the real code."""

    def __init__(self, **kwa):
        kwa.setdefault("ha", ("127.0.0.1", 8080))
        super().__init__(**kwa)
        self.pending = []
        self.opened = True

    def serviceAccepts(self):
        while self.pending:
            cs = self.pending.pop(0)
            self.axes.append((cs, cs._peername))

    def connect(self, port, name=None):
        """Harness side: a new client connection. Returns the client-side fake socket."""
        a, b = pipe(a_name=name or "c%d" % port, b_name="s%d" % port,
                    a_addr=("127.0.0.1", port), b_addr=(self.eha[0], self.eha[1]))
        self.pending.append(b)
        return a

    def open(self):
        self.opened = True
        return True

    def reopen(self, **kwa):
        return True


class FakeTlsContext:
    """Stands in for ssl.SSLContext on the server side: 'wrapping' a fake socket just marks it as TLS; its handshake then
    follows the socket's hs_script."""
    verify_mode = ssl.CERT_NONE

    def wrap_socket(self, sock, server_side=True, do_handshake_on_connect=False, **kwa):
        sock.tls = True
        return sock


class FakeServantTls(tcps.ServerTls):
    """tcp.ServerTls whose accepts come from the harness; serviceAxes / serviceCxes / RemoterTls are the real code."""

    def __init__(self, **kwa):
        kwa.setdefault("ha", ("127.0.0.1", 8080))
        kwa.setdefault("context", FakeTlsContext())
        super().__init__(**kwa)
        self.pending = []
        self.opened = True

    serviceAccepts = FakeServant.serviceAccepts
    connect = FakeServant.connect
    open = FakeServant.open
    reopen = FakeServant.reopen


class FakeConnector(tcpc.Client):
    """tcp.Client that 'connects' to a harness-side fake socket from a registry keyed by (host, port)."""
    registry = {}      # (host, port) -> callable returning the client-side fake socket, or None (refuse)
    opened_to = []     # log of authorities connected to

    def open(self):
        self.accepted = False
        self.cutoff = False
        self.cs = None
        self.opened = True
        return True

    def accept(self):
        if self.cs is None or getattr(self.cs, "closed", False):
            maker = FakeConnector.registry.get(tuple(self.ha))
            FakeConnector.opened_to.append(tuple(self.ha))
            if maker is None:
                return False
            self.cs = maker()
        self.ca = self.cs.getsockname()
        self.accepted = True
        self.cutoff = False
        return True

    def close(self):
        if self.cs:
            try:
                self.cs.close()
            except OSError:
                pass
            self.cs = None
        self.accepted = False
        self.opened = False


class FakeConnectorTls(FakeConnector, tcpc.ClientTls):
    """TLS flavoured connector: only isinstance(ClientTls) and the SSL want-read/want-write signalling matter."""

    def __init__(self, **kwa):
        kwa.setdefault("context", client_ctx())
        tcpc.ClientTls.__init__(self, **kwa)

    def accept(self):
        ok = FakeConnector.accept(self)
        if ok:
            self.cs.tls = True
            self.connected = True
        return ok

    def connect(self):
        return self.accept()

    def close(self):
        FakeConnector.close(self)
        self.connected = False

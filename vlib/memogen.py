"""Memo / gram helpers for C20, C22: deterministic key material, memoers with deterministic memo ids,
delivery through the documented test channel (.echos with echoic receive)."""
import base64
import hashlib

import pysodium

from hio.core.memo import memoing
from hio.core.memo.memoing import Keyage, MemoDex, Memoer

from vlib.core import assert_in_tree

assert_in_tree(memoing)

ZERO_CODES = [MemoDex.GramZero, MemoDex.GramAuthZero, MemoDex.GramSureZero, MemoDex.GramSureAuthZero]
AUTH_ZERO = (MemoDex.GramAuthZero, MemoDex.GramSureAuthZero)


def _keys(tag, code):
    seed = hashlib.blake2b(b"hio-verif-" + tag.encode(), digest_size=32).digest()
    verkey, _sigkey = pysodium.crypto_sign_seed_keypair(seed)
    raw = verkey if code in ("B", "D") else hashlib.blake2b(verkey, digest_size=32).digest()
    vid = Memoer._encodeVID(raw=raw, code=code)
    return vid, Keyage(qvk=Memoer._encodeQVK(raw=verkey), qss=Memoer._encodeQSS(raw=seed))


# three signers: non-transferable (key in the vid itself), transferable and digest vids (key looked up in keep)
SIGNERS = [_keys("signer-0", "B"), _keys("signer-1", "D"), _keys("signer-2", "E")]
KEEP = {vid: ka for vid, ka in SIGNERS}
# a signer the receiver does not know (vid code D so that the key must come from keep)
STRANGER = _keys("stranger", "D")
# a transferable signer whose key was rotated: the vid still embeds the first key, every keep holds the current one
ROTATED_OLD = _keys("rotated-old", "D")                          # same vid, superseded key: what a holder of the old key can sign
ROTATED = (ROTATED_OLD[0], _keys("rotated-new", "D")[1])
KEEP[ROTATED[0]] = ROTATED[1]


def signer_at(s):
    """0-2 known signers, 3 unknown to the receiver, 4 rotated (current key), 5 rotated vid with the superseded key."""
    return (SIGNERS + [STRANGER, ROTATED, ROTATED_OLD])[s % 6]


class DetMemoer(Memoer):
    """Memoer with deterministic memo ids (the library draws them from uuid1)."""
    _counter = [0]

    @classmethod
    def makeMID(cls, code="0A"):
        cls._counter[0] += 1
        raw = hashlib.blake2b(b"mid-%d" % cls._counter[0], digest_size=16).digest()
        ps = (3 - (len(raw) % 3)) % 3
        return code + base64.urlsafe_b64encode(bytes([0] * ps) + raw)[ps:].decode()


def reset_mids():
    DetMemoer._counter[0] = 0


def sender(code, curt, size, signer=0):
    who = signer_at(signer)
    vid = who[0] if code in AUTH_ZERO else None
    keep = dict(KEEP)
    keep[STRANGER[0]] = STRANGER[1]
    keep[who[0]] = who[1]
    m = DetMemoer(code=code, curt=curt, size=size, keep=keep, vid=vid)
    m.opened = True
    return m


def receiver(authic):
    m = DetMemoer(authic=authic, echoic=True, keep=dict(KEEP))
    m.opened = True
    return m


def min_size(code, curt):
    """Smallest legal gram size for the code / encoding as the size property itself computes it."""
    m = DetMemoer(code=code, curt=curt, size=1)
    return m.size

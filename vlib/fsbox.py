"""Sandbox for checks that run code which creates and removes directories (Filer and its subclasses:
Duror / Subery stores, uxd peers).  install(box) puts guard proxies on hio.base.filing's module level os, shutil,
tempfile and ocfn: any creating / removing / changing call on a path that is not strictly inside the box raises
EscapeAttempt instead of being executed.  (An earlier version of the C29 check without this guard let the then
unrepaired Filer remove the harness' own directory; never run Filer code on generated names without it.)"""
import os
import shutil

from hio.base import filing
from vlib.core import WORK, assert_in_tree

assert_in_tree(filing)

_STATE = {"box": None}


def _box():
    if _STATE["box"] is None:
        raise AssertionError("fsbox.install() was not called")
    return _STATE["box"]


class EscapeAttempt(Exception):
    """The code under test tried to create / remove / change a path outside the sandbox. Not an OSError on
    purpose: Filer's own 'except OSError' fallbacks must not swallow it."""

    def __init__(self, op, path):
        super().__init__("%s(%r)" % (op, path))
        self.op = op
        self.path = path


def _inside_box(path):
    p = os.path.realpath(os.path.abspath(os.fspath(path)))
    b = os.path.realpath(_box())
    return p.startswith(b + os.sep)          # strictly inside: the box itself may not be removed either


class _Guard:
    """Module proxy: attribute access falls through to the real module; the listed callables check their leading
    path arguments first; `overrides` replaces callables outright."""

    def __init__(self, real, guarded, overrides=None):
        self._real = real
        self._guarded = guarded
        self._overrides = overrides or {}

    def __getattr__(self, name):
        if name in self._overrides:
            return self._overrides[name]
        val = getattr(self._real, name)
        npaths = self._guarded.get(name)
        if npaths is None:
            return val

        def checked(*a, **kw):
            for x in list(a[:npaths]) + [kw[k] for k in ("path", "name", "src", "dst", "dir") if k in kw]:
                if isinstance(x, (str, bytes, os.PathLike)) and not _inside_box(x):
                    raise EscapeAttempt("%s.%s" % (self._real.__name__, name), os.fspath(x))
            return val(*a, **kw)
        return checked


_OS_GUARDED = {"makedirs": 1, "mkdir": 1, "remove": 1, "unlink": 1, "rmdir": 1, "removedirs": 1, "chmod": 1, "chown": 1,
               "rename": 2, "replace": 2, "renames": 2, "open": 1, "symlink": 2, "link": 2, "truncate": 1, "mkfifo": 1}
_SHUTIL_GUARDED = {"rmtree": 1, "move": 2, "copy": 2, "copy2": 2, "copyfile": 2, "copytree": 2, "chown": 1}

import tempfile as _real_tempfile     # noqa: E402
_real_ocfn = filing.ocfn


def _guarded_mkdtemp(suffix=None, prefix=None, dir=None):      # noqa: A002
    if dir is None or not _inside_box(os.path.join(dir, "x")):
        raise EscapeAttempt("tempfile.mkdtemp", str(dir))
    return _real_tempfile.mkdtemp(suffix=suffix, prefix=prefix, dir=dir)


def _guarded_ocfn(path, *a, **kw):
    if not _inside_box(path):
        raise EscapeAttempt("ocfn", os.fspath(path))
    return _real_ocfn(path, *a, **kw)


for _name in ("os", "shutil", "tempfile", "ocfn"):
    if not hasattr(filing, _name):
        raise AssertionError("hio.base.filing no longer has a module level %r: the guard must be revisited before "
                             "this check may run" % _name)
filing.os = _Guard(os, _OS_GUARDED)
filing.shutil = _Guard(shutil, _SHUTIL_GUARDED)
filing.tempfile = _Guard(_real_tempfile, {}, {"mkdtemp": _guarded_mkdtemp})
filing.ocfn = _guarded_ocfn


def install(box):
    """Declare the sandbox root (must lie under /verif/.work) - the guard proxies are already in place."""
    box = os.path.abspath(box)
    if not box.startswith(WORK + os.sep):
        raise AssertionError("sandbox misplaced: %r" % box)
    _STATE["box"] = box
    return box


inside = _inside_box

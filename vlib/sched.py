"""Scheduler programs: JSON-able description -> real hio doers that log a trace.

Program
  {"tock": f, "tyme": f, "limit": f|None, "doers": [node...], "pool": [leaf...]}
Leaf node
  {"k": "doer"|"redoer"|"doify"|"doize"|"method",
   "tock": y0,                     doer's own tock attribute == value yielded at enter (ignored by schedulers)
   "enter": "ok"|"raise"|"ret",    "ret" (finish inside enter) only for generator kinds
   "enter_act": action | absent,   a membership call made from the doer's ENTER context (Doer.enter(), or the code before
                                   the first yield of a generator function), right after the enter event is logged
   "steps": [[action, y], ...],    step i = i-th recur: log, do action, then yield y (last step: finish per "end")
   "end": ["ret", v] | ["forever"]}
  action: None | ["raise"] | ["kbi"] | ["extend", up, [target...]] | ["remove", up, [target...]]
          | ["seq", [action...]]    several calls one after the other in the same context (e.g. remove then extend of one
                                    doer = restart it); absent in old cases
          up = how many scheduler levels above the doer's own host the call is made on (0 = own host)
          target = ["live", i] (host.doers[i % len]) | ["pool", j] | ["self"] | ["name", "d3"]
                   | ["sib", i] (the i-th leaf doer, modulo, the host was BUILT with: names the same doer before and after a remove)
          A doer named by the caller (self / pool / name / sib) that is a bound method is passed as a freshly fetched bound
          method, as `self.workDo` written in a call is: equal to, but not the same object as, the one passed earlier.
DoDoer node
  {"k": "dodoer", "tock": f, "always": bool, "kids": [node...]}

Event alphabet (per doer): enter E, recur R, clean C, cease Z, abort A, exit X
(DoDoers additionally log exit-begin 'x' before closing their children).
"""
import asyncio
import gc
import types

from hio.base import doing

from vlib.core import assert_in_tree

assert_in_tree(doing)


class Stop(Exception):
    """Raised by a scripted doer (the 'raise' action)."""


class Runaway(Exception):
    """The run exceeded MAX_CYCLES (no generated program needs more than a few hundred)."""


MAX_CYCLES = 3000


class SeqSet(set):
    """set of names that also remembers the trace position (number of events so far) of the latest add:
    a pool doer can live several lifecycles, and 'returned by itself' belongs to one of them."""

    def __init__(self, trace):
        super().__init__()
        self.trace = trace
        self.seq = {}

    def add(self, name):
        self.seq[name] = len(self.trace.ev)
        super().add(name)


class Trace:
    def __init__(self):
        self.ev = []          # (seq, code, name, cycle, sent, tymth)
        self.doist = None
        self.calls = []       # membership call records for C06
        self.returned = None  # seq at which do() returned
        self.open = set()     # names with an entered and not yet exited lifecycle
        self.skipped = []     # membership targets the harness refused to pass on (undefined by the API)
        self.raised = {}      # name -> 'Stop' | 'kbi' | 'call' : the doer's own code raised
        self.own_return = SeqSet(self)   # names whose own code returned (finished by itself), with trace position
        self.raised_seq = {}      # name -> trace position at which its own code raised
        self.entering = []        # names whose enter context is in progress right now (innermost last)
        self.nest = {}            # seq of an 'E' event -> names whose enter context was in progress when it was logged

    def log(self, code, name, sent=None, tymth=None):
        d = self.doist
        t = None
        if tymth is not None:
            try:
                t = tymth()
            except Exception:   # noqa: BLE001
                t = "ERR"
        self.ev.append((len(self.ev), code, name, d.cycles if d is not None else -1, sent, t))
        if code == "E":
            self.nest[len(self.ev) - 1] = tuple(self.entering)
            self.open.add(name)
        elif code == "X":
            self.open.discard(name)


class TDoist(doing.Doist):
    """Doist that counts its ticks (cycle index) and remembers the tyme after each."""

    def __init__(self, **kwa):
        super().__init__(**kwa)
        self.cycles = 0
        self.tymes = []

    def tick(self, tock=None):
        r = super().tick(tock)
        self.cycles += 1
        if self.cycles > MAX_CYCLES:
            raise Runaway()
        self.tymes.append(self.tyme)
        return r


class Ctx:
    """Build context: name -> doer object, doer object -> host chain."""

    def __init__(self, trace):
        self.trace = trace
        self.by_name = {}
        self.spec = {}
        self.host = {}        # name -> host scheduler object (set at build; pool doers get host when extended)
        self.host_log = []    # (event seq, name, host) every time a doer is given a host (a pool doer may serve several)
        self.parent = {}      # scheduler name -> its host scheduler (doist has none)
        self.pool = []
        self.doist = None
        self.pending = []     # one set of names per extend() call in progress (innermost last): the doers it was given
        self.acting = []      # names of the doers whose scripted membership call is on the Python stack (innermost last)
        self.members0 = {}    # scheduler name ('doist' or a DoDoer's) -> names of the doers it was built with


def _fetch(o):
    """The doer as a caller names it in a call: a bound method (`obj.meth`) is a new, equal object on every attribute access."""
    if hasattr(o, "__func__") and hasattr(o, "__self__"):
        return types.MethodType(o.__func__, o.__self__)
    return o


def _resolve(ctx, host, me_name, targets):
    out = []
    for t in targets:
        if t[0] == "self":
            out.append(_fetch(ctx.by_name[me_name]))
        elif t[0] == "pool":
            if ctx.pool:
                out.append(_fetch(ctx.pool[t[1] % len(ctx.pool)]))
        elif t[0] == "name":
            if t[1] in ctx.by_name:
                out.append(_fetch(ctx.by_name[t[1]]))
        elif t[0] == "sib":
            # only leaf doers whose own enter context makes no call (like the pool doers): a doer that is entered again
            # inside extend() and calls the scheduler from there nests a call inside a call on one list; a restarted
            # DoDoer enters its children again with the same effect (not modelled by C06's oracle, see its ASSUMPTIONS)
            names = [n for n in ctx.members0.get(getattr(host, "vname", None) or "doist") or []
                     if ctx.spec[n]["k"] != "dodoer" and not ctx.spec[n].get("enter_act")]
            if names:
                out.append(_fetch(ctx.by_name[names[t[1] % len(names)]]))
        elif t[0] == "live":
            ds = host.doers
            if ds:
                out.append(ds[t[1] % len(ds)])
    return out


def _host_up(ctx, name, up):
    h = ctx.host[name]
    for _ in range(up):
        nm = getattr(h, "vname", None)
        if nm is None or nm not in ctx.host:
            break
        h = ctx.host[nm]
    return h


def _enter_act(ctx, name, spec):
    """The scripted membership call of a doer's ENTER context (spec["enter_act"], absent in old cases)."""
    action = spec.get("enter_act")
    tr = ctx.trace
    tr.entering.append(name)
    try:
        if action is not None and ctx.host.get(name) is not None:
            _act(ctx, name, action, where="enter")
    finally:
        tr.entering.pop()


def _act(ctx, name, action, where="recur"):
    if action is None:
        return
    ctx.acting.append(name)
    try:
        return _act1(ctx, name, action, where)
    finally:
        ctx.acting.pop()


def _act1(ctx, name, action, where):
    a = action[0]
    if a == "seq":
        for sub in action[1]:
            if sub is not None:
                _act1(ctx, name, sub, where)
        return
    if a == "raise":
        ctx.trace.raised[name] = "Stop"
        raise Stop(name)
    if a == "kbi":
        ctx.trace.raised[name] = "kbi"
        raise KeyboardInterrupt()
    if a in ("extend", "remove"):
        host = _host_up(ctx, name, action[1])
        objs = _resolve(ctx, host, name, action[2])
        tr = ctx.trace
        if a == "remove":
            # removing a DoDoer from inside one of its own descendants closes a running generator: undefined
            anc = set()
            h = ctx.host.get(name)
            while h is not None and getattr(h, "vname", None):
                anc.add(h.vname)
                h = ctx.host.get(h.vname)
            keep = [o for o in objs if vname(o) not in anc]
            if len(keep) != len(objs):
                tr.skipped.append(("remove-own-ancestor", name))
            objs = keep
            # removing ANOTHER doer whose own call is on the stack right now (this enter context was triggered by that
            # doer's extend), or a DoDoer above such a doer: not a removal "of self", and it cannot be closed: undefined
            busy = set()
            for other in ctx.acting[:-1]:
                if other == name:
                    continue
                busy.add(other)
                h = ctx.host.get(other)
                while h is not None and getattr(h, "vname", None):
                    busy.add(h.vname)
                    h = ctx.host.get(h.vname)
            keep = [o for o in objs if vname(o) not in busy]
            if len(keep) != len(objs):
                tr.skipped.append(("remove-doer-on-the-stack", name))
            objs = keep
        else:
            # re-adding a doer that is still running (it removed itself, or lives under another host): undefined
            keep = [o for o in objs if not (vname(o) in tr.open and o not in host.doers)]
            if len(keep) != len(objs):
                tr.skipped.append(("extend-still-running", name))
            objs = keep
            # ... and a doer that an extend() call still in progress further up the stack is about to enter (this enter
            # context runs inside that call): it would end up running under two schedulers at once
            keep = [o for o in objs if not any(vname(o) in names for names in ctx.pending)]
            if len(keep) != len(objs):
                tr.skipped.append(("extend-pending-in-outer-call", name))
            objs = keep
            # ... and a doer that would thereby run under two schedulers at once through a STALE membership: a DoDoer keeps
            # the doers it was given in .doers after it was closed and enters them all when it is entered again.  Not passed
            # on: a DoDoer one of whose (transitive) members is running somewhere right now, and a doer that is a listed
            # member of another target of this call (or of a doer an outer extend() is about to enter) - that other
            # scheduler is going to enter it as well.  The caller made the doer a member of two schedulers; undefined.
            def _members(o, seen=None):
                seen = set() if seen is None else seen
                for m in list(getattr(o, "doers", None) or []):
                    if id(m) not in seen:
                        seen.add(id(m))
                        yield m
                        yield from _members(m, seen)
            keep = [o for o in objs if o in host.doers or not any(vname(m) in tr.open for m in _members(o))]
            if len(keep) != len(objs):
                tr.skipped.append(("extend-dodoer-with-running-member", name))
            objs = keep
            # ... nor a DoDoer that shares a (transitive) member with a scheduler outside its own subtree (the member finished
            # there earlier and stays listed, or was handed to both): entering the DoDoer starts that member under it while
            # the other scheduler still lists it
            def _shared(o):
                sub = [o] + list(_members(o))
                inside = {id(x) for x in sub}
                scheds = [ctx.doist] + [x for x in ctx.by_name.values() if getattr(x, "doers", None) is not None]
                for m in sub[1:]:
                    for sch in scheds:
                        if id(sch) not in inside and any(x == m for x in (sch.doers or [])):
                            return True
                return False
            # ... nor a doer that another scheduler (running or not) still lists: a doer is given to one scheduler; handing it
            # to a second one while the first still lists it makes every later attribution of its lifecycles ambiguous
            def _listed_elsewhere(o):
                scheds = [ctx.doist] + [x for x in ctx.by_name.values() if getattr(x, "doers", None) is not None]
                return any(sch is not host and any(x == o for x in (sch.doers or [])) for sch in scheds)
            keep = [o for o in objs if o in host.doers or not _listed_elsewhere(o)]
            if len(keep) != len(objs):
                tr.skipped.append(("extend-listed-by-another-scheduler", name))
            objs = keep
            keep = [o for o in objs if o in host.doers or not _shared(o)]
            if len(keep) != len(objs):
                tr.skipped.append(("extend-dodoer-with-shared-member", name))
            objs = keep
            others = [ctx.by_name[n] for names in ctx.pending for n in names if n in ctx.by_name]
            keep = []
            for o in objs:
                listers = [q for q in objs + others if q != o and q is not host
                           and any(m == o for m in _members(q))]
                if o not in host.doers and listers:
                    continue
                keep.append(o)
            if len(keep) != len(objs):
                tr.skipped.append(("extend-member-of-another-target", name))
            objs = keep
        rec = {"op": a, "by": name, "host": getattr(host, "vname", "doist"),
               "args": [vname(o) for o in objs], "seq0": len(tr.ev),
               "before": [vname(o) for o in host.doers], "cycle": ctx.doist.cycles, "where": where,
               # called from an enter context that runs before the scheduler's first cycle (no doer has recurred yet)
               "prerun": where == "enter" and not any(e[1] == "R" for e in tr.ev)}
        tr.calls.append(rec)
        if a == "extend":
            for o in objs:
                if o not in host.doers:
                    # only a doer that is not yet listed gets entered by extend(): it starts a lifecycle under this host.
                    # (A pool doer that finished here earlier stays listed; extending it again is a no-op and must not
                    # re-attribute a lifecycle it is running under another scheduler.)
                    ctx.host[vname(o)] = host
                    ctx.host_log.append((len(tr.ev), vname(o), host))
            ctx.pending.append({vname(o) for o in objs})
            try:
                host.extend(objs)
            except BaseException as ex:
                tr.raised[name] = "call"
                rec["exc"] = type(ex).__name__
                raise
            finally:
                ctx.pending.pop()
                rec["seq1"] = len(tr.ev)
                rec["after"] = [vname(o) for o in host.doers]
        else:
            try:
                host.remove(objs)
            except BaseException as ex:
                tr.raised[name] = "call"
                rec["exc"] = type(ex).__name__
                raise
            finally:
                rec["seq1"] = len(tr.ev)
                rec["after"] = [vname(o) for o in host.doers]
        return
    raise ValueError(action)


def vname(o):
    n = getattr(o, "vname", None)
    if n is None and hasattr(o, "__func__"):
        n = getattr(o.__func__, "vname", None)
    return n


def get_done(o):
    return o.done


# ------------------------------------------------------------------ leaf kinds

def make_genfunc(ctx, name, spec):
    """Generator function with the canonical bareDo skeleton driven by the script."""
    tr = ctx.trace
    steps = spec["steps"]
    end = spec["end"]

    def f(tymth=None, tock=0.0, **opts):
        done = False
        try:
            tr.log("E", name, None, tymth)
            _enter_act(ctx, name, spec)
            if spec["enter"] == "raise":
                tr.raised[name] = "Stop"
                raise Stop(name)
            if spec["enter"] != "ret":
                tyme = yield spec["tock"]
                i = 0
                n = len(steps)
                while True:
                    if i < n:
                        action, y = steps[i]
                    else:
                        action, y = None, (steps[-1][1] if steps else spec["tock"])
                    tr.log("R", name, tyme, tymth)
                    obs = ctx.by_name[name]
                    if i == 0:
                        tr.firstdone[name] = get_done(obs)
                    _act(ctx, name, action)
                    i += 1
                    if i >= n and end[0] == "ret":
                        break
                    tyme = yield y
            done = end[1] if end[0] == "ret" else True
            tr.own_return.add(name)
        except GeneratorExit:
            tr.log("Z", name, None, tymth)
        except Exception:
            tr.log("A", name, None, tymth)
            raise
        else:
            tr.log("C", name, None, tymth)
        finally:
            tr.log("X", name, None, tymth)
        return done

    return f


class ScriptDoer(doing.Doer):
    """Doer subclass with a plain (non generator) recur."""

    def __init__(self, ctx, name, spec, **kwa):
        super().__init__(tock=spec["tock"], **kwa)
        self.ctx, self.vname, self.spec = ctx, name, spec
        self.i = 0

    def enter(self, *, temp=None):
        self.i = 0
        self.ctx.trace.log("E", self.vname, None, self.tymth)
        _enter_act(self.ctx, self.vname, self.spec)
        if self.spec["enter"] == "raise":
            self.ctx.trace.raised[self.vname] = "Stop"
            raise Stop(self.vname)

    def recur(self, tyme):
        steps, end = self.spec["steps"], self.spec["end"]
        n = len(steps)
        i = self.i
        if i < n:
            action, y = steps[i]
        else:
            action, y = None, (steps[-1][1] if steps else self.spec["tock"])
        tr = self.ctx.trace
        tr.log("R", self.vname, tyme, self.tymth)
        if i == 0:
            tr.firstdone[self.vname] = self.done
        _act(self.ctx, self.vname, action)
        self.i = i + 1
        if self.i >= n and end[0] == "ret" and end[1]:
            tr.own_return.add(self.vname)
            return end[1]
        self.tock = y if y else 0.0
        return False

    def clean(self):
        self.ctx.trace.log("C", self.vname, None, self.tymth)

    def cease(self):
        self.ctx.trace.log("Z", self.vname, None, self.tymth)

    def abort(self, ex):
        self.ctx.trace.log("A", self.vname, None, self.tymth)

    def exit(self):
        self.ctx.trace.log("X", self.vname, None, self.tymth)


class ScriptReDoer(doing.Doer):
    """Doer subclass whose recur is a generator method (the ReDoer pattern)."""

    def __init__(self, ctx, name, spec, **kwa):
        super().__init__(tock=spec["tock"], **kwa)
        self.ctx, self.vname, self.spec = ctx, name, spec

    def enter(self, *, temp=None):
        self.ctx.trace.log("E", self.vname, None, self.tymth)
        _enter_act(self.ctx, self.vname, self.spec)
        if self.spec["enter"] == "raise":
            self.ctx.trace.raised[self.vname] = "Stop"
            raise Stop(self.vname)

    def recur(self, tock=None):
        spec = self.spec
        steps, end = spec["steps"], spec["end"]
        tr = self.ctx.trace
        if spec["enter"] == "ret":
            tr.own_return.add(self.vname)
            return end[1] if end[0] == "ret" else True
        tyme = yield spec["tock"]
        i = 0
        n = len(steps)
        while True:
            if i < n:
                action, y = steps[i]
            else:
                action, y = None, (steps[-1][1] if steps else spec["tock"])
            tr.log("R", self.vname, tyme, self.tymth)
            if i == 0:
                tr.firstdone[self.vname] = self.done
            _act(self.ctx, self.vname, action)
            i += 1
            if i >= n and end[0] == "ret":
                break
            tyme = yield y
        tr.own_return.add(self.vname)
        return end[1]

    def clean(self):
        self.ctx.trace.log("C", self.vname, None, self.tymth)

    def cease(self):
        self.ctx.trace.log("Z", self.vname, None, self.tymth)

    def abort(self, ex):
        self.ctx.trace.log("A", self.vname, None, self.tymth)

    def exit(self):
        self.ctx.trace.log("X", self.vname, None, self.tymth)


class MethodHolder:
    """Object whose bound generator method is doified (exercises the __func__.done path)."""

    def __init__(self, ctx, name, spec):
        self._f = make_genfunc(ctx, name, spec)

    def run(self, tymth=None, tock=0.0, **opts):
        return (yield from self._f(tymth=tymth, tock=tock, **opts))


class ScriptDoDoer(doing.DoDoer):
    def __init__(self, ctx, name, spec, doers, **kwa):
        super().__init__(doers=doers, always=spec.get("always", False), tock=spec["tock"], **kwa)
        self.ctx, self.vname, self.spec = ctx, name, spec

    def enter(self, doers=None, *, temp=None):
        if doers is None:
            tr = self.ctx.trace
            tr.log("E", self.vname, None, self.tymth)
            tr.entering.append(self.vname)       # its own enter context: the children are entered inside it
            try:
                return super().enter(doers=doers, temp=temp)
            finally:
                tr.entering.pop()
        return super().enter(doers=doers, temp=temp)

    def recur(self, tyme, deeds=None):
        tr = self.ctx.trace
        tr.log("R", self.vname, tyme, self.tymth)
        if self.vname not in tr.firstdone:
            tr.firstdone[self.vname] = self.done
        res = super().recur(tyme, deeds=deeds)
        if res and not self.always:
            tr.own_return.add(self.vname)
        return res

    def clean(self):
        self.ctx.trace.log("C", self.vname, None, self.tymth)

    def cease(self):
        self.ctx.trace.log("Z", self.vname, None, self.tymth)

    def abort(self, ex):
        self.ctx.trace.log("A", self.vname, None, self.tymth)

    def exit(self, deeds=None):
        if deeds is None:
            self.ctx.trace.log("x", self.vname, None, self.tymth)
        super().exit(deeds=deeds)
        if deeds is None:
            self.ctx.trace.log("X", self.vname, None, self.tymth)


def build_node(ctx, spec, counter, host, prefix="d"):
    name = "%s%d" % (prefix, counter[0])
    counter[0] += 1
    k = spec["k"]
    if k == "dodoer":
        obj = ScriptDoDoer(ctx, name, spec, doers=[])
        ctx.by_name[name] = obj
        ctx.spec[name] = spec
        ctx.host[name] = host
        kids = [build_node(ctx, s, counter, obj, prefix) for s in spec["kids"]]
        obj.doers = kids
        ctx.members0[name] = [vname(k) for k in kids]
        return obj
    if k == "doer":
        obj = ScriptDoer(ctx, name, spec)
    elif k == "redoer":
        obj = ScriptReDoer(ctx, name, spec)
    elif k == "doify":
        f = make_genfunc(ctx, name, spec)
        obj = doing.doify(f, name=name, tock=spec["tock"])
        obj.vname = name
    elif k == "doize":
        f = make_genfunc(ctx, name, spec)
        obj = doing.doize(tock=spec["tock"])(f)
        obj.vname = name
    elif k == "method":
        holder = MethodHolder(ctx, name, spec)
        obj = doing.doify(holder.run, name=name, tock=spec["tock"])
        obj.__func__.vname = name
    else:
        raise ValueError(k)
    ctx.by_name[name] = obj
    ctx.spec[name] = spec
    ctx.host[name] = host
    return obj


class Run:
    pass


_gc_state = {"n": 0}


def _collect():
    """Full collection made cheap: everything that existed before is frozen into the
    permanent generation every 200 calls, so only recent objects are scanned."""
    if _gc_state["n"] % 200 == 0:
        gc.collect()
        gc.freeze()
    _gc_state["n"] += 1
    gc.collect()


def run_program(prog, mode="do", collect=False):
    """Build fresh doers for prog, run them with Doist.do (or ado) and return the observations."""
    tr = Trace()
    tr.firstdone = {}
    ctx = Ctx(tr)
    # the start tyme reaches the scheduler either through the constructor or - on a scheduler constructed at another
    # tyme, e.g. a reused one - through the tyme parameter of do() / ado()
    via_arg = prog.get("ctor_tyme") is not None
    doist = TDoist(tock=prog["tock"], tyme=(prog["ctor_tyme"] if via_arg else prog.get("tyme", 0.0)), real=False)
    runkw = {"tyme": prog.get("tyme", 0.0)} if via_arg else {}
    tr.doist = doist
    ctx.doist = doist
    counter = [0]
    doers = [build_node(ctx, s, counter, doist) for s in prog["doers"]]
    ctx.members0["doist"] = [vname(o) for o in doers]
    pc = [0]
    ctx.pool = [build_node(ctx, s, pc, None, "p") for s in prog.get("pool", [])]
    pre = prog.get("prerun")
    if pre:
        # the same doer objects were already used once: run them for a few cycles under ANOTHER scheduler at another
        # tyme, forget that trace, and only then do the run that is judged (doers must take their tyme from the
        # scheduler that runs them now)
        same = bool(pre.get("same"))      # the judged scheduler object itself did the earlier run (a reused Doist)
        first = doist if same else TDoist(tock=prog["tock"], tyme=pre["tyme"], real=False)
        tr.doist = first
        ctx.doist = first
        try:
            if same:
                first.do(doers=doers, limit=pre["limit"], tyme=pre["tyme"])
            else:
                first.do(doers=doers, limit=pre["limit"])
        except BaseException:     # noqa: BLE001 - fault programs do not use prerun; be safe
            pass
        if same:
            doist.cycles = 0
            doist.tymes = []
            doist.limit = None      # do(limit=None) means "keep .limit": a run without a limit needs the attribute cleared
            runkw = {"tyme": prog.get("tyme", 0.0)}      # a reused scheduler is told where to start
            if not pre.get("pass", True):
                # the second run names no doers: the scheduler runs the doers it holds (set here to the program's, the
                # earlier run may have dropped none of them: prerun programs have no membership calls)
                doist.doers = list(doers)
                doers = None
        del tr.ev[:]
        del tr.calls[:]
        del tr.skipped[:]
        tr.open.clear()
        tr.nest.clear()
        tr.raised.clear()
        tr.own_return.clear()
        tr.own_return.seq.clear()
        tr.firstdone = {}
        ctx.host_log[:] = []
        tr.doist = doist
        ctx.doist = doist
    out = Run()
    out.exc = None
    out.exc_obj = None
    limit = prog.get("limit")
    try:
        if mode == "do":
            doist.do(doers=doers, limit=limit, **runkw)
        else:
            asyncio.run(doist.ado(doers=doers, limit=limit, **runkw))
        tr.returned = len(tr.ev)
    except BaseException as ex:   # noqa: BLE001 - classified below, unknown ones re-raised
        # mark the return point while the exception (and the frames it references) is still alive:
        # anything a doer does after this happened after do() had already raised
        tr.returned = len(tr.ev)
        if isinstance(ex, Stop):
            out.exc = "Stop:" + str(ex)
        elif isinstance(ex, KeyboardInterrupt):
            out.exc = "KeyboardInterrupt"
        elif isinstance(ex, Runaway):
            out.exc = "Runaway"
        elif isinstance(ex, Exception):
            # an exception raised by hio itself (e.g. inside extend/remove)
            out.exc = "%s:%s" % (type(ex).__name__, ex)
        else:
            raise
        del ex
    if collect is True or (collect == "auto" and (out.exc is not None or tr.raised)):
        _collect()
    out.trace = tr
    out.ev = tr.ev
    out.late = tr.ev[tr.returned:]
    out.calls = tr.calls
    out.raised = tr.raised
    out.own_return = tr.own_return
    out.own_return_seq = tr.own_return.seq
    out.done = doist.done
    out.tyme = doist.tyme
    out.cycles = doist.cycles
    out.tymes = doist.tymes
    out.dones = {n: get_done(o) for n, o in ctx.by_name.items()}
    out.firstdone = tr.firstdone
    out.doers = [vname(o) for o in doist.doers]
    out.ctx = ctx
    out.names = list(ctx.by_name)
    out.kids = {n: [vname(c) for c in o.doers] for n, o in ctx.by_name.items() if isinstance(o, doing.DoDoer)}
    return out


def lifecycles(ev, upto=None):
    """name -> list of code strings, one per lifecycle (a new 'E' starts a new one)."""
    out = {}
    for e in ev[:upto]:
        _s, code, name = e[0], e[1], e[2]
        if code == "x":
            continue
        lst = out.setdefault(name, [])
        if code == "E" or not lst:
            lst.append("")
        lst[-1] += code
    return out


def lifecycle_host(run, name, enter_seq):
    """Name of the scheduler ('doist' or a DoDoer's name) that runs the lifecycle of `name` entered at enter_seq: a pool
    doer can be extended into one scheduler, finish or be closed, and later be extended into another."""
    best = None
    for seq, n, h in run.ctx.host_log:
        if n == name and seq <= enter_seq:
            best = h
    if best is None:
        best = run.ctx.host.get(name)
        if best is None:
            return "?"
    return getattr(best, "vname", None) or "doist"


def nested_enter(run, seq_a, name_a, seq_b):
    """True when the doer entered at seq_b was entered while the enter context of name_a (entered at seq_a < seq_b) was still
    in progress: b was added by a call made from a's enter context (or from the enter context of a doer inside DoDoer a).
    Which of the two 'was entered first' is then a matter of reading (a's enter began first, b's finished first)."""
    return seq_a < seq_b and name_a in run.trace.nest.get(seq_b, ())

"""Hypothesis strategies for scheduler programs (see vlib/sched.py for the format)."""
from hypothesis import strategies as st

TOCKS = [1.0, 0.5, 0.25, 0.125, 0.03125, 0.1, 0.3, 1.0 / 3.0]
RETS = [True, True, True, False, None, 1, 0, "x", ""]
GEN_KINDS = ["redoer", "doify", "doize", "method"]
ALL_KINDS = ["doer"] + GEN_KINDS


def yields_for(tock):
    return [0, 0.0, None, tock, tock / 2, 2 * tock, 3 * tock, 1.5 * tock, 0.1, 0.3, 1.0 / 3.0, 0.75, 0.25]


@st.composite
def leaf(draw, tock, *, faults=False, members=False, depth=0, max_steps=6, forever_ok=True,
         enter_ret=True, yields=None, npool=0, kinds=None, split_yields=False, group_ops=False, enter_ops=False,
         enter_up=None):
    k = draw(st.sampled_from(kinds or ALL_KINDS))
    ys = yields if yields is not None else yields_for(tock)
    if split_yields:
        # each leaf yields either only 0/None or only positive tocks (avoids the known
        # "0/None then positive inside a DoDoer" shape by construction)
        if draw(st.booleans()):
            ys = [y for y in ys if not y]
        else:
            ys = [y for y in ys if y]
    if k == "doer":
        ys = [y for y in ys if y is not None]
    yv = st.sampled_from(ys)
    enter = "ok"
    if k != "doer" and enter_ret and draw(st.integers(0, 9)) == 0:
        enter = "ret"
    if faults and draw(st.integers(0, 11)) == 0:
        enter = "raise"
    nsteps = draw(st.integers(1, max_steps))
    steps = []
    for _ in range(nsteps):
        action = None
        if faults and draw(st.integers(0, 9)) == 0:
            action = [draw(st.sampled_from(["raise", "raise", "raise", "kbi"]))]
        elif members and draw(st.integers(0, 2)) == 0:
            op = draw(st.sampled_from(["extend", "remove"]))
            up = draw(st.integers(0, depth)) if depth else 0
            tg = st.one_of(
                st.tuples(st.just("live"), st.integers(0, 7)),
                st.tuples(st.just("live"), st.integers(0, 7)),
                st.tuples(st.just("self")),
                *([st.tuples(st.just("pool"), st.integers(0, npool - 1))] * 2 if npool else []))
            if op == "extend" and npool:
                tg = st.one_of(st.tuples(st.just("pool"), st.integers(0, npool - 1)), tg)
            targets = draw(st.lists(tg.map(list), min_size=1, max_size=3))
            if group_ops and draw(st.integers(0, 2)) > 0:
                # several live members of one host in one call, in an order of the caller's choosing (not enter order)
                idx = draw(st.lists(st.integers(0, 7), min_size=2, max_size=4, unique=True))
                targets = [["live", i] for i in idx]
                if op == "extend" and npool:
                    targets = [["pool", j] for j in draw(st.lists(st.integers(0, npool - 1), min_size=1, max_size=npool,
                                                                  unique=True))]
            action = [op, up, targets]
            if enter_ops and draw(st.integers(0, 5)) == 0:
                action = draw(_restart(up))
        steps.append([action, draw(yv)])
    if k == "doer":
        end = draw(st.sampled_from([["ret", True], ["ret", True], ["ret", 1], ["ret", "x"]] +
                                   ([["forever"]] if forever_ok else [])))
    else:
        end = draw(st.one_of(st.sampled_from(RETS).map(lambda v: ["ret", v]),
                             *([st.just(["forever"])] if forever_ok else [])))
    out = {"k": k, "tock": draw(yv) or 0.0, "enter": enter, "steps": steps, "end": end}
    if enter_ops and members and draw(st.integers(0, 2)) == 0:
        # a membership call made from the doer's enter context: while the scheduler's own enter() is still entering its
        # doers (first cycle, or a DoDoer that is itself extended into a running scheduler at a later cycle)
        op = draw(st.sampled_from(["extend", "extend", "remove"]))
        up = draw(st.integers(0, depth if enter_up is None else min(depth, enter_up))) if depth else 0
        if op == "extend" and npool:
            tg = st.one_of(st.tuples(st.just("pool"), st.integers(0, npool - 1)),
                           st.tuples(st.just("pool"), st.integers(0, npool - 1)),
                           st.tuples(st.just("live"), st.integers(0, 7)))
        else:
            tg = st.one_of(st.tuples(st.just("live"), st.integers(0, 7)), st.tuples(st.just("live"), st.integers(0, 7)),
                           st.tuples(st.just("self")))
        out["enter_act"] = [op, up, draw(st.lists(tg.map(list), min_size=1, max_size=2))]
        if draw(st.integers(0, 2)) == 0:
            out["enter_act"] = draw(_restart(up))
    return out


@st.composite
def _restart(draw, up):
    """Several calls in one context: remove then extend of the same doer (restart it; named the way a caller names it, so a
    bound-method doer is a fresh, equal object in each call), optionally with another call before or after."""
    t = ["sib", draw(st.integers(0, 5))]
    seq = [["remove", up, [t]], ["extend", up, [t]]]
    extra = draw(st.sampled_from([None, None, None, ["extend", up, [["sib", draw(st.integers(0, 5))]]],
                                  ["remove", up, [["live", draw(st.integers(0, 7))]]]]))
    if extra is not None:
        seq.insert(draw(st.sampled_from([0, 2])), extra)
    return ["seq", seq]


@st.composite
def node(draw, tock, depth, maxdepth, budget, opts, dd_tocks=(0.0,), always_ok=False, dd_odds=2, force_always=False):
    """A leaf or a DoDoer subtree. budget = [remaining leaves]."""
    if depth < maxdepth and budget[0] > 1 and draw(st.integers(0, dd_odds)) == 0:
        nk = draw(st.integers(1, min(3, budget[0])))
        kids = []
        for _ in range(nk):
            if budget[0] <= 0:
                break
            kids.append(draw(node(tock, depth + 1, maxdepth, budget, opts, dd_tocks, always_ok, dd_odds, force_always)))
        if not kids:
            budget[0] -= 1
            kids = [draw(leaf(tock, depth=depth + 1, **opts))]
        return {"k": "dodoer", "tock": draw(st.sampled_from(list(dd_tocks))),
                "always": bool(force_always or (always_ok and draw(st.integers(0, 3)) == 0)), "kids": kids}
    budget[0] -= 1
    return draw(leaf(tock, depth=depth, **opts))


def has_unbounded(n):
    if n["k"] == "dodoer":
        return n.get("always", False) or any(has_unbounded(k) for k in n["kids"])
    if n["end"][0] == "forever":
        return True
    if n["k"] == "doer" and not n["end"][1]:
        return True
    return False


@st.composite
def program(draw, *, faults=False, members=False, maxdepth=2, max_leaves=6, limit="maybe",
            dd_tocks=(0.0,), always_ok=False, forever_ok=True, enter_ret=True, max_steps=6,
            start_tymes=(0.0, 0.0, 1.0, 10.5, 0.1), tocks=None, kinds=None, restrict_yields=None,
            split_yields=False, dd_odds=2, force_always=False, prerun_ok=False, group_ops=False, min_leaves=1,
            enter_ops=False):
    tock = draw(st.sampled_from(tocks or TOCKS))
    npool = draw(st.integers(1, 3)) if members else 0
    ys = None
    if restrict_yields is not None:
        ys = restrict_yields(tock)
    opts = dict(faults=faults, members=members, max_steps=max_steps, forever_ok=forever_ok,
                enter_ret=enter_ret, yields=ys, npool=npool, kinds=kinds, split_yields=split_yields, group_ops=group_ops)
    if enter_ops:
        opts["enter_ops"] = True
    budget = [draw(st.integers(min_leaves, max_leaves))]
    doers = []
    while budget[0] > 0 and len(doers) < 6:
        doers.append(draw(node(tock, 0, maxdepth, budget, opts, dd_tocks, always_ok, dd_odds, force_always)))
    pool = []
    for _ in range(npool):
        popts = dict(opts)
        popts["members"] = False
        popts.pop("enter_ops", None)       # a pool doer's own enter context makes no call (it is entered inside extend())
        if enter_ops and draw(st.integers(0, 2)) == 0:
            # a DoDoer(always) waiting in the pool: when a running doer extends it into a scheduler at some later cycle,
            # the enter context of one of its children calls extend / remove on it while it is entering its children
            kopts = dict(opts)
            kopts["enter_up"] = 0
            kids = [draw(leaf(tock, depth=1, **kopts)) for _ in range(draw(st.integers(1, 3)))]
            pool.append({"k": "dodoer", "tock": 0.0, "always": True, "kids": kids})
            continue
        pool.append(draw(leaf(tock, depth=0, **popts)))
    lim = None
    if limit == "always" or (limit == "maybe" and draw(st.booleans())):
        lim = draw(st.sampled_from([tock, 2 * tock, 3 * tock, 5 * tock, tock / 2, 2.5 * tock, 0.7, 1.0,
                                    tock * 7.3, 0.01]))
    unbounded = any(has_unbounded(n) for n in doers + pool) or members
    if lim is None and unbounded:
        lim = draw(st.sampled_from([3 * tock, 5 * tock, 2.5 * tock, 8 * tock]))
    return {"tock": tock, "tyme": draw(st.sampled_from(list(start_tymes))), "limit": lim,
            # None: start tyme given to the constructor; a number: the scheduler is constructed at that other tyme and the
            # start tyme is passed to do() / ado()
            "ctor_tyme": draw(st.sampled_from([None, None, None, 0.0, 10.0, 3.25])),
            # optionally the doer objects have been run before under another scheduler (re-use)
            "prerun": draw(st.sampled_from([None, None, None, {"tyme": 7.0, "limit": 2.5}, {"tyme": 0.5, "limit": 1.0},
                                            # the scheduler object itself is reused, doers named again or not
                                            {"tyme": 7.0, "limit": 2.5, "same": True, "pass": True},
                                            {"tyme": 3.0, "limit": 50.0, "same": True, "pass": False},
                                            {"tyme": 0.5, "limit": 1.0, "same": True, "pass": False}]))
            if prerun_ok else None,
            # which run loop drives the program: the plain generator loop or the asyncio coroutine (same semantics, C30)
            "mode": draw(st.sampled_from(["do", "do", "do", "ado"])),
            "doers": doers, "pool": pool}


def leaves(nodes):
    for n in nodes:
        if n["k"] == "dodoer":
            yield from leaves(n["kids"])
        else:
            yield n


def depth_of(nodes, d=0):
    m = d
    for n in nodes:
        if n["k"] == "dodoer":
            m = max(m, depth_of(n["kids"], d + 1))
    return m


@st.composite
def same_cycle_program(draw, dodoer_host=None):
    """3-6 long-lived siblings under one host (the Doist, or a DoDoer(always=True, tock 0)); in one chosen cycle 1-3 of
    them call extend / remove on that host, one after the other inside that cycle, with several live targets."""
    tock = draw(st.sampled_from([1.0, 0.25, 0.125]))
    n = draw(st.integers(3, 6))
    npool = draw(st.integers(1, 3))
    cyc = draw(st.integers(0, 2))
    actors = draw(st.lists(st.integers(0, n - 1), min_size=1, max_size=3, unique=True))
    acts = {}
    for a in actors:
        op = draw(st.sampled_from(["extend", "remove", "remove"]))
        if op == "extend":
            tg = [["pool", j] for j in draw(st.lists(st.integers(0, npool - 1), min_size=1, max_size=npool, unique=True))]
            if draw(st.integers(0, 3)) == 0:
                tg.append(["live", draw(st.integers(0, 7))])
        else:
            tg = [["live", i] for i in draw(st.lists(st.integers(0, n + npool - 1), min_size=1, max_size=3, unique=True))]
            if draw(st.integers(0, 4)) == 0:
                tg.append(["self"])
        acts[a] = [op, 0, tg]
    kids = []
    for i in range(n):
        k = draw(st.sampled_from(GEN_KINDS + ["doer"]))
        y = draw(st.sampled_from([0, 0, 0.0, tock])) if k != "doer" else draw(st.sampled_from([0, 0.0, tock]))
        steps = [[None, y] for _ in range(cyc)] + [[acts.get(i), y]] + [[None, y] for _ in range(draw(st.integers(0, 2)))]
        # a second call by the same doer one or two cycles later
        if i in acts and draw(st.integers(0, 2)) == 0:
            steps.append([[draw(st.sampled_from(["extend", "remove"])), 0,
                           [draw(st.sampled_from([["pool", 0], ["live", 0], ["live", 1], ["live", 2], ["self"]]))]], y])
        end = ["forever"] if draw(st.integers(0, 3)) else ["ret", True]
        kids.append({"k": k, "tock": y or 0.0, "enter": "ok", "steps": steps, "end": end})
    pool = [{"k": draw(st.sampled_from(GEN_KINDS)), "tock": 0.0, "enter": "ok",
             "steps": [[None, draw(st.sampled_from([0, 0, tock]))] for _ in range(draw(st.integers(1, 3)))],
             "end": draw(st.sampled_from([["forever"], ["forever"], ["ret", True]]))} for _ in range(npool)]
    dd = draw(st.booleans()) if dodoer_host is None else dodoer_host
    doers = [{"k": "dodoer", "tock": 0.0, "always": True, "kids": kids}] if dd else kids
    return {"tock": tock, "tyme": draw(st.sampled_from([0.0, 1.0, 10.5])), "limit": (cyc + 5) * tock,
            "ctor_tyme": None, "prerun": None, "mode": draw(st.sampled_from(["do", "do", "ado"])), "doers": doers, "pool": pool}

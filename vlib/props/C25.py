"""C25 Boxwork transitions run exit / enter actions in the documented nested order.

A generated box forest (<= 8 boxes, depth <= 4, several unders per box so that non-primary
branches exist, one or two roots) is built through the public verbs bx / do / go of
Boxer.make().  Every box gets 1-2 recording acts in each of rendo, endo, redo, afdo, exdo,
rexdo, a predo act whose result the harness controls, and one go-act per destination whose
need reads a control bag.  A generated plan (issuer position in the active pile, destination,
set of boxes whose precondition fails; or 'end') is executed one step per cycle through
Boxer.run(), and the recorded action trace of every cycle is compared with a reference
interpreter of the statement:

  boxes left (active boxes not in the target pile) exit bottom-up; boxes kept are re-exited
  bottom-up and then re-entered top-down; boxes arrived at enter top-down; each box's acts in
  a nabe run in declaration order; a transition whose entry preconditions fail runs no exit,
  re-exit, re-entry or entry action at all; ending exits every active box once, bottom-up.
"""
from hypothesis import strategies as st

from hio.base import tyming
from hio.base.hier import bagging, boxing, holding
from vlib.core import Result, assert_in_tree, exc_sig

assert_in_tree(boxing)

PID = "C25"
RULE = ("cases: box forest (2-8 boxes, parent chosen among earlier boxes or none, depth <= 4) x 1-2 acts per nabe x first box x "
        "plan of <= 8 steps (issuer = a box of the active pile, destination = any box incl. the issuer itself, ancestors, "
        "descendants, siblings, cousins, another tree; optional set of boxes whose precondition fails; optional 'end'); "
        "non-trivial = some step keeps >= 2 boxes across the transition, or is issued from an ancestor while a non-primary "
        "branch is active, or has a failing precondition; distinct = canonical hash")
ASSUMPTIONS = [
    "the active pile after a transition to box D is D's pile: its overs and, below it, the chain of first unders",
    "precondition (predo) evaluations themselves are not compared, only the exit / re-exit / re-entry / entry / recurring actions",
    "one go-act condition is true per cycle (the plan decides which); afdo acts of the boxes at and above the issuing box run before the transition, as documented for the top-down after-do pass",
]

NABES = ["rendo", "endo", "redo", "afdo", "exdo", "rexdo"]


def pile_of(idx, parent, kids):
    up = []
    p = parent[idx]
    while p is not None:
        up.insert(0, p)
        p = parent[p]
    down = []
    k = kids[idx][0] if kids[idx] else None
    while k is not None:
        down.append(k)
        k = kids[k][0] if kids[k] else None
    return up + [idx] + down


def reference_cycle(active, step, parent, kids, nacts, n):
    """Expected trace of one cycle; returns (trace, new active box). active = index of the active box."""
    tr = []

    def acts(b, nabe):
        return [("b%d" % b, nabe, j) for j in range(nacts[b][nabe])]
    nears = pile_of(active, parent, kids)
    if step[0] == "end":
        for b in reversed(nears):
            tr += acts(b, "exdo")
        return tr, None, {"end": True}
    info = {}
    issuer = nears[step[1] % len(nears)]
    dest = step[2] % n
    blocked = set(x % n for x in step[3])
    rendos, endos = [], []
    new_active = active
    for b in nears:
        tr += acts(b, "afdo")
        if b != issuer:
            continue
        fars = pile_of(dest, parent, kids)
        i = None
        for j in range(min(len(nears), len(fars))):
            if dest == nears[j] or fars[j] != nears[j]:
                i = j
                break
        if i is None:
            info["undefined"] = True        # cannot happen for maximal piles
            continue
        ex, en = list(reversed(nears[i:])), fars[i:]
        rex, ren = list(reversed(nears[:i])), fars[:i]
        info["retained"] = len(ren)
        info["nonprimary"] = issuer != nears[-1] and nears != pile_of(issuer, parent, kids)
        if any(x in blocked for x in en):
            info["failed"] = True
            continue                          # no exit / entry action at all, keep going down the pile
        for x in ex:
            tr += acts(x, "exdo")
        for x in rex:
            tr += acts(x, "rexdo")
        rendos, endos = ren, en
        new_active = dest
        break
    for x in rendos:
        tr += acts(x, "rendo")
    for x in endos:
        tr += acts(x, "endo")
    for x in pile_of(new_active, parent, kids):
        tr += acts(x, "redo")
    return tr, new_active, info


def run_case(case):
    r = Result()
    parent = [None if p is None else p % max(1, i) for i, p in enumerate(case["parents"])]
    parent[0] = None
    n = len(parent)
    # depth bound 4: re-hang deeper boxes on the root of their chain
    for i in range(n):
        d, p = 0, parent[i]
        while p is not None:
            d += 1
            p = parent[p]
        if d > 3:
            parent[i] = None
    kids = [[j for j in range(n) if parent[j] == i] for i in range(n)]
    nacts = [{nb: 1 + ((case["acts"] >> (i * 6 + k)) & 1) for k, nb in enumerate(NABES)} for i in range(n)]
    trace = []

    def rec(box, nabe, j):
        def deed(**iops):
            trace.append((box, nabe, j))
            return True
        return deed

    def pre(box):
        def deed(**iops):
            H = iops["H"]
            return box not in (H.block.value or ())
        return deed

    def fun(H, bx, go, do, on, at, be, *pa):
        H.ctl = bagging.Bag()
        H.block = bagging.Bag()
        for i in range(n):
            name = "b%d" % i
            bx(name=name, over=("b%d" % parent[i]) if parent[i] is not None else None)
            do(pre(name), "predo")
            for nb in NABES:
                for j in range(nacts[i][nb]):
                    do(rec(name, nb, j), nb)
            for d in range(n):
                go("b%d" % d, "H.ctl.value == 'b%d>b%d'" % (i, d))

    first = case["first"] % n
    try:
        tymist = tyming.Tymist(tock=1.0)
        hold = holding.Hold()
        boxer = boxing.Boxer(name="bxr", hold=hold, tymth=tymist.tymen())
        boxer.make(fun)
        boxer.first = boxer.boxes["b%d" % first]
        rung = boxer.run(tock=1.0)
        next(rung)
        rung.send(tymist.tyme)
    except Exception as ex:      # noqa: BLE001
        from vlib.core import hio_frame
        if hio_frame(ex) is None:
            raise
        r.fail(exc_sig(ex, "C25/build-or-first-pass-raised"), repr(ex))
        return r
    # first pass: enter the whole first pile top-down, then redo
    fp = pile_of(first, parent, kids)
    exp = [("b%d" % b, "endo", j) for b in fp for j in range(nacts[b]["endo"])] + \
          [("b%d" % b, "redo", j) for b in fp for j in range(nacts[b]["redo"])]
    if trace != exp:
        r.fail("C25/first-pass", "trace %r expected %r" % (trace[:12], exp[:12]))
        return r
    active = first
    interesting = False
    for step in case["plan"]:
        del trace[:]
        if step[0] == "end":
            hold[("", "boxer", "bxr", "end")] = bagging.Bag(value=True)
        else:
            nears = pile_of(active, parent, kids)
            issuer = nears[step[1] % len(nears)]
            hold.ctl.value = "b%d>b%d" % (issuer, step[2] % n)
            hold.block.value = tuple("b%d" % (x % n) for x in step[3])
        exp, new_active, info = reference_cycle(active, step, parent, kids, nacts, n)
        exp = [("b%d" % b if isinstance(b, int) else b, nb, j) for (b, nb, j) in exp]
        tymist.tick()
        ended = False
        try:
            rung.send(tymist.tyme)
        except StopIteration:
            ended = True
        except Exception as ex:      # noqa: BLE001
            from vlib.core import hio_frame
            if hio_frame(ex) is None:
                raise
            r.fail(exc_sig(ex, "C25/run-raised"), repr(ex))
            return r
        if info.get("retained", 0) >= 2 or info.get("nonprimary") or info.get("failed"):
            interesting = True
        got = list(trace)
        if got != exp:
            if step[0] == "end":
                sig = "C25/end-order" if sorted(got) == sorted(exp) else "C25/end-wrong-boxes"
            elif info.get("failed") and any(nb in ("exdo", "rexdo", "rendo", "endo") for _b, nb, _j in got):
                sig = "C25/exit-or-entry-actions-after-failed-precondition"
            else:
                k = 0
                while k < min(len(got), len(exp)) and got[k] == exp[k]:
                    k += 1
                nb = (exp[k] if k < len(exp) else got[k])[1]
                same_set = sorted(x for x in got if x[1] == nb) == sorted(x for x in exp if x[1] == nb)
                sig = "C25/%s(%s)" % ("order" if same_set else "wrong-boxes", nb)
            r.fail(sig, "step %r from active pile %r: trace %r expected %r" % (
                step, ["b%d" % b for b in pile_of(active, parent, kids)], got[:24], exp[:24]))
            break
        if step[0] == "end":
            if not ended:
                r.fail("C25/end-did-not-finish", "run() did not return after the end cycle")
            break
        if ended:
            r.fail("C25/run-ended-unexpectedly", "at step %r" % (step,))
            break
        active = new_active
        got_active = boxer.box.name if boxer.box is not None else None
        if got_active != "b%d" % active:
            r.fail("C25/active-box", "after step %r active box is %r expected b%d" % (step, got_active, active))
            break
    r.nontrivial = interesting
    r.labels.append("boxes:%d" % n)
    if any(len(k) >= 2 for k in kids):
        r.labels.append("non-primary-branches")
    if interesting:
        r.labels.append("retained>=2|ancestor-issuer-on-nonprimary|failed-precondition")
    if any(s[0] == "end" for s in case["plan"]):
        r.labels.append("end")
    return r


def _strategy():
    step = st.one_of(
        st.tuples(st.just("go"), st.integers(0, 5), st.integers(0, 7), st.just([])).map(list),
        st.tuples(st.just("go"), st.integers(0, 5), st.integers(0, 7), st.just([])).map(list),
        st.tuples(st.just("go"), st.integers(0, 5), st.integers(0, 7), st.lists(st.integers(0, 7), min_size=1, max_size=3)).map(list))
    plan = st.tuples(st.lists(step, min_size=1, max_size=8), st.booleans()).map(lambda t: t[0] + ([["end"]] if t[1] else []))
    return st.fixed_dictionaries({"parents": st.lists(st.one_of(st.none(), st.integers(0, 7), st.integers(0, 7), st.integers(0, 7)),
                                                      min_size=2, max_size=8),
                                  "acts": st.integers(0, 2 ** 48 - 1), "first": st.integers(0, 7), "plan": plan})


def searches(tier):
    return [("plans", _strategy(), 1500 if tier == "quick" else 12000)]

"""C09 TCP/TLS byte streams are delivered exactly, in order, under partial I/O.

History-based: a generated operation list drives two real hio endpoints (client
side: tcp.Client or ClientTls; server side: Remoter or RemoterTls) joined by an
in-memory pipe whose kernel follows a generated script (partial accepts,
would-block / SSLWantRead / SSLWantWrite at any call, short reads).  Operations:
tx(side, payload), serviceSends(side), serviceReceives(side),
serviceReceiveOnce(side).  After every operation, in both directions:

    kernel-accepted bytes  are a prefix of everything tx-ed so far
    receiver's rxbs        is a prefix of the kernel-accepted bytes
    sender's txbs          is exactly the not-yet-accepted suffix (nothing lost, nothing duplicated)
    wire log tx of sender  == kernel-accepted bytes;  wire log rx of receiver == delivered bytes
and finally, with a healthy kernel, continued servicing delivers everything.
The thorough tier adds real loopback TCP and TLS pairs with large payloads, where
partial sends occur naturally.
"""
from hypothesis import strategies as st

from hio.core import wiring
from vlib import fakenet
from vlib.core import Result, assert_in_tree

assert_in_tree(wiring)

PID = "C09"
RULE = ("cases: operation lists (<= 40 ops) over an in-memory pipe with endpoint classes {Client, ClientTls} x {Remoter, "
        "RemoterTls}, buffer size 8..64, payloads empty / 1 byte / up to 3 x bs, per-socket kernel scripts of partial "
        "accepts, would-blocks and short reads. non-trivial = >= 2 tx calls in one direction and a partial accept or a "
        "would-block while that direction had bytes pending; distinct = canonical hash of the case. Thorough tier: real "
        "loopback plain and TLS pairs, payloads up to 512 KiB")
ASSUMPTIONS = ["the fake kernel never reorders or drops accepted bytes (it is the harness' own code)",
               "wire logs use fmt %(data)b so their content is exactly the logged bytes"]


def mkwl():
    wl = wiring.WireLog(samed=False, filed=False, fmt=b"%(data)b", name="c09")
    wl.reopen()
    return wl


def check_dir(r, step, name, sent, snd, rcv, ssock, wls, wlr, susp=None):
    """Direction snd -> rcv. sent = everything tx-ed on snd so far."""
    K = bytes(ssock.accepted)
    D = bytes(rcv.rxbs)
    if sent[:len(K)] != K:
        r.fail("C09/kernel-not-prefix", "%s after %s: kernel accepted %r..., tx-ed %r..." % (name, step, K[-20:], sent[:len(K)][-20:]))
        return False
    if K[:len(D)] != D:
        r.fail("C09/received-not-prefix", "%s after %s: received %d bytes that are not a prefix of the %d accepted: %r vs %r" % (
            name, step, len(D), len(K), D[-20:], K[:len(D)][-20:]))
        return False
    if susp is not None and bytes(getattr(snd, "txbs", b"")) != sent[len(K):] and not susp.get("txbs"):
        # How the endpoint keeps its unsent bytes is its own business (the statement speaks of what the peer receives):
        # a pending buffer that is not the unsent suffix is only remembered here, and charged at the end of the case if -
        # and only if - continued healthy servicing then fails to deliver everything.
        susp["txbs"] = "%s after %s: txbs has %d bytes, unsent suffix has %d (accepted %d of %d)" % (
            name, step, len(getattr(snd, "txbs", b"")), len(sent) - len(K), len(K), len(sent))
    lt = wls.readTx()
    if lt != K:
        r.fail("C09/wirelog-tx", "%s after %s: wire log tx has %d bytes, kernel accepted %d" % (name, step, len(lt or b""), len(K)))
        return False
    lr = wlr.readRx()
    if lr != D:
        r.fail("C09/wirelog-rx", "%s after %s: wire log rx has %d bytes, delivered %d" % (name, step, len(lr or b""), len(D)))
        return False
    return True


def run_case(case):
    r = Result()
    tls = case["a"] == "ClientTls" or case["b"] == "RemoterTls"
    sa, sb = fakenet.pipe(tls=False)
    wla, wlb = mkwl(), mkwl()
    A = fakenet.make_endpoint(case["a"], sa, wl=wla, bs=case["bs"])
    B = fakenet.make_endpoint(case["b"], sb, wl=wlb, bs=case["bs"])
    sc = case["scripts"]
    sa.send_script = [list(t) for t in sc["a_send"]]
    sa.recv_script = [list(t) for t in sc["a_recv"]]
    sb.send_script = [list(t) for t in sc["b_send"]]
    sb.recv_script = [list(t) for t in sc["b_recv"]]
    ends = {"a": (A, sa, wla), "b": (B, sb, wlb)}
    sent = {"a": b"", "b": b""}
    ntx = {"a": 0, "b": 0}
    interesting = False
    susp = {}
    try:
        for i, op in enumerate(case["ops"]):
            kind, side = op[0], op[1]
            E, sock, _wl = ends[side]
            if kind == "tx":
                E.tx(op[2])
                sent[side] += op[2]
                ntx[side] += 1
            elif kind == "ss":
                pending = len(E.txbs)
                before = len(sock.accepted)
                ncalls = len(sock.calls)
                E.serviceSends()
                if pending and ntx[side] >= 2:
                    newcalls = sock.calls[ncalls:]
                    if any(c[0] == "send-block" for c in newcalls) or 0 < len(sock.accepted) - before < pending:
                        interesting = True
            elif kind == "sr":
                E.serviceReceives()
            elif kind == "sro":
                E.serviceReceiveOnce()
            step = "op %d %s" % (i, op[:2])
            if not check_dir(r, step, "a->b", sent["a"], A, B, sa, wla, wlb, susp):
                return fin(r, case, interesting)
            if not check_dir(r, step, "b->a", sent["b"], B, A, sb, wlb, wla, susp):
                return fin(r, case, interesting)
            if A.cutoff or B.cutoff:
                r.fail("C09/healthy-connection-cut-off", "after %s cutoff a=%r b=%r" % (step, A.cutoff, B.cutoff))
                return fin(r, case, interesting)
        # healthy kernel from here on: everything must arrive
        for s in (sa, sb):
            s.send_script, s.recv_script = [], []
        budget = (len(sent["a"]) + len(sent["b"])) // max(1, case["bs"]) + 20
        for _ in range(budget):
            A.serviceSends(); B.serviceSends(); A.serviceReceives(); B.serviceReceives()
            if not A.txbs and not B.txbs and not sa.inbuf and not sb.inbuf:
                break
        if bytes(B.rxbs) != sent["a"] or bytes(A.rxbs) != sent["b"]:
            what = "after %d healthy service rounds: a->b %d of %d, b->a %d of %d" % (
                budget, len(B.rxbs), len(sent["a"]), len(A.rxbs), len(sent["b"]))
            if susp.get("txbs"):
                r.fail("C09/txbs-not-unsent-suffix", "%s; first sign: %s" % (what, susp["txbs"]))
            else:
                r.fail("C09/not-all-delivered", what)
        else:
            check_dir(r, "final", "a->b", sent["a"], A, B, sa, wla, wlb) and \
                check_dir(r, "final", "b->a", sent["b"], B, A, sb, wlb, wla)
    finally:
        wla.close()
        wlb.close()
    return fin(r, case, interesting)


def fin(r, case, interesting):
    r.nontrivial = interesting
    r.labels.append("%s/%s" % (case["a"], case["b"]))
    if interesting:
        r.labels.append("partial-or-block-with-pending")
    return r


def kernel_script(bs):
    send_tok = st.one_of(st.tuples(st.just("accept"), st.integers(1, 3 * bs)), st.tuples(st.just("block")), st.tuples(st.just("block-x")),
                         st.tuples(st.just("accept"), st.integers(1, 4))).map(list)
    recv_tok = st.one_of(st.tuples(st.just("short"), st.integers(1, bs)), st.tuples(st.just("block")), st.tuples(st.just("block-x")),
                         st.tuples(st.just("short"), st.integers(1, 3))).map(list)
    return st.fixed_dictionaries({"a_send": st.lists(send_tok, max_size=12), "a_recv": st.lists(recv_tok, max_size=12),
                                  "b_send": st.lists(send_tok, max_size=12), "b_recv": st.lists(recv_tok, max_size=12)})


@st.composite
def case_strategy(draw):
    bs = draw(st.sampled_from([8, 16, 64]))
    payload = st.one_of(st.just(b""), st.binary(min_size=1, max_size=1), st.binary(max_size=3 * bs),
                        st.binary(min_size=bs, max_size=3 * bs))
    side = st.sampled_from(["a", "b"])
    op = st.one_of(st.tuples(st.just("tx"), side, payload), st.tuples(st.just("tx"), side, payload),
                   st.tuples(st.just("tx"), side, payload),
                   st.tuples(st.just("ss"), side), st.tuples(st.just("ss"), side), st.tuples(st.just("ss"), side),
                   st.tuples(st.just("ss"), side),
                   st.tuples(st.just("sr"), side), st.tuples(st.just("sro"), side)).map(list)
    return {"a": draw(st.sampled_from(["Client", "ClientTls"])), "b": draw(st.sampled_from(["Remoter", "RemoterTls"])),
            "bs": bs, "ops": draw(st.one_of(st.lists(op, min_size=1, max_size=40), st.lists(op, min_size=12, max_size=40))), "scripts": draw(kernel_script(bs))}


def searches(tier):
    q = tier == "quick"
    return [("fake-kernel", case_strategy(), 1500 if q else 12000)]

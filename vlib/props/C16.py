"""C16 No client-sent bytes can make the HTTP server's service loop raise.

Near-valid inputs (a valid generated message with 1-3 mutations from the
property's list: header line without a blank after the colon, non-hex / signed /
0x / underscore / non-ASCII chunk sizes, bytes >= 0x80 and NUL in start line, header names and values, absolute URLs with out-of-range ports or broken IPv6
literals, lines longer than 65536 bytes, more than 100 headers, bad request /
status lines, bad Content-Length, truncation, byte flips, inserted bytes) and
arbitrary bytes are delivered in fragments

  wsgi / bare   to connection A of the real http.Server (WSGI echo application) or
                BareServer running in memory, while a sibling connection B sends a
                valid request.  service() must never raise and B must receive its
                complete, well-formed 200 response.
  client        as response bytes to the real http.Client (plain and TLS flavoured
                connector) with one request outstanding.  service() must never raise
                and at most one response entry may be produced for the request.
  wsgi-tls / bare-tls / client-tls
                the same service loops with scheme https on an in-memory TLS model: bytes the peer writes through its TLS
                layer arrive as plaintext; from the point where the peer writes raw bytes that are not TLS records the
                recv() (or do_handshake()) that reaches them raises ssl.SSLError(SSL_ERROR_SSL) as OpenSSL does.
Hostile families added after the C16 hunt: request targets whose percent-decoding yields brackets / delimiters, deeply nested
JSON bodies (JSON content type or dictable) on both sides, text/event-stream responses (invalid UTF-8, ids outside latin-1,
hostile retry values, nested JSON data) with a reconnectable client that is serviced through the reconnect, hostile
Location values (bracketed hosts, bad ports, percent-encoded authority).
Failures are bucketed by (exception type, innermost hio frame) so that every root
cause is reported once.
"""
import contextlib
import io
import json
import ssl

from hypothesis import strategies as st

from hio.base import tyming
from hio.core.http import clienting, serving
from hio.core.tcp import clienting as tcpc
from vlib import fakenet, httpgen, memhttp
from vlib.core import Result, hio_frame

PID = "C16"
RULE = ("cases: target in {wsgi server, bare server, client, TLS client, https wsgi server, https bare server} x (valid generated "
        "message + 1-3 mutations | arbitrary bytes) x fragmentation x (https targets: offset from which the peer writes non-TLS "
        "bytes, or none) x (client: reconnectable, dictable); plus a complete enumeration of every listed near-valid value (chunk "
        "sizes, Content-Length values, targets incl. percent-encoded brackets, start lines, a byte >= 0x80 or NUL at 3 positions "
        "of each of the first 4 head lines, nested JSON bodies, listed event streams, listed Location values, non-TLS bytes at "
        "listed offsets) alone on a canonical message x target x {whole, byte-at-a-time}. non-trivial = a mutated valid message "
        "(or a valid one cut by non-TLS bytes) whose first line is still a valid start line (the parser gets beyond the start "
        "line); distinct = canonical hash of the case")
ASSUMPTIONS = ["the WSGI application is a well-behaved echo application", "redirect targets resolve to in-memory connectors "
               "(clienting.tcp.Client / ClientTls are replaced by fake connectors inside the check process)",
               "https targets run on a model of the TLS layer, not on OpenSSL: authentic records are delivered as plaintext, and the "
               "recv / do_handshake call that reaches bytes which are not a TLS record raises ssl.SSLError(SSL_ERROR_SSL, "
               "'[SSL: WRONG_VERSION_NUMBER] ...') (what CPython 3.12 / OpenSSL 3 raise over real sockets for these inputs)"]

BAD_SIZES = ["-1", "+5", "0x5", "1_0", "", " ", "\t", "  ", " ;ext=1", ";a=b", " 5 ", "g", "5 5", "zz", "0x", "-0", "ffffffffffffffffffff",
             "4\xe9", "\xff", "\x80", "5;e\xff=1", "5;\xe9", "1\x00", "\u0665".encode("utf-8").decode("latin-1"), "5;a=\"\xff\""]
BAD_TARGETS = ["http://example.com:99999/x", "http://example.com:-1/", "http://[::1/x", "http://[1:2/", "http://exa mple.com/",
               "http://example.com:abc/x", "//[/x", "http://[::1]:8x/", "*", "", "/\xff\xfe", "http://[v1.x]/", "/a?b#c"]
BAD_STARTS_REQ = ["GET", "GET /", "GET / HTTP/2.0", "FOO / HTTP/1.1", " / HTTP/1.1", "GET / HTTP/1.1 extra", "get / http/1.1",
                  "GET  /  HTTP/1.1", "\x00\x01\x02", "GET / HTTP/1.", "GET / XTTP/1.1", "HTTP/1.1 200 OK"]
BAD_STARTS_RESP = ["HTTP/1.1", "HTTP/1.1 abc OK", "HTTP/1.1 99 Low", "HTTP/1.1 1000 High", "HTTP/2.0 200 OK", "200 OK", "", " ",
                   "HTTP/1.1 200", "XTTP/1.1 200 OK", "HTTP/1.1 -200 OK", "GET / HTTP/1.1", "HTTP/1.1 302 Found",
                   "HTTP/1.1 301 Moved", "HTTP/1.1 100 Continue"]
BAD_CL = ["-5", "abc", "99999999999999999999", "1e3", "", " 7", "0x10", "+3", "5\xe9", "\xff", "\xb2", "1\xb3", "\xb9",
          "\u0665".encode("utf-8").decode("latin-1"), "1_0", "5 ", "0005", "5,5"]

# ---- hostile families added after the C16 hunt (each list is enumerated completely by enumerate_cases)
# request targets whose percent-decoding yields brackets / delimiters the literal target did not have
PCT_TARGETS = ["//%5B", "//%5D", "/%5B", "//%5B::1", "//%5B::1%5D:99999/", "//x:%39%39%39%39%39%39/", "http://%5B::1/x",
               "http://x%3A99999/", "/a%3Fb=1", "/a%23b", "/%", "/%zz", "/%00", "/%ff%fe", "//%40", "//[", "//[::1]%5B", "/?a=%5B",
               "/?%5B=1", "/#%5B", "//%5b", "/%2F%2F%5B"]
TARGET_PIECES = ["/", "//", "%5B", "%5D", "%5b", "[", "]", ":", "%3A", "@", "%40", "?", "%3F", "#", "%23", "%", "%zz", "%2F", "a", "1",
                 "99999", "::1", "http:", "%00", "%FF", ";", "&", "=", "+", "%25", "%255B", "x"]
# JSON nesting: opener -> (innermost value, closer); a body is opener * depth [+ value + closer * depth]
JSON_NEST = {"[": ("", "]"), "{\"a\":": ("1", "}"), "[{\"a\":": ("1", "}]")}
JSON_DEPTHS = [1600, 3000, 20000, 1400, 200]     # CPython 3.12: the C scanner gives up at about 1500 levels whatever the Python limit
JSON_CTYPES = ["application/json", "application/json; charset=utf-8", "Application/JSON", None]
# text/event-stream bodies
SSE_FIELDS = [b"data", b"id", b"event", b"retry", b"", b"da\xffta", b"\xe2\x82\xac", b"x", b"\xff"]
SSE_SEPS = [b": ", b":", b"", b":  "]
SSE_VALUES = [b"x", b"", b"\xff", b"\xc3", b"\xed\xa0\x80", b"\xe2\x82\xac", b"\xf0\x9f\x98\x80", b"\x00", b"caf\xe9", b"1", b"-5",
              b"9" * 400, b"9" * 5000, b"1e3", b"\xd9\xa5", b"{\"a\": 1}", b"[" * 1600, b"[" * 20000, b"\xef\xbb\xbf", b"a\xe2\x82", b" "]
SSE_EOLS = [b"\n", b"\r\n", b"\r"]
SSE_STREAMS = [b"data: \xff\n\n", b"da\xffta: x\n\n", b"id: \xe2\x82\xac\ndata: x\n\n", b"id: \xf0\x9f\x98\x80\n\ndata: x\n\n",
               b"id: \xff\ndata: x\n\n", b"event: \xc3\ndata: x\n\n", b"retry: " + b"9" * 400 + b"\ndata: x\n\n",
               b"retry: " + b"9" * 5000 + b"\ndata: x\n\n", b"retry: -5\ndata: x\n\n", b"retry: \xd9\xa5\ndata: x\n\n",
               b"retry: 1e3\nid: 1\ndata: x\n\n", b"data: " + b"[" * 1600 + b"\n\n", b"data: " + b"[" * 20000 + b"\n\n",
               b"data: {\"a\": 1}\n\n", b"\xef\xbb\xbfid: 1\ndata: x\n\n", b"\xef\xbb", b"id\ndata\n\n", b": c\xff\n\n", b"id: \x00\ndata: x\n\n",
               b"id: caf\xc3\xa9\ndata: x\n\n", b"data: x\r\rdata: y\r\n\r\n", b"id: 1\ndata: x\n\nid: \xe2\x82\xac\n\n"]
# redirect Location values
HOSTILE_LOCATIONS = ["http://[::abc]/x", "http://[::1]:8080/x", "http://[::ffff:1.2.3.4]/", "http://[1::]:81/", "http://[::abc]:81/x",
                     "http://%5B::abc%5D/x", "http://[fe80::1%25eth0]/", "http://[::1]:abc/", "http://127.0.0.1:%38%31/",
                     "http://127.0.0.1:8080:81/", "http://127.0.0.1:/x", "http://:81/", "http://127.0.0.1:0/", "https://[::abc]/x",
                     "//[::abc]/x", "http://[::abc]", "http://[::]/", "http://[v1.x]:81/", "http://127.0.0.1%3A81/", "HTTP://[::ABC]/X",
                     "http://[::abc]/%5B?q=%5D#%5B", "/%5B", "//%5B", "http://u:p@[::abc]/", "http://[::abc]:/"]
LOC_SCHEMES = ["http://", "https://", "//", "", "HTTP://", "http:/", "ftp://"]
LOC_HOSTS = ["[::abc]", "[::1]", "[::ffff:1.2.3.4]", "[1::]", "%5B::1%5D", "127.0.0.1", "[v1.x]", "[::1", "::1]", "[fe80::1%25eth0]", "",
             "u:p@[::abc]", "[::abc]]", "[[::abc]", "127.0.0.1%3A81", "[]"]
LOC_PORTS = ["", ":81", ":abc", ":99999", ":-1", ":", ":0", ":%38%31", ":8080", ":81:82", ": 81", ":\xb2"]
LOC_TAILS = ["/x", "", "?q=1", "/%5B", "#f", "/x?y=%5D#%5B", "/\xe9"]


def json_body(opener, depth, closed):
    inner, closer = JSON_NEST[opener]
    return (opener * depth + ((inner + closer * depth) if closed else "")).encode("latin-1")


def mutate(spec, muts, kind):
    """Apply mutations to a valid spec; returns bytes."""
    spec = dict(spec)
    post = []
    for m in muts:
        k = m[0]
        if k == "chunksize" and spec["frame"] == "chunked":
            spec["_badsize"] = m[1]
        elif k == "target" and kind == "req":
            spec["target"] = m[1]
        elif k == "location" and kind == "resp":
            spec["status"] = m[1]
            spec["reason"] = "Redirect"
            if m[2] is not None:
                spec["headers"] = spec["headers"] + [["Location", m[2]]]
        elif k == "jsonbody":
            # ["jsonbody", content type | None, opener, depth, closed]: the body becomes a deeply nested JSON text
            spec["body"] = json_body(m[2], m[3], m[4])
            if m[1] is not None:
                spec["ctype"] = m[1]
            if spec["frame"] in ("none", "nobody"):
                spec["frame"] = "len"
                if kind == "resp":
                    spec["status"], spec["reason"] = 200, "OK"
        elif k == "sse" and kind == "resp":
            # ["sse", frame, stream bytes]: a 200 text/event-stream response carrying the stream
            spec["status"], spec["reason"], spec["ctype"], spec["body"], spec["frame"] = 200, "OK", "text/event-stream", m[2], m[1]
            if m[1] == "chunked" and "sizes" not in spec:
                spec.update(sizes=[max(1, len(m[2]) // 3)], exts=[], trailers=[], hexupper=False, lz=0)
        else:
            post.append(m)
    data = bytearray(httpgen.build(spec))
    if "_badsize" in spec:
        # replace the first chunk-size line after the head
        e = b"\r\n\r\n" if spec.get("eol") == "crlf" else b"\n\n"
        he = data.find(e)
        if he >= 0:
            p = he + len(e)
            le = data.find(b"\r\n", p)
            if le >= 0:
                data[p:le] = spec["_badsize"].encode("latin-1")
    for m in post:
        k = m[0]
        n = len(data)
        if k == "nospace":
            idxs = [i for i in range(n - 1) if data[i:i + 2] == b": "]
            if idxs:
                i = idxs[m[1] % len(idxs)]
                del data[i + 1]
        elif k == "startline":
            le = data.find(b"\n")
            if le >= 0:
                cr = le > 0 and data[le - 1:le] == b"\r"
                data[:le - (1 if cr else 0)] = m[1].encode("latin-1")
        elif k == "longline":
            le = data.find(b"\n")
            if le >= 0:
                data[le + 1:le + 1] = b"X-Long: " + b"a" * m[1] + b"\r\n"
        elif k == "longstart":
            data[0:0] = b"A" * m[1]
        elif k == "manyheaders":
            le = data.find(b"\n")
            if le >= 0:
                data[le + 1:le + 1] = b"".join(b"X-H%d: v\r\n" % i for i in range(m[1]))
        elif k == "cl":
            le = data.find(b"\n")
            if le >= 0:
                # the bad value must be THE Content-Length of the message: drop the header lines the generator made
                # (content-length, and transfer-encoding which would make the parser ignore the length)
                e1, e2 = data.find(b"\r\n\r\n"), data.find(b"\n\n")
                he = min(x for x in (e1, e2, len(data)) if x >= 0)
                lines = bytes(data[le + 1:he]).split(b"\n")
                keep = [ln for ln in lines if not ln.lower().startswith((b"content-length:", b"transfer-encoding:"))]
                data[le + 1:he] = b"\n".join(keep)
                data[le + 1:le + 1] = b"Content-Length: " + m[1].encode("latin-1") + b"\r\n"
        elif k == "hiline":
            # a byte >= 0x80 (or NUL) somewhere in the j-th line of the head (start line, header name or value)
            e = data.find(b"\r\n\r\n")
            e2 = data.find(b"\n\n")
            he = min(x for x in (e, e2, n) if x >= 0)
            starts = [0] + [i + 1 for i in range(he) if data[i:i + 1] == b"\n"]
            st_ = starts[m[1] % len(starts)]
            en = data.find(b"\n", st_)
            en = he if en < 0 else en
            pos = st_ + (m[2] % max(1, en - st_ + 1))
            if m[4]:
                data[pos:pos + 1] = bytes([m[3]])
            else:
                data[pos:pos] = bytes([m[3]])
        elif k == "truncate" and n > 1:
            del data[1 + m[1] % (n - 1):]
        elif k == "flip" and n:
            data[m[1] % n] = m[2]
        elif k == "insert":
            p = m[1] % (n + 1)
            data[p:p] = m[2]
    return bytes(data)


def echo_app(environ, start_response):
    body = environ["wsgi.input"].read()
    out = b"echo:" + body
    start_response("200 OK", [("Content-Type", "application/octet-stream"), ("Content-Length", str(len(out)))])
    return [out]


SIB_REQ = b"GET /sibling HTTP/1.1\r\nHost: x\r\nContent-Length: 3\r\n\r\nabc"


def cap(frags, limit=80):
    """At most `limit` fragments (a 70 kB line cut every few bytes would need tens of thousands of service cycles)."""
    if len(frags) <= limit:
        return frags
    step = -(-len(frags) // limit)
    return [b"".join(frags[i:i + step]) for i in range(0, len(frags), step)]


def sig_of(prefix, ex):
    return "C16/%s:%s@%s" % (prefix, type(ex).__name__, hio_frame(ex) or "?")


# ------------------------------------------------------------------ TLS model (https targets)

def c16_ssl_error():
    """What recv() / do_handshake() of an ssl socket raise when the bytes on the wire are not a TLS record (observed with
    CPython 3.12 / OpenSSL 3 over real sockets: SSLError(1, '[SSL: WRONG_VERSION_NUMBER] wrong version number (_ssl.c:...)'))."""
    return ssl.SSLError(ssl.SSL_ERROR_SSL, "[SSL: WRONG_VERSION_NUMBER] wrong version number (_ssl.c:2559)")


class c16_TlsSocket(fakenet.FakeSocket):
    """One end of a fake TLS connection.  What the peer wrote through its TLS layer is queued as plaintext; poison() stands for
    the peer writing raw non-TLS bytes to the connection: everything queued before is still delivered, the call that reaches
    the raw bytes raises SSLError (and so does every later one)."""

    def __init__(self, *pa, **kwa):
        super().__init__(*pa, **kwa)
        self.c16_poisoned = False        # raw bytes follow what is queued in .inbuf
        self.c16_hs_poisoned = False     # raw bytes instead of the peer's handshake records

    def poison(self):
        self.c16_poisoned = True

    def recv(self, bs):
        if self.c16_poisoned and not self.inbuf and not self.closed:
            self.calls.append(("recv-fail", "SSLError"))
            raise c16_ssl_error()
        return super().recv(bs)

    def do_handshake(self):
        if self.c16_hs_poisoned:
            raise c16_ssl_error()
        return super().do_handshake()


class c16_ServantTls(fakenet.FakeServantTls):
    """The real tcp.ServerTls (serviceAxes / serviceCxes / RemoterTls) accepting in-memory connections whose server side end is a
    c16_TlsSocket."""

    def connect(self, port, name=None):
        a = fakenet.FakeSocket(name or "c%d" % port, ("127.0.0.1", port), (self.eha[0], self.eha[1]))
        b = c16_TlsSocket("s%d" % port, (self.eha[0], self.eha[1]), ("127.0.0.1", port))
        a.peer, b.peer = b, a
        self.pending.append(b)
        return a


class c16_TlsRig(memhttp.Rig):
    """memhttp.Rig with the https flavour of the servers (same wiring, TLS servant)."""

    def __init__(self, app=None, tymeout=None, tock=0.125, bare=False, bs=256, **kwa):
        self.tymist = tyming.Tymist(tyme=0.0, tock=tock)
        skw = {"bs": bs}
        if tymeout is not None:
            skw["tymeout"] = tymeout
        self.servant = c16_ServantTls(**skw)
        if bare:
            self.server = serving.BareServer(servant=self.servant, **kwa)
        else:
            self.server = serving.Server(servant=self.servant, app=app, **kwa)
        if hasattr(self.server, 'wind'):
            self.server.wind(self.tymist.tymen())
        else:
            self.servant.wind(self.tymist.tymen())
        self.clients = {}
        self.rx = {}
        self.eof = {}
        self.nextport = 42000


class c16_ConnectorTls(fakenet.FakeConnectorTls):
    """TLS flavoured in-memory connector that runs the real ClientTls.connect / handshake on the fake socket (FakeConnectorTls
    skips the handshake), so that a peer answering the ClientHello with non-TLS bytes can be expressed."""

    def accept(self):
        ok = fakenet.FakeConnector.accept(self)
        if ok:
            self.cs.tls = True
        return ok

    def wrap(self):
        pass        # the fake socket is its own TLS layer

    connect = tcpc.ClientTls.connect


def garbage_offset(case, data):
    g = case.get("garbage_at")
    return None if g is None else g % (len(data) + 1)


def run_server(case, data, r):
    target = case["target"]
    tls = target.endswith("-tls")
    bare = target.startswith("bare")
    kwa = {"dictable": case.get("dictable", False)} if bare else {}
    rig = (c16_TlsRig if tls else memhttp.Rig)(app=echo_app, bare=bare, bs=4096, tymeout=100000.0, **kwa)
    pa = rig.connect()
    pb = rig.connect()
    goff = garbage_offset(case, data) if tls else None
    sent = data if goff is None else data[:goff]
    frags = cap(httpgen.fragments(sent, case["cuts"])) if sent else [b""]
    try:
        rig.cycle()
        sib_at = case.get("sib_at", 0) % (len(frags) + 1)
        for i, f in enumerate(frags):
            if i == sib_at:
                rig.send(pb, SIB_REQ)
            rig.send(pa, f)
            if goff is not None and i == len(frags) - 1:
                rig.clients[pa].peer.poison()       # A goes on with bytes that are not TLS
            rig.cycle()
        if sib_at >= len(frags):
            rig.send(pb, SIB_REQ)
        if case.get("close_a"):
            rig.clients[pa].close()
        for _ in range(12):
            rig.cycle()
    except Exception as ex:      # noqa: BLE001
        r.fail(sig_of("%s-server-raised" % target, ex), "%s: %s on input %r%s" % (
            type(ex).__name__, ex, sent[:120], "" if goff is None else " followed by bytes that are not TLS"))
        return
    resps, left, problem = memhttp.parse_responses(bytes(rig.rx[pb]), rig.eof[pb])
    ok = not problem and len(resps) == 1 and resps[0]["status"] == 200
    if ok and not bare:
        ok = resps[0]["body"] == b"echo:abc"
    if ok and bare:
        try:
            ok = json.loads(resps[0]["body"].decode("utf-8")).get("body") == "abc"
        except ValueError:
            ok = False
    if not ok:
        r.fail("C16/%s-sibling-not-served" % target, "sibling got %r (problem %r) while A sent %r" % (
            bytes(rig.rx[pb])[:120], problem, data[:80]))


class _Patch:
    """Route every connector the http client creates (redirects) to in-memory fakes."""

    def __enter__(self):
        self.saved = (clienting.tcp.Client, clienting.tcp.ClientTls)
        clienting.tcp.Client = fakenet.FakeConnector
        clienting.tcp.ClientTls = c16_ConnectorTls
        fakenet.FakeConnector.registry = {}
        fakenet.FakeConnector.opened_to = []
        return self

    def __exit__(self, *a):
        clienting.tcp.Client, clienting.tcp.ClientTls = self.saved


def run_client(case, data, r):
    tls = case["target"] == "client-tls"
    copts = case.get("copts") or {}
    reconnectable = bool(copts.get("reconnectable"))
    goff = garbage_offset(case, data) if tls else None
    sent = data if goff is None else data[:goff]
    with _Patch():
        socks = []

        def maker():
            a = c16_TlsSocket("a", ("127.0.0.1", 43000 + len(socks)), ("127.0.0.1", 8080))
            b = fakenet.FakeSocket("b", ("127.0.0.1", 8080), ("127.0.0.1", 43000 + len(socks)))
            a.peer, b.peer = b, a
            if tls and case.get("hs_garbage") and not socks:
                a.c16_hs_poisoned = True        # the far side answers the ClientHello with bytes that are not TLS
            socks.append((a, b))
            return a
        fakenet.FakeConnector.registry[("127.0.0.1", 8080)] = maker
        cls = c16_ConnectorTls if tls else fakenet.FakeConnector
        ckw = {}
        tymist = None
        if reconnectable:
            # a client that reconnects (server sent events): wound to a harness clock that is ticked once per service cycle
            tymist = tyming.Tymist(tyme=0.0, tock=0.125)
            ckw = {"tymth": tymist.tymen(), "reconnectable": True, "tymeout": 0.25}
        conn = cls(ha=("127.0.0.1", 8080), **ckw)
        conn.reopen()
        hkw = {"dictable": True} if copts.get("dictable") else {}
        client = clienting.Client(connector=conn, method="GET", path="/x", hostname="127.0.0.1", port=8080,
                                  scheme="https" if tls else "http", **hkw)
        client.request(method="GET", path="/x")
        frags = cap(httpgen.fragments(sent, case["cuts"])) if sent else [b""]

        def cycle():
            client.service()
            if tymist is not None:
                tymist.tick()
        try:
            cycle()
            cycle()
            for i, f in enumerate(frags):
                if socks:
                    socks[0][1].send(f)
                    if goff is not None and i == len(frags) - 1:
                        socks[0][0].poison()        # the far side goes on with bytes that are not TLS
                cycle()
            if case.get("close_a") and socks:
                socks[0][1].close()
            for _ in range(12 if reconnectable else 8):
                cycle()
        except Exception as ex:      # noqa: BLE001
            r.fail(sig_of("%s-raised" % case["target"], ex), "%s: %s on response bytes %r%s" % (
                type(ex).__name__, ex, sent[:120], "" if goff is None and not case.get("hs_garbage") else " and bytes that are not TLS"))
            return
        if len(client.responses) > 1:
            r.fail("C16/client-more-than-one-entry", "%d response entries for one request" % len(client.responses))


def run_case(case):
    r = Result()
    kind = "resp" if case["target"].startswith("client") else "req"
    if case.get("base") is not None:
        data = mutate(case["base"], case["muts"], kind)
    else:
        data = case["raw"]
    with contextlib.redirect_stderr(io.StringIO()):     # the servers report parse errors on sys.stderr
        if kind == "req":
            run_server(case, data, r)
        else:
            run_client(case, data, r)
    first = data.split(b"\n", 1)[0].strip()
    valid_start = False
    if kind == "req":
        p = first.split(b" ")
        valid_start = len(p) == 3 and p[0].decode("latin-1") in httpgen.METHODS and p[2].startswith(b"HTTP/1.")
    else:
        p = first.split(b" ")
        valid_start = len(p) >= 2 and p[0].startswith(b"HTTP/1.") and p[1].isdigit() and len(p[1]) == 3
    tlsbad = case["target"].endswith("-tls") and (case.get("garbage_at") is not None or bool(case.get("hs_garbage")))
    r.nontrivial = case.get("base") is not None and (bool(case["muts"]) or tlsbad) and valid_start
    r.labels.append("target:" + case["target"])
    r.labels.append("mutated-valid" if case.get("base") is not None else "raw-bytes")
    for m in (case.get("muts") or []):
        r.labels.append("mut:" + m[0])
    if tlsbad:
        r.labels.append("non-tls-bytes:" + ("handshake" if case.get("hs_garbage") else "after-handshake"))
    for k, v in sorted((case.get("copts") or {}).items()):
        if v:
            r.labels.append("client:" + k)
    return r


def sse_mutation():
    sse_line = st.tuples(st.sampled_from(SSE_FIELDS), st.sampled_from(SSE_SEPS),
                         st.one_of(st.sampled_from(SSE_VALUES), st.binary(max_size=6)), st.sampled_from(SSE_EOLS),
                         st.sampled_from([b"", b"", b"\n", b"\r\n"])).map(b"".join)
    sse_stream = st.one_of(st.sampled_from(SSE_STREAMS),
                           st.tuples(st.sampled_from([b"", b"", b"\xef\xbb\xbf"]), st.lists(sse_line, min_size=1, max_size=6).map(b"".join),
                                     st.sampled_from([b"\n", b"\n\n", b""])).map(b"".join))
    return st.tuples(st.just("sse"), st.sampled_from(["close", "close", "chunked", "len"]), sse_stream)


def mutation(kind):
    common = [
        st.tuples(st.just("nospace"), st.integers(0, 20)),
        st.tuples(st.just("chunksize"), st.sampled_from(BAD_SIZES)),
        st.tuples(st.just("longline"), st.sampled_from([65530, 65537, 70000])),
        st.tuples(st.just("longstart"), st.sampled_from([65537, 70000])),
        st.tuples(st.just("manyheaders"), st.sampled_from([95, 101, 120])),
        st.tuples(st.just("cl"), st.sampled_from(BAD_CL)),
        st.tuples(st.just("cl"), st.sampled_from(BAD_CL)),
        # digits in other scripts / superscripts: str.isdigit() says yes, int() may say no
        st.tuples(st.just("cl"), st.sampled_from(["\xb2", "1\xb3", "\xb9\xb9", "2\xb2"])),
        st.tuples(st.just("hiline"), st.integers(0, 12), st.integers(0, 60),
                  st.sampled_from([0x80, 0xe9, 0xff, 0xc3, 0x00, 0xa0, 0xb2]), st.booleans()),
        st.tuples(st.just("truncate"), st.integers(0, 10 ** 6)),
        st.tuples(st.just("flip"), st.integers(0, 10 ** 6), st.integers(0, 255)),
        st.tuples(st.just("insert"), st.integers(0, 10 ** 6), st.binary(min_size=1, max_size=6)),
    ]
    nest = st.tuples(st.just("jsonbody"), st.sampled_from(JSON_CTYPES), st.sampled_from(sorted(JSON_NEST)),
                     st.sampled_from(JSON_DEPTHS), st.booleans())
    common += [nest, nest]
    if kind == "req":
        common += [st.tuples(st.just("target"), st.sampled_from(BAD_TARGETS)),
                   st.tuples(st.just("target"), st.sampled_from(PCT_TARGETS)),
                   st.tuples(st.just("target"), st.lists(st.sampled_from(TARGET_PIECES), min_size=1, max_size=8).map("".join)),
                   st.tuples(st.just("startline"), st.sampled_from(BAD_STARTS_REQ))]
    else:
        sse = sse_mutation()
        loc = st.one_of(st.sampled_from(HOSTILE_LOCATIONS),
                        st.tuples(st.sampled_from(LOC_SCHEMES), st.sampled_from(LOC_HOSTS), st.sampled_from(LOC_PORTS),
                                  st.sampled_from(LOC_TAILS)).map("".join))
        common += [sse, sse, sse,
                   st.tuples(st.just("location"), st.sampled_from([301, 302, 303, 307, 308]), loc),
                   st.tuples(st.just("location"), st.sampled_from([301, 302, 303, 307, 308]), loc)]
        common += [st.tuples(st.just("startline"), st.sampled_from(BAD_STARTS_RESP)),
                   st.tuples(st.just("location"), st.sampled_from([301, 302, 303, 307, 300]),
                             st.sampled_from([None, "/other", "http://127.0.0.1:8080/y", "http://otherhost:81/z",
                                              "https://127.0.0.1:8080/s", "http://[::1/x", "http://h:99999/", "", "?q=1", "//x"]))]
    return st.one_of(*common).map(list)


def _bases(kind):
    if kind == "req":
        common = {"t": "req", "method": "POST", "target": "/p?q=1", "version": "HTTP/1.1", "headers": [["Host", "x"], ["X-A", "b"]],
                  "eol": "crlf", "conn": None}
    else:
        common = {"t": "resp", "version": "HTTP/1.1", "status": 200, "reason": "OK", "headers": [["X-A", "b"]], "eol": "crlf",
                  "conn": None, "pre100": False, "reqmethod": "GET"}
    chunked = dict(common, frame="chunked", body=b"hello world", sizes=[5], exts=[], trailers=[], hexupper=False, lz=0)
    plain = dict(common, frame="len", body=b"hello")
    return chunked, plain


def enumerate_cases(tier, shard, nshards):
    """Every listed near-valid value at its structural position, for every service loop (complete for these lists)."""
    def cells():
        k = 0
        for target in ("wsgi", "bare", "client", "client-tls"):
            kind = "resp" if target.startswith("client") else "req"
            chunked, plain = _bases(kind)
            muts = [(chunked, ["chunksize", v]) for v in BAD_SIZES]
            muts += [(plain, ["cl", v]) for v in BAD_CL + ["\xb9\xb9", "2\xb2"]]
            if kind == "req":
                muts += [(plain, ["target", v]) for v in BAD_TARGETS]
                muts += [(plain, ["startline", v]) for v in BAD_STARTS_REQ]
            else:
                muts += [(plain, ["startline", v]) for v in BAD_STARTS_RESP]
            for base in (chunked, plain):
                for line in range(4):
                    for pos in (0, 2, 9):
                        for byte in (0x80, 0xe9, 0xff, 0x00):
                            for repl in (False, True):
                                muts.append((base, ["hiline", line, pos, byte, repl]))
            for base, m in muts:
                for cuts in ({"mode": "random", "points": []}, {"mode": "every", "k": 1}):
                    if k % nshards == shard:
                        yield {"target": target, "base": base, "muts": [m], "raw": b"", "cuts": cuts, "sib_at": k % 4,
                               "close_a": bool(k % 2), "dictable": bool((k // 2) % 2)}
                    k += 1
    def hunt_cells():
        """The hostile families added after the C16 hunt, every listed value alone on a canonical message."""
        whole, bytewise = {"mode": "random", "points": []}, {"mode": "every", "k": 1}
        k = 0
        for target in ("wsgi", "bare", "wsgi-tls", "bare-tls", "client", "client-tls"):
            kind = "resp" if target.startswith("client") else "req"
            tls = target.endswith("-tls")
            chunked, plain = _bases(kind)
            rows = []       # (base, muts, extra case fields)
            nests = [["jsonbody", ct, op, depth, closed] for ct in ("application/json", None) for op in sorted(JSON_NEST)
                     for depth in (1600, 20000) for closed in (False, True)]
            for m in nests:
                for opt in (False, True):
                    rows.append((plain, [m], {"dictable": opt, "copts": {"dictable": opt}}))
            rows.append((chunked, [["jsonbody", "application/json", "[", 3000, False]], {}))
            if kind == "req":
                rows += [(plain, [["target", v]], {}) for v in PCT_TARGETS]
            else:
                for stream in SSE_STREAMS:
                    for frame in ("close", "chunked"):
                        for rec in (False, True):
                            for dic in (False, True):
                                rows.append((plain, [["sse", frame, stream]], {"copts": {"reconnectable": rec, "dictable": dic},
                                                                               "close_a": True}))
                rows += [(plain, [["location", status, v]], {}) for v in HOSTILE_LOCATIONS for status in (301, 307)]
            if tls:
                # a valid message, the peer switches to bytes that are not TLS at every listed offset
                bases = []
                for version in ("HTTP/1.1", "HTTP/1.0"):
                    for conn in (None, "close"):
                        bases += [dict(plain, version=version, conn=conn), dict(chunked, version=version, conn=conn)]
                for b in bases:
                    n = len(httpgen.build(b))
                    for g in sorted({0, 1, n // 2, n - 1, n}):
                        rows.append((b, [], {"garbage_at": g}))
                # ... and right behind a malformed message (the connection is being given up by the http layer as well)
                for m in (["startline", "GET / HTTP/2.0" if kind == "req" else "HTTP/2.0 200 OK"], ["cl", "abc"], ["nospace", 0],
                          ["chunksize", "zz"]):
                    for b in (bases[0], bases[1], bases[2]):
                        rows.append((b, [m], {"garbage_at": len(mutate(b, [m], kind))}))
                if kind == "resp":
                    rows += [(b, [], {"hs_garbage": True}) for b in bases[:2]]
            for base, muts, extra in rows:
                for cuts in (whole, bytewise):
                    if k % nshards == shard:
                        case = {"target": target, "base": base, "muts": muts, "raw": b"", "cuts": cuts, "sib_at": k % 4,
                                "close_a": bool(k % 2), "dictable": bool((k // 2) % 2)}
                        case.update(extra)
                        yield case
                    k += 1
    return [("listed near-valid values x position x service loop", cells(), True),
            ("hostile families (percent-encoded targets, nested JSON, event streams, Location values, non-TLS bytes) x service loop",
             hunt_cells(), True)]


def events_strategy(target):
    """Event-stream responses to a (mostly reconnectable) client whose far side (mostly) closes afterwards, so that what the
    stream left behind (last event id, retry) is used by the reconnect."""
    mostly = st.sampled_from([True, True, True, False])
    light = st.one_of(st.tuples(st.just("truncate"), st.integers(0, 10 ** 6)),
                      st.tuples(st.just("flip"), st.integers(0, 10 ** 6), st.integers(0, 255)),
                      st.tuples(st.just("insert"), st.integers(0, 10 ** 6), st.binary(min_size=1, max_size=6)))
    muts = st.tuples(sse_mutation(), st.lists(light, max_size=1)).map(lambda t: [list(t[0])] + [list(x) for x in t[1]])
    case = {"target": st.just(target), "base": httpgen.response_spec(max_body=20), "muts": muts, "raw": st.just(b""),
            "cuts": httpgen.cuts(), "sib_at": st.just(0), "close_a": mostly, "dictable": st.just(False),
            "copts": st.fixed_dictionaries({"reconnectable": mostly, "dictable": st.booleans()})}
    if target.endswith("-tls"):
        case["garbage_at"] = st.none()
    return st.fixed_dictionaries(case)


def case_strategy(target):
    kind = "resp" if target.startswith("client") else "req"
    tls = target.endswith("-tls")
    base = httpgen.request_spec(max_body=60) if kind == "req" else httpgen.response_spec(max_body=60)
    common = {"target": st.just(target), "cuts": httpgen.cuts(), "sib_at": st.integers(0, 5), "close_a": st.booleans(),
              "dictable": st.booleans()}
    if kind == "resp":
        common["copts"] = st.fixed_dictionaries({"reconnectable": st.booleans(), "dictable": st.booleans()})
    if tls:
        # offset (modulo length + 1) from which the peer writes bytes that are not TLS; None: it never does
        common["garbage_at"] = st.one_of(st.none(), st.none(), st.integers(0, 10 ** 6))
        if kind == "resp":
            common["hs_garbage"] = st.sampled_from([False] * 7 + [True])
    mutated = st.fixed_dictionaries(dict(common, base=base, muts=st.lists(mutation(kind), min_size=1, max_size=3), raw=st.just(b"")))
    raw = st.fixed_dictionaries(dict(common, base=st.none(), muts=st.just([]),
                                     raw=st.one_of(st.binary(max_size=200),
                                                   st.text(alphabet="GETPOSHTP/1.0 :\r\n;=abc%[]?#5x-_", max_size=120)
                                                   .map(lambda t: t.encode("latin-1")))))
    valid = st.fixed_dictionaries(dict(common, base=base, muts=st.just([]), raw=st.just(b"")))
    return st.one_of(mutated, mutated, mutated, raw, valid)


def searches(tier):
    q = tier == "quick"
    n = 500 if q else 8000
    return [("wsgi-server", case_strategy("wsgi"), n), ("bare-server", case_strategy("bare"), n),
            ("client", case_strategy("client"), n), ("client-tls", case_strategy("client-tls"), n // 2),
            ("client-events", events_strategy("client"), n // 2),
            ("wsgi-tls-server", case_strategy("wsgi-tls"), n // 2), ("bare-tls-server", case_strategy("bare-tls"), n // 2)]

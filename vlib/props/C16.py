"""C16 No client-sent bytes can make the HTTP server's service loop raise.

Near-valid inputs (a valid generated message with 1-3 mutations from the
property's list: header line without a blank after the colon, non-hex / signed /
0x / underscore / non-ASCII chunk sizes, bytes >= 0x80 and NUL in start line, header names and values, absolute URLs with out-of-range ports or broken IPv6
literals, lines longer than 65536 bytes, more than 100 headers, bad request /
status lines, bad Content-Length, truncation, byte flips, inserted bytes) and
arbitrary bytes are delivered in fragments

  wsgi / bare   to connection A of the real http.Server (WSGI echo application) or
                BareServer running in memory, while a sibling connection B sends a
                valid request.  service() must never raise and B must receive its
                complete, well-formed 200 response.
  client        as response bytes to the real http.Client (plain and TLS flavoured
                connector) with one request outstanding.  service() must never raise
                and at most one response entry may be produced for the request.
Failures are bucketed by (exception type, innermost hio frame) so that every root
cause is reported once.
"""
import contextlib
import io
import json

from hypothesis import strategies as st

from hio.core.http import clienting, serving
from vlib import fakenet, httpgen, memhttp
from vlib.core import Result, hio_frame

PID = "C16"
RULE = ("cases: target in {wsgi server, bare server, client, TLS client} x (valid generated message + 1-3 mutations | arbitrary "
        "bytes) x fragmentation; plus a complete enumeration of every listed near-valid value (chunk sizes, Content-Length values, "
        "targets, start lines, a byte >= 0x80 or NUL at 3 positions of each of the first 4 head lines) alone on a canonical "
        "message x target x {whole, byte-at-a-time}. non-trivial = a mutated valid message whose first line is still a valid start line (the "
        "parser gets beyond the start line); distinct = canonical hash of the case")
ASSUMPTIONS = ["the WSGI application is a well-behaved echo application", "redirect targets resolve to in-memory connectors "
               "(clienting.tcp.Client / ClientTls are replaced by fake connectors inside the check process)"]

BAD_SIZES = ["-1", "+5", "0x5", "1_0", "", " ", "\t", "  ", " ;ext=1", ";a=b", " 5 ", "g", "5 5", "zz", "0x", "-0", "ffffffffffffffffffff",
             "4\xe9", "\xff", "\x80", "5;e\xff=1", "5;\xe9", "1\x00", "\u0665".encode("utf-8").decode("latin-1"), "5;a=\"\xff\""]
BAD_TARGETS = ["http://example.com:99999/x", "http://example.com:-1/", "http://[::1/x", "http://[1:2/", "http://exa mple.com/",
               "http://example.com:abc/x", "//[/x", "http://[::1]:8x/", "*", "", "/\xff\xfe", "http://[v1.x]/", "/a?b#c"]
BAD_STARTS_REQ = ["GET", "GET /", "GET / HTTP/2.0", "FOO / HTTP/1.1", " / HTTP/1.1", "GET / HTTP/1.1 extra", "get / http/1.1",
                  "GET  /  HTTP/1.1", "\x00\x01\x02", "GET / HTTP/1.", "GET / XTTP/1.1", "HTTP/1.1 200 OK"]
BAD_STARTS_RESP = ["HTTP/1.1", "HTTP/1.1 abc OK", "HTTP/1.1 99 Low", "HTTP/1.1 1000 High", "HTTP/2.0 200 OK", "200 OK", "", " ",
                   "HTTP/1.1 200", "XTTP/1.1 200 OK", "HTTP/1.1 -200 OK", "GET / HTTP/1.1", "HTTP/1.1 302 Found",
                   "HTTP/1.1 301 Moved", "HTTP/1.1 100 Continue"]
BAD_CL = ["-5", "abc", "99999999999999999999", "1e3", "", " 7", "0x10", "+3", "5\xe9", "\xff", "\xb2", "1\xb3", "\xb9",
          "\u0665".encode("utf-8").decode("latin-1"), "1_0", "5 ", "0005", "5,5"]


def mutate(spec, muts, kind):
    """Apply mutations to a valid spec; returns bytes."""
    spec = dict(spec)
    post = []
    for m in muts:
        k = m[0]
        if k == "chunksize" and spec["frame"] == "chunked":
            spec["_badsize"] = m[1]
        elif k == "target" and kind == "req":
            spec["target"] = m[1]
        elif k == "location" and kind == "resp":
            spec["status"] = m[1]
            spec["reason"] = "Redirect"
            if m[2] is not None:
                spec["headers"] = spec["headers"] + [["Location", m[2]]]
        else:
            post.append(m)
    data = bytearray(httpgen.build(spec))
    if "_badsize" in spec:
        # replace the first chunk-size line after the head
        e = b"\r\n\r\n" if spec.get("eol") == "crlf" else b"\n\n"
        he = data.find(e)
        if he >= 0:
            p = he + len(e)
            le = data.find(b"\r\n", p)
            if le >= 0:
                data[p:le] = spec["_badsize"].encode("latin-1")
    for m in post:
        k = m[0]
        n = len(data)
        if k == "nospace":
            idxs = [i for i in range(n - 1) if data[i:i + 2] == b": "]
            if idxs:
                i = idxs[m[1] % len(idxs)]
                del data[i + 1]
        elif k == "startline":
            le = data.find(b"\n")
            if le >= 0:
                cr = le > 0 and data[le - 1:le] == b"\r"
                data[:le - (1 if cr else 0)] = m[1].encode("latin-1")
        elif k == "longline":
            le = data.find(b"\n")
            if le >= 0:
                data[le + 1:le + 1] = b"X-Long: " + b"a" * m[1] + b"\r\n"
        elif k == "longstart":
            data[0:0] = b"A" * m[1]
        elif k == "manyheaders":
            le = data.find(b"\n")
            if le >= 0:
                data[le + 1:le + 1] = b"".join(b"X-H%d: v\r\n" % i for i in range(m[1]))
        elif k == "cl":
            le = data.find(b"\n")
            if le >= 0:
                # the bad value must be THE Content-Length of the message: drop the header lines the generator made
                # (content-length, and transfer-encoding which would make the parser ignore the length)
                e1, e2 = data.find(b"\r\n\r\n"), data.find(b"\n\n")
                he = min(x for x in (e1, e2, len(data)) if x >= 0)
                lines = bytes(data[le + 1:he]).split(b"\n")
                keep = [ln for ln in lines if not ln.lower().startswith((b"content-length:", b"transfer-encoding:"))]
                data[le + 1:he] = b"\n".join(keep)
                data[le + 1:le + 1] = b"Content-Length: " + m[1].encode("latin-1") + b"\r\n"
        elif k == "hiline":
            # a byte >= 0x80 (or NUL) somewhere in the j-th line of the head (start line, header name or value)
            e = data.find(b"\r\n\r\n")
            e2 = data.find(b"\n\n")
            he = min(x for x in (e, e2, n) if x >= 0)
            starts = [0] + [i + 1 for i in range(he) if data[i:i + 1] == b"\n"]
            st_ = starts[m[1] % len(starts)]
            en = data.find(b"\n", st_)
            en = he if en < 0 else en
            pos = st_ + (m[2] % max(1, en - st_ + 1))
            if m[4]:
                data[pos:pos + 1] = bytes([m[3]])
            else:
                data[pos:pos] = bytes([m[3]])
        elif k == "truncate" and n > 1:
            del data[1 + m[1] % (n - 1):]
        elif k == "flip" and n:
            data[m[1] % n] = m[2]
        elif k == "insert":
            p = m[1] % (n + 1)
            data[p:p] = m[2]
    return bytes(data)


def echo_app(environ, start_response):
    body = environ["wsgi.input"].read()
    out = b"echo:" + body
    start_response("200 OK", [("Content-Type", "application/octet-stream"), ("Content-Length", str(len(out)))])
    return [out]


SIB_REQ = b"GET /sibling HTTP/1.1\r\nHost: x\r\nContent-Length: 3\r\n\r\nabc"


def cap(frags, limit=80):
    """At most `limit` fragments (a 70 kB line cut every few bytes would need tens of thousands of service cycles)."""
    if len(frags) <= limit:
        return frags
    step = -(-len(frags) // limit)
    return [b"".join(frags[i:i + step]) for i in range(0, len(frags), step)]


def sig_of(prefix, ex):
    return "C16/%s:%s@%s" % (prefix, type(ex).__name__, hio_frame(ex) or "?")


def run_server(case, data, r):
    bare = case["target"] == "bare"
    rig = memhttp.Rig(app=echo_app, bare=bare, bs=4096, tymeout=100000.0, **({"dictable": case.get("dictable", False)} if bare else {}))
    pa = rig.connect()
    pb = rig.connect()
    frags = cap(httpgen.fragments(data, case["cuts"])) if data else [b""]
    try:
        rig.cycle()
        sib_at = case.get("sib_at", 0) % (len(frags) + 1)
        for i, f in enumerate(frags):
            if i == sib_at:
                rig.send(pb, SIB_REQ)
            rig.send(pa, f)
            rig.cycle()
        if sib_at >= len(frags):
            rig.send(pb, SIB_REQ)
        if case.get("close_a"):
            rig.clients[pa].close()
        for _ in range(12):
            rig.cycle()
    except Exception as ex:      # noqa: BLE001
        r.fail(sig_of("%s-server-raised" % case["target"], ex), "%s: %s on input %r" % (type(ex).__name__, ex, data[:120]))
        return
    resps, left, problem = memhttp.parse_responses(bytes(rig.rx[pb]), rig.eof[pb])
    ok = not problem and len(resps) == 1 and resps[0]["status"] == 200
    if ok and not bare:
        ok = resps[0]["body"] == b"echo:abc"
    if ok and bare:
        try:
            ok = json.loads(resps[0]["body"].decode("utf-8")).get("body") == "abc"
        except ValueError:
            ok = False
    if not ok:
        r.fail("C16/%s-sibling-not-served" % case["target"], "sibling got %r (problem %r) while A sent %r" % (
            bytes(rig.rx[pb])[:120], problem, data[:80]))


class _Patch:
    """Route every connector the http client creates (redirects) to in-memory fakes."""

    def __enter__(self):
        self.saved = (clienting.tcp.Client, clienting.tcp.ClientTls)
        clienting.tcp.Client = fakenet.FakeConnector
        clienting.tcp.ClientTls = fakenet.FakeConnectorTls
        fakenet.FakeConnector.registry = {}
        fakenet.FakeConnector.opened_to = []
        return self

    def __exit__(self, *a):
        clienting.tcp.Client, clienting.tcp.ClientTls = self.saved


def run_client(case, data, r):
    tls = case["target"] == "client-tls"
    with _Patch():
        socks = []

        def maker():
            a, b = fakenet.pipe(a_addr=("127.0.0.1", 43000 + len(socks)), b_addr=("127.0.0.1", 8080))
            socks.append((a, b))
            return a
        fakenet.FakeConnector.registry[("127.0.0.1", 8080)] = maker
        cls = fakenet.FakeConnectorTls if tls else fakenet.FakeConnector
        conn = cls(ha=("127.0.0.1", 8080))
        conn.reopen()
        client = clienting.Client(connector=conn, method="GET", path="/x", hostname="127.0.0.1", port=8080,
                                  scheme="https" if tls else "http")
        client.request(method="GET", path="/x")
        frags = cap(httpgen.fragments(data, case["cuts"])) if data else [b""]
        try:
            client.service()
            client.service()
            for f in frags:
                if socks:
                    socks[0][1].send(f)
                client.service()
            if case.get("close_a") and socks:
                socks[0][1].close()
            for _ in range(8):
                client.service()
        except Exception as ex:      # noqa: BLE001
            r.fail(sig_of("%s-raised" % case["target"], ex), "%s: %s on response bytes %r" % (type(ex).__name__, ex, data[:120]))
            return
        if len(client.responses) > 1:
            r.fail("C16/client-more-than-one-entry", "%d response entries for one request" % len(client.responses))


def run_case(case):
    r = Result()
    kind = "resp" if case["target"].startswith("client") else "req"
    if case.get("base") is not None:
        data = mutate(case["base"], case["muts"], kind)
    else:
        data = case["raw"]
    with contextlib.redirect_stderr(io.StringIO()):     # the servers report parse errors on sys.stderr
        if case["target"] in ("wsgi", "bare"):
            run_server(case, data, r)
        else:
            run_client(case, data, r)
    first = data.split(b"\n", 1)[0].strip()
    valid_start = False
    if kind == "req":
        p = first.split(b" ")
        valid_start = len(p) == 3 and p[0].decode("latin-1") in httpgen.METHODS and p[2].startswith(b"HTTP/1.")
    else:
        p = first.split(b" ")
        valid_start = len(p) >= 2 and p[0].startswith(b"HTTP/1.") and p[1].isdigit() and len(p[1]) == 3
    r.nontrivial = case.get("base") is not None and bool(case["muts"]) and valid_start
    r.labels.append("target:" + case["target"])
    r.labels.append("mutated-valid" if case.get("base") is not None else "raw-bytes")
    for m in (case.get("muts") or []):
        r.labels.append("mut:" + m[0])
    return r


def mutation(kind):
    common = [
        st.tuples(st.just("nospace"), st.integers(0, 20)),
        st.tuples(st.just("chunksize"), st.sampled_from(BAD_SIZES)),
        st.tuples(st.just("longline"), st.sampled_from([65530, 65537, 70000])),
        st.tuples(st.just("longstart"), st.sampled_from([65537, 70000])),
        st.tuples(st.just("manyheaders"), st.sampled_from([95, 101, 120])),
        st.tuples(st.just("cl"), st.sampled_from(BAD_CL)),
        st.tuples(st.just("cl"), st.sampled_from(BAD_CL)),
        # digits in other scripts / superscripts: str.isdigit() says yes, int() may say no
        st.tuples(st.just("cl"), st.sampled_from(["\xb2", "1\xb3", "\xb9\xb9", "2\xb2"])),
        st.tuples(st.just("hiline"), st.integers(0, 12), st.integers(0, 60),
                  st.sampled_from([0x80, 0xe9, 0xff, 0xc3, 0x00, 0xa0, 0xb2]), st.booleans()),
        st.tuples(st.just("truncate"), st.integers(0, 10 ** 6)),
        st.tuples(st.just("flip"), st.integers(0, 10 ** 6), st.integers(0, 255)),
        st.tuples(st.just("insert"), st.integers(0, 10 ** 6), st.binary(min_size=1, max_size=6)),
    ]
    if kind == "req":
        common += [st.tuples(st.just("target"), st.sampled_from(BAD_TARGETS)),
                   st.tuples(st.just("startline"), st.sampled_from(BAD_STARTS_REQ))]
    else:
        common += [st.tuples(st.just("startline"), st.sampled_from(BAD_STARTS_RESP)),
                   st.tuples(st.just("location"), st.sampled_from([301, 302, 303, 307, 300]),
                             st.sampled_from([None, "/other", "http://127.0.0.1:8080/y", "http://otherhost:81/z",
                                              "https://127.0.0.1:8080/s", "http://[::1/x", "http://h:99999/", "", "?q=1", "//x"]))]
    return st.one_of(*common).map(list)


def _bases(kind):
    if kind == "req":
        common = {"t": "req", "method": "POST", "target": "/p?q=1", "version": "HTTP/1.1", "headers": [["Host", "x"], ["X-A", "b"]],
                  "eol": "crlf", "conn": None}
    else:
        common = {"t": "resp", "version": "HTTP/1.1", "status": 200, "reason": "OK", "headers": [["X-A", "b"]], "eol": "crlf",
                  "conn": None, "pre100": False, "reqmethod": "GET"}
    chunked = dict(common, frame="chunked", body=b"hello world", sizes=[5], exts=[], trailers=[], hexupper=False, lz=0)
    plain = dict(common, frame="len", body=b"hello")
    return chunked, plain


def enumerate_cases(tier, shard, nshards):
    """Every listed near-valid value at its structural position, for every service loop (complete for these lists)."""
    def cells():
        k = 0
        for target in ("wsgi", "bare", "client", "client-tls"):
            kind = "resp" if target.startswith("client") else "req"
            chunked, plain = _bases(kind)
            muts = [(chunked, ["chunksize", v]) for v in BAD_SIZES]
            muts += [(plain, ["cl", v]) for v in BAD_CL + ["\xb9\xb9", "2\xb2"]]
            if kind == "req":
                muts += [(plain, ["target", v]) for v in BAD_TARGETS]
                muts += [(plain, ["startline", v]) for v in BAD_STARTS_REQ]
            else:
                muts += [(plain, ["startline", v]) for v in BAD_STARTS_RESP]
            for base in (chunked, plain):
                for line in range(4):
                    for pos in (0, 2, 9):
                        for byte in (0x80, 0xe9, 0xff, 0x00):
                            for repl in (False, True):
                                muts.append((base, ["hiline", line, pos, byte, repl]))
            for base, m in muts:
                for cuts in ({"mode": "random", "points": []}, {"mode": "every", "k": 1}):
                    if k % nshards == shard:
                        yield {"target": target, "base": base, "muts": [m], "raw": b"", "cuts": cuts, "sib_at": k % 4,
                               "close_a": bool(k % 2), "dictable": bool((k // 2) % 2)}
                    k += 1
    return [("listed near-valid values x position x service loop", cells(), True)]


def case_strategy(target):
    kind = "resp" if target.startswith("client") else "req"
    base = httpgen.request_spec(max_body=60) if kind == "req" else httpgen.response_spec(max_body=60)
    mutated = st.fixed_dictionaries({"target": st.just(target), "base": base,
                                     "muts": st.lists(mutation(kind), min_size=1, max_size=3), "raw": st.just(b""),
                                     "cuts": httpgen.cuts(), "sib_at": st.integers(0, 5), "close_a": st.booleans(),
                                     "dictable": st.booleans()})
    raw = st.fixed_dictionaries({"target": st.just(target), "base": st.none(), "muts": st.just([]),
                                 "raw": st.one_of(st.binary(max_size=200),
                                                  st.text(alphabet="GETPOSHTP/1.0 :\r\n;=abc%[]?#5x-_", max_size=120)
                                                  .map(lambda t: t.encode("latin-1"))),
                                 "cuts": httpgen.cuts(), "sib_at": st.integers(0, 5), "close_a": st.booleans(),
                                 "dictable": st.booleans()})
    valid = st.fixed_dictionaries({"target": st.just(target), "base": base, "muts": st.just([]), "raw": st.just(b""),
                                   "cuts": httpgen.cuts(), "sib_at": st.integers(0, 5), "close_a": st.booleans(),
                                   "dictable": st.booleans()})
    return st.one_of(mutated, mutated, mutated, raw, valid)


def searches(tier):
    q = tier == "quick"
    n = 500 if q else 8000
    return [("wsgi-server", case_strategy("wsgi"), n), ("bare-server", case_strategy("bare"), n),
            ("client", case_strategy("client"), n), ("client-tls", case_strategy("client-tls"), n // 2)]

"""C21 Memo transmission loses no gram under transport backpressure.

A Memoer subclass whose send() follows a generated script of acceptance counts
(0 .. len, i.e. would-block, partial, complete) and "destination unreachable"
errors; memos / raw grams for 1-3 destinations; service calls interleaved.

Oracle = a byte-exact model of the transmit tier, checked at every send() call:
the code must offer exactly the unsent remainder of the gram at the head of the
model queue, to that gram's destination; a gram leaves the queue only when all
its bytes were accepted or when send() raised an unreachable error.  After the
script a healthy transport (accepts everything) must drain everything within a
bounded number of service calls: nothing queued or half-sent may remain.
"""
import collections
import errno

from hypothesis import strategies as st

from hio.core.memo import memoing
from vlib.core import Result, assert_in_tree

assert_in_tree(memoing)

PID = "C21"
RULE = ("cases: transport (a Memoer subclass with a scripted send, or the real udp / uxd PeerMemoer on a scripted datagram socket "
        "whose sendto raises EAGAIN / EWOULDBLOCK / ENOBUFS / ENOMEM for would-block) x 1-5 queue operations (memo of 1-400 code points through memoit/rend with a small gram size, or a raw gram "
        "through gramit) to 1-3 destinations, interleaved with service calls (serviceTxGramsOnce, serviceTxGrams, "
        "serviceAllTxOnce, serviceAllTx, serviceAll), and a script of per-send-call outcomes: accept k bytes (k = 0 .. len) or "
        "raise a destination-unreachable errno; non-trivial = the script produced a zero-byte accept on a fresh gram and a "
        "partial accept (0 < k < len) on some gram; distinct = canonical hash of the case")
ASSUMPTIONS = [
    "unreachable = the errno values the transmit tier documents as 'far peer problem' (ECONNREFUSED, ENOENT, ECONNRESET, "
    "ENETRESET, ENETUNREACH, EHOSTUNREACH, ENETDOWN, EHOSTDOWN, ETIMEDOUT, ETIME); other socket errors are documented as "
    "unexpected and are not generated",
    "'eventually' is bounded: after the script is exhausted the transport accepts everything and 4 x (queued grams + 2) "
    "service calls of one generated kind (greedy or one-step) must leave nothing queued or half-sent",
]

UNREACHABLE = ["ECONNREFUSED", "ENOENT", "ECONNRESET", "ENETRESET", "ENETUNREACH", "EHOSTUNREACH", "ENETDOWN", "EHOSTDOWN",
               "ETIMEDOUT", "ETIME"]
DSTS = ["dstA", "dstB", "dstC"]


class LogDeque(collections.deque):
    """deque that records everything appended (the queued grams, in queue order)."""

    def __init__(self, log):
        super().__init__()
        self.log = log

    def append(self, x):
        self.log.append((bytes(x[0]), x[1]))
        super().append(x)


class Model:
    """Byte-exact model of the transmit tier; offer() is called for every attempt to hand bytes to the transport."""

    def __init__(self, script, r):
        self.queued = []              # (gram bytes, dst) in queue order
        self.script = list(script)
        self.r = r
        self.head = 0                 # index into queued of the gram the model expects to be in transmission
        self.remaining = None         # unsent bytes of that gram (None = not started)
        self.sent = []
        self.dropped = []
        self.calls = 0
        self.zero_fresh = False
        self.partial = False
        self.broken = False

    def offer(self, gram, dst):
        """Returns the outcome token for this send call: ["n", k] accept k bytes, ["err", errno-name], after checking
        that exactly the expected bytes are offered to the expected destination."""
        self.calls += 1
        if self.broken:
            return ["n", len(gram)]
        if self.head >= len(self.queued):
            self.r.fail("C21/send-with-nothing-queued", "send(%r..., %r) called although every queued gram was already sent "
                        "or dropped (duplicate transmission)" % (bytes(gram[:24]), dst))
            self.broken = True
            return ["n", len(gram)]
        egram, edst = self.queued[self.head]
        fresh = self.remaining is None
        rem = egram if fresh else self.remaining
        if bytes(gram) != rem or dst != edst:
            what = "a fresh gram was due" if fresh else "the remainder of a partly sent gram was due"
            self.r.fail("C21/wrong-send(%s)" % what,
                        "send call %d offered %d bytes to %r, the model expects the %s %d bytes of queued gram #%d to %r" % (
                            self.calls, len(gram), dst, "whole" if fresh else "remaining", len(rem), self.head, edst))
            self.broken = True
            return ["n", len(gram)]
        tok = self.script.pop(0) if self.script else ["all"]
        if tok[0] == "err":
            self.dropped.append(self.head)
            self.head += 1
            self.remaining = None
            return tok
        k = len(gram) if tok[0] == "all" else min(int(tok[1]), len(gram))
        if k == 0 and fresh:
            self.zero_fresh = True
        if 0 < k < len(gram):
            self.partial = True
        rem = rem[k:]
        if rem:
            self.remaining = rem
        else:
            self.sent.append(self.head)
            self.head += 1
            self.remaining = None
        return ["n", k]


class ScriptMemoer(memoing.Memoer):
    """Memoer whose transport is the model itself."""

    def __init__(self, model, **kwa):
        self.model = model
        super().__init__(txgs=LogDeque(model.queued), **kwa)
        self.opened = True

    def send(self, gram, dst, *, echoic=False):
        tok = self.model.offer(gram, dst)
        if tok[0] == "err":
            raise OSError(getattr(errno, tok[1]), "scripted " + tok[1])
        return tok[1]


class FakeDgramSocket:
    """What udp.Peer.send touches: sendto() follows the model; would-block is signalled the way the kernel does."""

    def __init__(self, model):
        self.model = model
        self.n = 0

    def recvfrom(self, bs):
        raise OSError(errno.EAGAIN, "nothing to receive")

    def sendto(self, data, dst):
        tok = self.model.offer(data, dst)
        if tok[0] == "err":
            raise OSError(getattr(errno, tok[1]), "scripted " + tok[1])
        if tok[1] == 0 and len(data):
            self.n += 1
            code = (errno.EAGAIN, errno.ENOBUFS, errno.EWOULDBLOCK, errno.ENOMEM)[self.n % 4]
            raise OSError(code, "scripted would-block")
        return tok[1]


def make_udp(model, size):
    """The real udp PeerMemoer (Peer.send code path: 0 on EAGAIN / ENOBUFS) on a scripted datagram socket."""
    from hio.core.udp import peermemoing
    m = peermemoing.PeerMemoer(name="c21", ha=("127.0.0.1", 0), size=size, txgs=LogDeque(model.queued))
    m.ls = FakeDgramSocket(model)
    m.opened = True
    return m


def make_uxd(model, size):
    """The real uxd PeerMemoer (unix datagram Peer.send code path) on a scripted datagram socket.  The peer is never
    opened, so no socket file or directory is created."""
    from hio.core.uxd import peermemoing
    m = peermemoing.PeerMemoer(name="c21", reopen=False, temp=True, size=size, txgs=LogDeque(model.queued))
    m.ls = FakeDgramSocket(model)
    m.opened = True
    return m


def run_case(case):
    r = Result()
    model = Model(case["script"], r)
    udp = case.get("transport") in ("udp", "uxd")
    if case.get("transport") == "uxd":
        m = make_uxd(model, case["size"])
        dsts = ["/tmp/hio/uxd/a.uxd", "/tmp/hio/uxd/b.uxd", "/tmp/hio/uxd/c.uxd"]
    elif udp:
        m = make_udp(model, case["size"])
        dsts = [("127.0.0.1", 7001), ("127.0.0.1", 7002), ("10.0.0.9", 7003)]
    else:
        m = ScriptMemoer(model, size=case["size"], code=memoing.MemoDex.GramZero, curt=False)
        dsts = DSTS
    for op in case["ops"]:
        k = op[0]
        if r.failures:
            break
        if k == "memo":
            m.memoit(op[1], dsts[op[2]])
        elif k == "gram":
            m.gramit(op[1], dsts[op[2]])
        elif k == "svc":
            getattr(m, op[1])()
        else:
            raise ValueError(k)
    if not r.failures:
        # healthy transport from here on
        model.script = []
        m.serviceTxMemos()
        bound = 4 * (len(model.queued) + 2)
        drain = case.get("drain") or "serviceAllTx"      # the greedy and the one-step service paths must both drain
        for _ in range(bound):
            getattr(m, drain)()
        # judged from what the transport was offered (the model), not from the memoer's internal buffers: every queued gram
        # must have been fully sent or dropped as unreachable
        try:
            ntxgs, txbs0, txbs1 = len(m.txgs), len(m.txbs[0]), m.txbs[1]
        except Exception:      # noqa: BLE001 - internal representation is the implementation's business
            ntxgs, txbs0, txbs1 = -1, -1, "?"
        if not r.failures and (model.head < len(model.queued) or model.remaining is not None):
            if model.remaining is not None and model.head == len(model.queued) - 1:
                sig = "C21/not-drained(remainder of the last gram never offered again)"
            elif model.remaining is not None:
                sig = "C21/not-drained(remainder stuck)"
            else:
                sig = "C21/not-drained"
            r.fail(sig, "after %d greedy service calls on a healthy transport: %d of %d queued grams done, model remainder %r, "
                   "txgs=%d txbs=(%d bytes, %r)" % (bound, model.head, len(model.queued),
                                                   None if model.remaining is None else len(model.remaining), ntxgs,
                                                   txbs0, txbs1))
    r.nontrivial = model.zero_fresh and model.partial
    r.labels.append("transport:%s-peer" % case["transport"] if udp else "transport:scripted-memoer")
    if model.zero_fresh:
        r.labels.append("zero-on-fresh-gram")
    if model.partial:
        r.labels.append("partial-accept")
    if model.dropped:
        r.labels.append("unreachable-drop")
    if len(model.queued) >= 3:
        r.labels.append(">=3 grams")
    if len({d for _g, d in model.queued}) >= 2:
        r.labels.append(">=2 destinations")
    return r


def _strategy():
    text = st.one_of(st.text(st.characters(exclude_categories=("Cs",)), min_size=1, max_size=60),
                     st.text("abé\U0001f600", min_size=1, max_size=400))
    gram = st.one_of(st.binary(min_size=24, max_size=90), st.binary(min_size=1, max_size=8))
    svc = st.sampled_from(["serviceTxGramsOnce", "serviceTxGrams", "serviceAllTxOnce", "serviceAllTx", "serviceAll",
                           "serviceTxMemos", "serviceTxMemosOnce", "serviceTxGramsOnce", "serviceAllTxOnce"])
    item = st.one_of(st.tuples(st.just("memo"), text, st.integers(0, 2)),
                     st.tuples(st.just("gram"), gram, st.integers(0, 2))).map(list)
    sv = st.tuples(st.just("svc"), svc).map(list)
    ops = st.tuples(st.lists(item, min_size=1, max_size=4),
                    st.lists(st.one_of(sv, sv, sv, sv, sv, item), min_size=4, max_size=24)).map(lambda t: t[0] + t[1])
    tok = st.one_of(st.just(("n", 0)), st.just(("n", 0)), st.just(("n", 0)),
                    st.tuples(st.just("n"), st.integers(1, 32)), st.tuples(st.just("n"), st.integers(1, 32)),
                    st.tuples(st.just("n"), st.integers(1, 32)), st.tuples(st.just("n"), st.integers(33, 300)),
                    st.just(("all",)), st.just(("all",)),
                    st.tuples(st.just("err"), st.sampled_from(UNREACHABLE))).map(list)
    return st.fixed_dictionaries({"drain": st.sampled_from(["serviceAllTx", "serviceAllTx", "serviceTxGramsOnce", "serviceAllTxOnce",
                                                            "serviceAllOnce", "serviceTxGrams", "serviceAll"]),
                                  "transport": st.sampled_from(["memoer", "memoer", "udp", "uxd"]), "size": st.sampled_from([33, 34, 40, 64, 100, 257, 65535]),
                                  "ops": ops,
                                  "script": st.one_of(
                                      st.lists(tok, max_size=30),
                                      st.tuples(st.lists(tok, max_size=3), st.just(["n", 0]),
                                                st.tuples(st.just("n"), st.integers(1, 12)).map(list),
                                                st.lists(tok, max_size=20)).map(lambda t: t[0] + [t[1], t[2]] + t[3]),
                                      st.tuples(st.tuples(st.just("n"), st.integers(1, 12)).map(list), st.just(["n", 0]),
                                                st.just(["n", 0]), st.lists(tok, max_size=20)).map(
                                                    lambda t: [t[0], t[1], t[2]] + t[3]))})


def searches(tier):
    return [("scripts", _strategy(), 3000 if tier == "quick" else 30000)]

"""C20 Memos survive segmentation into grams and any delivery order.

1-3 memos are rended by a sender (zero-gram code, header encoding, gram size from
the legal minimum upward, signer) and the union of their grams is delivered to a
receiver in a generated order with duplicates, with receive-side servicing at
generated points.  Exactly-once reconstruction oracle:

  * every memo all of whose grams were delivered is in the receiver's inbox
    exactly once, with equal text, the source address of its grams and the
    signer id (None when unsigned);
  * a memo from which one gram was withheld is never delivered;
  * nothing else is delivered.
"""
from hypothesis import strategies as st

from hio import hioing
from vlib import memogen
from vlib.core import Result
from vlib.memogen import AUTH_ZERO, ZERO_CODES

PID = "C20"
RULE = ("cases: 1-3 non-empty unicode memos (1-2000 code points, incl. astral planes) x zero-gram code (plain / auth / sure / "
        "sure-auth) x header encoding (base64 / base2) x gram size = legal minimum + 0..400 (or the maximum; at least minimum + 40 when the memos total more than 600 bytes) x signer x sender either constructed for that encoding or made for the other one and switched by assigning .curt (with or without assigning .size again, fresh or already used) x delivery "
        "order = generated index sequence over the union of all grams (duplicates allowed) completed by the undelivered grams x "
        "optionally one withheld gram x receive servicing every k deliveries; non-trivial = some memo has >= 3 grams, the "
        "delivery is out of order (a later gram of a memo before an earlier one) and contains a duplicate; distinct = canonical hash")
ASSUMPTIONS = [
    "delivery uses the documented test channel: grams are appended to the receiver's .echos and serviced with serviceAllRx()",
    "memo ids are made deterministic (hash of a counter) instead of uuid1; source addresses are per memo",
    "a sender whose rend() raises MemoerError for a legal size is a violation (the memo cannot be sent at all)",
    "the receiver knows the signers' keys (keep); unknown signers and tampering belong to C22",
]


def run_case(case):
    r = Result()
    memogen.reset_mids()
    code = ZERO_CODES[case["code"]]
    curt = case["curt"]
    auth = code in AUTH_ZERO
    base = memogen.min_size(code, curt)
    size = 65535 if case["extra"] is None else base + case["extra"]
    if sum(len(t.encode()) for t in case["memos"]) > 600:
        size = max(size, base + 40)        # keeps the number of grams (and signatures) per case in the hundreds
    sw = case.get("switched")
    if sw:
        # a reused sender: made for the other header encoding, then switched over by assigning .curt (and, optionally,
        # .size again); the gram size it then uses is whatever hio derives, the delivery oracle does not depend on it
        tx = memogen.sender(code, not curt, 0 if sw["size0"] == "min" else size, signer=case["signer"])
        if sw.get("used"):
            list(tx.rend("warm up", tx.vid if auth else None))
        tx.curt = curt
        if sw.get("resize") or (sw["size0"] == "min" and sum(len(t.encode()) for t in case["memos"]) > 300):
            tx.size = size          # (also bounds the number of minimum-size grams per case)
        r.labels.append("sender-switched-encoding")
    else:
        tx = memogen.sender(code, curt, size, signer=case["signer"])
    vid = tx.vid if auth else None
    memos = case["memos"]
    per = []          # per memo: list of gram bytes
    try:
        for text in memos:
            per.append([bytes(g) for g in tx.rend(text, vid)])
    except hioing.MemoerError as ex:
        r.fail("C20/rend-raised(%s)" % ("base2" if curt else "base64"), "size=%d (minimum %d) code=%s: %r" % (size, base, code, ex))
        return r
    allg = []         # (memo index, gram index, bytes)
    for mi, gs in enumerate(per):
        for gi, g in enumerate(gs):
            allg.append((mi, gi, g))
    if any(len(gs) == 0 for gs in per):
        r.fail("C20/rend-no-grams", "a non-empty memo produced no gram")
        return r
    n = len(allg)
    withheld = None
    if case["withhold"] is not None:
        withheld = case["withhold"] % n
    seq = [p % n for p in case["order"]]
    seen = set(seq)
    seq += [i for i in range(n) if i not in seen]
    if withheld is not None:
        seq = [i for i in seq if i != withheld]
    k = max(1, case["svc_every"])
    if case.get("tame"):
        # class that avoids the two open findings by construction: every memo's zeroth gram arrives before its
        # other grams, and the receive side is serviced only after the last delivery
        zero_of = {mi: idx for idx, (mi, gi, _g) in enumerate(allg) if gi == 0}
        out, emitted = [], set()
        for i in seq:
            z = zero_of[allg[i][0]]
            if z not in emitted and z != withheld and z != i:
                out.append(z)
                emitted.add(z)
            out.append(i)
            emitted.add(i)
        seq = out
        k = 10 ** 9
    rx = memogen.receiver(authic=auth and case["authic"])
    raised = None
    try:
        for j, i in enumerate(seq):
            mi, gi, g = allg[i]
            rx.echos.append((g, "src%d" % mi))
            if (j + 1) % k == 0:
                rx.serviceAllRx()
        rx.serviceAllRx()
        rx.serviceAllRx()
    except Exception as ex:      # noqa: BLE001
        raised = ex
    if raised is not None:
        from vlib.core import exc_sig
        r.fail(exc_sig(raised, "C20/receive-raised"), repr(raised))
        return r
    got = list(rx.inbox)
    expect = []
    for mi, text in enumerate(memos):
        if withheld is not None and allg[withheld][0] == mi:
            continue
        expect.append((text, "src%d" % mi, vid))
    cls = "(%s)" % ("signed" if auth else "unsigned")
    serviced_between = k < len(seq)
    first_pos = {}
    for j, i in enumerate(seq):
        first_pos.setdefault(i, j)
    # out of order: some gram of a memo arrives before a lower numbered gram of the same memo
    ooo = False
    zeroth_late = set()
    for (mi, gi, _g), idx in zip(allg, range(n)):
        if idx not in first_pos:
            continue
        for idx2 in range(n):
            if allg[idx2][0] == mi and allg[idx2][1] < gi and idx2 in first_pos and first_pos[idx2] > first_pos[idx]:
                ooo = True
                if allg[idx2][1] == 0:
                    zeroth_late.add(mi)
    dup = len(seq) != len(set(seq))
    for e in expect:
        c = got.count(e)
        if c == 0:
            texts = [g for g in got if g[1] == e[1]]
            if texts:
                r.fail("C20/memo-altered" + cls, "memo from %s delivered as %r, sent %r" % (e[1], texts[0], e))
            else:
                r.fail("C20/memo-not-delivered%s%s" % (cls, "(a gram arrived before the zeroth gram)" if int(e[1][3:]) in zeroth_late else ""),
                       "complete memo from %s (%d grams) missing; inbox has %d memos; order=%r" % (
                           e[1], len(per[int(e[1][3:])]), len(got), seq[:30]))
        elif c > 1:
            r.fail("C20/memo-delivered-twice(%s)" % ("a duplicate arrived after the complete memo had been fused"
                                                     if serviced_between else "no servicing between the duplicates"),
                   "memo from %s delivered %d times; order=%r service every %d" % (e[1], c, seq[:30], k))
    for g in got:
        if g not in expect:
            if withheld is not None and g[1] == "src%d" % allg[withheld][0]:
                r.fail("C20/incomplete-memo-delivered" + cls, "memo with a withheld gram was delivered: %r" % (g,))
            elif not any(g[1] == e[1] for e in expect):
                r.fail("C20/unexpected-memo" + cls, repr(g)[:300])
    many = any(len(gs) >= 3 for gs in per)
    r.nontrivial = many and ooo and dup
    r.labels.append("code:%s%s" % (code, "/b2" if curt else "/b64"))
    if ooo:
        r.labels.append("out-of-order")
    if zeroth_late:
        r.labels.append("zeroth-late")
    if dup:
        r.labels.append("duplicates")
    if withheld is not None:
        r.labels.append("withheld-gram")
    if many:
        r.labels.append(">=3 grams")
    if len(memos) > 1:
        r.labels.append("interleaved-memos")
    return r


def _strategy(tame=False):
    ch = st.characters(exclude_categories=("Cs",))
    text = st.one_of(st.text(ch, min_size=1, max_size=40), st.text(ch, min_size=20, max_size=400),
                     st.text("aé€\U0001f600\n\x00", min_size=1, max_size=2000),
                     st.text("aé€\U0001f600\n\x00", min_size=40, max_size=300),
                     # long memos built by repetition (cheap to generate and to shrink)
                     st.tuples(st.text(ch, min_size=1, max_size=12), st.integers(20, 400)).map(lambda t: (t[0] * t[1])[:2000]))
    return st.fixed_dictionaries({
        "code": st.integers(0, 3),
        "curt": st.booleans(),
        "tame": st.just(tame),
        "extra": st.one_of(st.integers(0, 12), st.integers(0, 12), st.integers(0, 60), st.integers(0, 400), st.none()),
        "switched": st.sampled_from([None, None, None, {"size0": "min"}, {"size0": "min", "used": True},
                                     {"size0": "same", "resize": True}, {"size0": "same"}]),
        "signer": st.sampled_from([0, 1, 2, 4]),       # 4: transferable signer whose current key differs from the one in its vid
        "authic": st.booleans(),
        "memos": st.lists(text, min_size=1, max_size=3),
        "order": st.one_of(st.lists(st.integers(0, 200), max_size=40), st.lists(st.integers(0, 200), min_size=5, max_size=60)),
        "withhold": st.one_of(st.none(), st.none(), st.integers(0, 200)),
        "svc_every": st.sampled_from([1, 1, 2, 3, 7, 1000]),
    })


def searches(tier):
    q = tier == "quick"
    return [("deliveries", _strategy(), 1500 if q else 12000),
            ("zeroth-first-serviced-at-end", _strategy(tame=True), 900 if q else 8000)]

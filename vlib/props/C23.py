"""C23 Durable queues (Durq) and sets (Dusq) behave as FIFO models and survive reopen.

History = list of operations on a Durq / Dusq held in a Hold whose Subery (LMDB) lives in
a sandbox directory.  Model: a list (Durq: deque semantics, duplicates kept; Dusq: insertion
ordered set where "already a member" is Python equality, as in any Python set: Bag(value=1), Bag(value=1.0) and
Bag(value=True) are one member, the first one offered stays).  The value domain holds such equal but differently
serialised twins next to the plain values.  Values are compared with == everywhere (which of two equal objects is kept
is not judged).  extend / update are now and then handed their values as a one-shot iterator (they are documented to
take a NonStringIterable).  After every operation
  * list(q) equals the model;
  * the durable copy sdb.get(key) holds the same values in the same order;
  * the return value equals the documented one;
  * a sibling queue at another key of the same sub database is unchanged.
'reopen' closes the store, opens it again on the same directory and injects a fresh queue
object at the same key (Hold.inject -> sync); 'snapshot' copies the live LMDB directory
(a crash image) and opens the copy: both must give exactly the model content.
"""
import os
import shutil

from hypothesis import strategies as st

from hio import hioing
from hio.base import during
from hio.base.hier import bagging, durqing, dusqing, holding
from vlib import fsbox
from vlib.core import WORK, Result, assert_in_tree, exc_sig

assert_in_tree(during, durqing, dusqing, holding)

PID = "C23"
RULE = ("cases: Durq or Dusq, optionally constructed with values (duplicates included) before it is attached to the store, optional further values after attaching, <= 30 operations from push / pull / pull(emptive=False) / extend or "
        "update (argument a list, one time in four a one-shot iterator over the same values) / remove (Dusq) / clear / count / push(None) / "
        "sync(force=True) over a 5 value domain of registered data objects (mutable and frozen, duplicates frequent) plus 4 twins "
        "that are equal in Python to one of them but serialise differently (1 / 1.0 / True, 0 / False, 3 / 3.0; one value draw in three), with 'reopen' (close store, reopen same directory, fresh object injected and synced) "
        "and 'snapshot' (copy of the live LMDB directory opened and compared) between any two operations; non-trivial = a "
        "reopen or snapshot happens after a pull that followed a duplicate push; distinct = canonical hash")
ASSUMPTIONS = [
    "values are registered RegDom / IceRegDom instances (Bag, IceBag), the only kind the queues accept",
    "the store is a persistent (temp=False) Subery in a per-process sandbox under /verif/.work, filesystem calls guarded by vlib/fsbox",
    "membership in a Dusq is Python equality of the data objects (== / hash, what its in-memory ordered set uses); all comparisons with the model use ==, which of two equal objects is retained is not judged",
    "a one-shot iterator is a legitimate argument of extend / update (annotated and documented NonStringIterable, which the constructors test with isinstance)",
    "a 'snapshot' is a plain file copy of data.mdb / lock.mdb taken between operations (every operation commits its own LMDB transaction)",
]

TOP = os.path.join(WORK, "C23.%d" % os.getpid())
BOX = fsbox.install(os.path.join(TOP, "box"))
KEY = "queue"
OTHER = "zother"


# 5..8: objects that are EQUAL in Python (== and hash) to one of 0..3 but are written differently to the store
# (1 / 1.0 / True, 0 / False, 3 / 3.0): for the set they are duplicates of that member, for the queue one more entry
TWINS = {5: ("bag", 1.0), 6: ("bag", True), 7: ("ice", 3.0), 8: ("bag", False)}


def val(i):
    """0..4 -> data object (0-2 mutable Bag, 3-4 frozen IceBag); 5..8 -> equal twin of 1, 1, 3, 0 (see TWINS)"""
    if i in TWINS:
        k, x = TWINS[i]
        return bagging.Bag(value=x) if k == "bag" else bagging.IceBag(value=x)
    return bagging.Bag(value=i) if i < 3 else bagging.IceBag(value=i)


def _twin_of_member(v, model):
    """v is equal to a member of model that is a different object kind-wise (other type of .value)"""
    return any(m == v and type(m.value) is not type(v.value) for m in model)


class Rig:
    def __init__(self, kind, pre=None):
        self.kind = kind
        shutil.rmtree(BOX, ignore_errors=True)
        os.makedirs(BOX)
        self.n = 0
        self.open(fresh=True, pre=pre)

    def open(self, fresh=False, head=None, pre=None):
        self.subery = during.Subery(name="store", headDirPath=head or BOX, temp=False, reopen=True, reuse=True)
        self.hold = holding.Hold(_hold_subery=self.subery)
        klas = durqing.Durq if self.kind == "durq" else dusqing.Dusq
        # pre: values the queue already holds (constructor preload) BEFORE it is attached to the store: attaching it
        # to an empty key must write exactly that content (sync -> pin)
        self.q = klas(pre) if pre else klas()
        self.hold[KEY] = self.q            # inject -> sync with the durable copy
        self.sib = durqing.Durq() if self.kind == "durq" else dusqing.Dusq()
        self.hold[OTHER] = self.sib
        if fresh:
            self.sib.push(val(4))

    def sdb(self):
        return self.subery.drqs if self.kind == "durq" else self.subery.dsqs

    def durable(self, key=KEY):
        return list(self.sdb().get(key))

    def close(self):
        try:
            self.subery.close()
        except Exception:      # noqa: BLE001
            pass


def run_case(case):
    r = Result()
    kind = case["kind"]
    dusq = kind == "dusq"
    model = []
    pre = None
    if case.get("preload"):
        pre = [val(i) for i in case["preload"]]
        for v in pre:
            if not dusq or v not in model:
                model.append(v)
    rig = Rig(kind, pre=pre)
    dup_pushed = False
    twin_offered = False       # a value equal to a present member but serialised differently was offered
    oneshot = False            # extend / update was handed a one-shot iterator instead of a list
    pulled_after_dup = False
    reopen_after = False

    def same(tag):
        got = list(rig.q)
        if got != model:
            r.fail("C23/%s-cache-differs-from-model(%s)" % (kind, tag), "list(q)=%r model=%r" % (got, model))
            return False
        dur = rig.durable()
        if dur != model:
            r.fail("C23/%s-durable-differs-from-model(%s)" % (kind, tag), "sdb.get=%r model=%r" % (dur, model))
            return False
        sib = rig.durable(OTHER)
        if sib != [val(4)] or list(rig.sib) != [val(4)]:
            r.fail("C23/%s-sibling-key-changed" % kind, "sibling durable=%r cache=%r" % (sib, list(rig.sib)))
            return False
        return True

    try:
        if pre:
            same("attach-preloaded")
        if case["init"] and not r.failures:
            vs = [val(i) for i in case["init"]]
            if dusq:
                rig.q.update(vs)
                for v in vs:
                    if v not in model:
                        model.append(v)
            else:
                rig.q.extend(vs)
                model.extend(vs)
        same("init")
        for n, op in enumerate(case["ops"]):
            if r.failures:
                break
            k = op[0]
            tag = k
            exp = got = None
            if k == "push":
                v = val(op[1])
                if v in model:
                    dup_pushed = True
                    twin_offered = twin_offered or _twin_of_member(v, model)
                if not dusq or v not in model:
                    model.append(v)
                exp, got = True, rig.q.push(v)
            elif k == "push_none":
                exp, got = False, rig.q.push(None)
            elif k in ("pull", "pull_ne"):
                if model:
                    exp = model.pop(0)
                    got = rig.q.pull(emptive=(k == "pull"))
                    if dup_pushed:
                        pulled_after_dup = True
                elif k == "pull":
                    exp, got = None, rig.q.pull()
                else:
                    exp = "IndexError"
                    try:
                        got = rig.q.pull(emptive=False)
                    except IndexError:
                        got = "IndexError"
            elif k == "many":
                vs = [val(i) for i in op[1]]
                arg = vs
                if len(op) > 2 and op[2] == "iter":
                    # the same values handed over as a one-shot iterator (what `q.extend(x for x in ...)` passes):
                    # extend / update are documented to take a NonStringIterable, which an iterator is
                    arg = iter(vs)
                    oneshot = True
                    tag = "many-iter"
                if dusq:
                    before = len(model)
                    for v in vs:
                        if v in model:
                            dup_pushed = True
                            twin_offered = twin_offered or _twin_of_member(v, model)
                        else:
                            model.append(v)
                    exp, got = len(model) > before, rig.q.update(arg)
                else:
                    if any(v in model for v in vs) or any(v in vs[:j] for j, v in enumerate(vs)):
                        dup_pushed = True
                    twin_offered = twin_offered or any(_twin_of_member(v, model + vs[:j]) for j, v in enumerate(vs))
                    model.extend(vs)
                    exp, got = bool(vs), rig.q.extend(arg)
            elif k == "remove":
                if not dusq:
                    continue
                v = val(op[1])
                exp = v in model
                if exp:
                    twin_offered = twin_offered or _twin_of_member(v, model)
                    model.remove(v)        # the member equal to v, as list.remove / set.remove do
                got = rig.q.remove(v)
            elif k == "clear":
                exp = bool(model)
                del model[:]
                got = rig.q.clear()
            elif k == "count":
                if dusq:
                    continue
                exp, got = model.count(val(op[1])), rig.q.count(val(op[1]))
            elif k == "resync":
                exp, got = (True if model else None), rig.q.sync(force=True)
                if not model:
                    exp = got      # an empty queue is pinned instead; the return value is not documented for that case
            elif k == "reopen":
                rig.close()
                rig.open()
                if pulled_after_dup:
                    reopen_after = True
                tag = "after-reopen"
            elif k == "snapshot":
                snap = os.path.join(BOX, "snap%d" % n)
                src = rig.subery.path
                rel = os.path.relpath(src, BOX)
                shutil.copytree(src, os.path.join(snap, rel))
                live = rig
                rig2 = Rig.__new__(Rig)
                rig2.kind = kind
                rig2.open(head=snap)
                got_list, dur = list(rig2.q), rig2.durable()
                rig2.close()
                shutil.rmtree(snap, ignore_errors=True)
                rig = live
                if got_list != model or dur != model:
                    r.fail("C23/%s-snapshot-differs-from-model" % kind, "copy opened: list=%r durable=%r model=%r" % (
                        got_list, dur, model))
                    break
                if pulled_after_dup:
                    reopen_after = True
                continue
            else:
                raise ValueError(k)
            # return values: judged where the statement's model defines them - what pull() hands out (FIFO head, None /
            # IndexError when empty) and count(); what push / extend / update / remove / clear / sync return (True, False,
            # None ...) is not part of "behaves as a FIFO queue / ordered set" and is left to the implementation
            if k in ("pull", "pull_ne", "count") and got != exp:
                r.fail("C23/%s-return(%s)" % (kind, k), "step %d %r returned %r, documented %r (model before/after %r)" % (
                    n, op, got, exp, model))
                break
            if not same(tag):
                break
    except (hioing.HierError, NameError, KeyError, TypeError, ValueError, AttributeError) as ex:
        r.fail(exc_sig(ex, "C23/%s-raised" % kind), "%r after model=%r" % (ex, model))
    finally:
        rig.close()
    r.nontrivial = reopen_after
    r.labels.append(kind)
    if pre:
        r.labels.append("preloaded-before-attach")
    if dup_pushed:
        r.labels.append("duplicate-pushed")
    if twin_offered:
        r.labels.append("equal-but-differently-serialised-value-offered")
    if oneshot:
        r.labels.append("one-shot-iterator-argument")
    if reopen_after:
        r.labels.append("reopen/snapshot-after-pull-after-dup")
    if any(op[0] == "reopen" for op in case["ops"]):
        r.labels.append("reopen")
    if any(op[0] == "snapshot" for op in case["ops"]):
        r.labels.append("snapshot")
    return r


def _values():
    """(plain, any): indices 0..3, and the same with the equal twins 5..8 mixed in (one draw in three)"""
    plain = st.integers(0, 3)
    return plain, st.one_of(plain, plain, st.sampled_from(sorted(TWINS)))


def _many(v):
    """extend / update with a list, now and then with the same values as a one-shot iterator"""
    vs = st.lists(v, max_size=4)
    return st.one_of(st.tuples(st.just("many"), vs), st.tuples(st.just("many"), vs), st.tuples(st.just("many"), vs),
                     st.tuples(st.just("many"), vs, st.just("iter")))


def _strategy(avoid_remove=False):
    plain, v = _values()
    ops = [st.tuples(st.just("push"), v), st.tuples(st.just("push"), v), st.tuples(st.just("push"), v),
           st.tuples(st.just("pull")), st.tuples(st.just("pull")), st.tuples(st.just("pull_ne")),
           _many(v), st.tuples(st.just("clear")),
           st.tuples(st.just("count"), v), st.tuples(st.just("push_none")),
           st.tuples(st.just("reopen")), st.tuples(st.just("reopen")), st.tuples(st.just("snapshot")),
           st.tuples(st.just("resync"))]
    if not avoid_remove:
        ops.append(st.tuples(st.just("remove"), v))
    op = st.one_of(*ops).map(list)
    hist = st.lists(op, min_size=1, max_size=30)
    # histories that start with a duplicate push and a pull and contain a reopen / snapshot later on
    seeded = st.tuples(v, st.lists(op, max_size=4), st.lists(op, max_size=6),
                       st.sampled_from([["reopen"], ["snapshot"]]), st.lists(op, max_size=14)).map(
        lambda t: [["push", t[0]]] + t[1] + [["push", t[0]], ["pull"]] + t[2] + [t[3]] + t[4])
    return st.fixed_dictionaries({"kind": st.sampled_from(["durq", "dusq"]),
                                  "init": st.one_of(st.none(), st.lists(plain, max_size=4)),
                                  "preload": st.one_of(st.none(), st.none(), st.lists(v, min_size=1, max_size=5)),
                                  "ops": st.one_of(hist, seeded, seeded)})


def _dusq_remove_strategy():
    """Dusq histories dense in pull / remove / push over a well filled set (value-indexed removal after FIFO pulls)."""
    _plain, v = _values()
    op = st.one_of(st.tuples(st.just("pull")), st.tuples(st.just("remove"), v), st.tuples(st.just("remove"), v),
                   st.tuples(st.just("push"), v), st.tuples(st.just("push"), v), _many(v),
                   st.tuples(st.just("reopen")), st.tuples(st.just("resync")), st.tuples(st.just("snapshot")),
                   st.tuples(st.just("clear"))).map(list)
    return st.fixed_dictionaries({"kind": st.just("dusq"),
                                  "init": st.permutations([0, 1, 2, 3]).map(list),
                                  "ops": st.lists(op, min_size=2, max_size=20)})


def searches(tier):
    q = tier == "quick"
    return [("histories", _strategy(), 400 if q else 2500),
            ("dusq-pull-remove", _dusq_remove_strategy(), 250 if q else 1500)]


def extra(ck):
    if TOP.startswith(WORK + os.sep):
        shutil.rmtree(TOP, ignore_errors=True)

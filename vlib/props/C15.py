"""C15 Server-sent events are delivered exactly regardless of line endings and splits.

A generated event stream (ids, event names, multi-line data, retry fields,
comments, unknown fields, lines without a colon; every line ends with CRLF, LF or
CR chosen per line; the stream ends with a blank line) is delivered in a generated
fragmentation through three transports:
   es       httping.EventSource fed directly
   close    clienting.Respondent, close-delimited text/event-stream response
   chunked  clienting.Respondent, chunked response whose chunking is unrelated to
            the line structure
Oracle: a reference interpreter (below, ~40 lines) tokenises the *complete* byte
stream with the documented ABNF (end-of-line = CRLF / CR / LF, greedy) and applies
the documented field rules in hio's own representation; the event list, the last
event id and the retry value must be equal.
"""
from hypothesis import strategies as st

from hio.core.http import clienting, httping
from vlib import httpgen
from vlib.core import Result, assert_in_tree

assert_in_tree(clienting, httping)

PID = "C15"
RULE = ("cases: event streams of 1-6 events built from field lines (data x 0-3, event, id, retry, comments, unknown fields, "
        "colon-less lines, values with leading blanks / colons / unicode), terminator per line from CRLF/LF/CR, delivered in a "
        "generated fragmentation, with 0-2 parse passes that bring no new bytes after each read, via EventSource, "
        "close-delimited Respondent and chunked Respondent. non-trivial = >= 2 "
        "terminator kinds, a multi-line data field, and a cut between a CR and the following byte; distinct = canonical hash")
ASSUMPTIONS = ["for a stream that ends inside a block, the last event id may be the one of the unfinished block (tracked at the id line) "
               "or still the one of the last dispatched block (tracked at dispatch): both are accepted",
               "retry values are either ASCII digit strings or clearly non-numeric (signs / underscores are not generated: "
               "the statement does not define them)", "no byte order mark (hio's parseEvents does not document one)"]

EOL = {"crlf": b"\r\n", "lf": b"\n", "cr": b"\r"}


def build_stream(lines):
    """lines: [[text, eolkind]...] -> bytes"""
    return b"".join(t.encode("utf-8") + EOL[e] for t, e in lines)


def reference(stream):
    """Documented interpretation of a complete SSE byte stream."""
    # tokenise: CRLF | CR | LF, greedy
    lines = []
    cur = bytearray()
    i = 0
    n = len(stream)
    while i < n:
        c = stream[i]
        if c == 0x0D:
            lines.append(bytes(cur))
            cur = bytearray()
            if i + 1 < n and stream[i + 1] == 0x0A:
                i += 1
        elif c == 0x0A:
            lines.append(bytes(cur))
            cur = bytearray()
        else:
            cur.append(c)
        i += 1
    events = []
    leid = None
    retry = None
    ename = ""
    parts = []
    reference.leid_at_dispatch = None
    for ln in lines:
        if not ln:
            data = "\n".join(parts) if parts else ""
            if data:
                events.append({"id": leid, "name": ename, "data": data})
            ename = ""
            parts = []
            reference.leid_at_dispatch = leid       # the id as of the last completed block
            continue
        field, sep, value = ln.partition(b":")
        if sep and not field:
            continue    # comment
        if value[:1] == b" ":
            value = value[1:]
        field = field.decode("utf-8")
        value = value.decode("utf-8")
        if field == "event":
            ename = value
        elif field == "data":
            parts.append(value)
        elif field == "id":
            leid = value
        elif field == "retry":
            if value.isascii() and value.isdigit():
                retry = int(value)
    return events, leid, retry


def run_es(stream, frags, idle=(0,)):
    es = httping.EventSource()
    for i, f in enumerate(frags):
        es.raw.extend(f)
        es.parse()
        for _ in range(idle[i % len(idle)]):        # service passes that bring no new bytes
            es.parse()
    return [dict(e) for e in es.events], es.leid, es.retry


def run_resp(stream, case, frags_of, idle=(0,)):
    if case["transport"] == "close":
        head = b"HTTP/1.1 200 OK\r\nContent-Type: text/event-stream\r\n\r\n"
        data = head + stream
    else:
        head = b"HTTP/1.1 200 OK\r\nContent-Type: text/event-stream\r\nTransfer-Encoding: chunked\r\n\r\n"
        body = bytearray()
        pos = 0
        sizes = [s for s in case.get("chunks", []) if s > 0] or [len(stream) or 1]
        k = 0
        while pos < len(stream):
            s = sizes[k % len(sizes)]
            k += 1
            part = stream[pos:pos + s]
            pos += s
            body += format(len(part), "x").encode() + b"\r\n" + part + b"\r\n"
        body += b"0\r\n\r\n"
        data = head + bytes(body)
    msg = bytearray()
    rsp = clienting.Respondent(msg=msg, method="GET")
    for i, f in enumerate(frags_of(data)):
        msg.extend(f)
        rsp.parse()
        for _ in range(idle[i % len(idle)]):
            rsp.parse()
    if case["transport"] == "close":
        rsp.close()
        rsp.parse()
    retry = rsp.retry if rsp.retry != clienting.Respondent.Retry else None
    return [dict(e) for e in rsp.events], rsp.leid, retry, rsp


def run_case(case):
    r = Result()
    stream = build_stream(case["lines"])
    exp = reference(stream)
    # The stream may end inside a block (a CR and the LF of the following blank line merge into one CRLF).  When the last
    # event id is "tracked" for such an unfinished block is open: at the id line (what hio does) or when the block is
    # dispatched (what the HTML standard does).  Both are accepted; they coincide whenever the stream ends with a blank line.
    alt = (exp[0], reference.leid_at_dispatch, exp[2])
    tr = case["transport"]
    frag = lambda data: httpgen.fragments(data, case["cuts"])
    idle = tuple(case.get("idle") or (0,))
    if tr == "es":
        frags = frag(stream)
        got = run_es(stream, frags, idle)
        whole = run_es(stream, [stream])
    else:
        e, l, rt, _rsp = run_resp(stream, case, frag, idle)
        got = (e, l, rt)
        e2, l2, rt2, _ = run_resp(stream, case, lambda d: [d])
        whole = (e2, l2, rt2)
        frags = frag(stream)
    # retry default for Respondent is mapped to None above; for a fair compare do the same on the reference
    kinds = {e for _t, e in case["lines"]}
    cr_cut = False
    pos = 0
    for f in frags[:-1]:
        pos += len(f)
        if stream[pos - 1:pos] == b"\r":
            cr_cut = True
    if got == alt and whole in (exp, alt):
        exp = alt
    if whole == alt:
        whole = exp
    if got != exp:
        what = _first_diff(got, exp)
        if whole == exp and cr_cut:
            sig = "C15/cr-at-end-of-read"
        elif whole == exp:
            sig = "C15/fragmentation-dependent"
        else:
            sig = "C15/wrong-events"
        r.fail(sig, "transport %s: %s" % (tr, what))
    multi = False
    run = 0
    for t, _e in case["lines"]:
        if t.startswith("data"):
            run += 1
            multi = multi or run >= 2
        elif t == "":
            run = 0
    r.nontrivial = len(kinds) >= 2 and multi and cr_cut
    r.labels.append("transport:" + tr)
    r.labels.append("eol-kinds=%d" % len(kinds))
    if cr_cut:
        r.labels.append("cut-after-CR")
    if any(idle):
        r.labels.append("idle-passes-between-reads")
    if multi:
        r.labels.append("multi-line-data")
    r.labels.append("events=%d" % min(len(exp[0]), 4))
    return r


def _first_diff(got, exp):
    ge, gl, gr = got
    ee, el, er = exp
    if ge != ee:
        for i in range(max(len(ge), len(ee))):
            a = ge[i] if i < len(ge) else None
            b = ee[i] if i < len(ee) else None
            if a != b:
                return "event %d: got %r expected %r (got %d events, expected %d)" % (i, a, b, len(ge), len(ee))
    if gl != el:
        return "last event id got %r expected %r" % (gl, el)
    return "retry got %r expected %r" % (gr, er)


VAL = st.text(alphabet=st.characters(min_codepoint=0x20, max_codepoint=0x2FF, blacklist_characters="\x7f"), max_size=12)
VAL2 = st.one_of(VAL, st.sampled_from(["", " x", "  two", "a:b", ":", "é✓", "{\"a\": 1}", "x ", "0"]))


@st.composite
def stream_lines(draw, eols=("crlf", "lf", "cr")):
    eol = st.sampled_from(list(eols))
    lines = []
    nev = draw(st.integers(1, 6))
    for _ in range(nev):
        nfields = draw(st.integers(0, 5))
        for _f in range(nfields):
            kind = draw(st.sampled_from(["data", "data", "data", "event", "id", "retry", "comment", "unknown", "nocolon"]))
            sp = draw(st.sampled_from([" ", " ", ""]))
            if kind == "data":
                t = "data:" + sp + draw(VAL2)
            elif kind == "event":
                t = "event:" + sp + draw(VAL2)
            elif kind == "id":
                t = "id:" + sp + draw(VAL2)
            elif kind == "retry":
                t = "retry:" + sp + draw(st.sampled_from(["0", "5", "3000", "007", "abc", "", "12a"]))
            elif kind == "comment":
                t = ":" + draw(VAL)
            elif kind == "unknown":
                t = draw(st.sampled_from(["foo", "Data", "datum", "x-y"])) + ":" + sp + draw(VAL)
            else:
                t = draw(st.sampled_from(["data", "event", "id", "retry", "bogus"]))
            lines.append([t, draw(eol)])
        lines.append(["", draw(eol)])
    return lines


def _case(eols=("crlf", "lf", "cr")):
    return st.fixed_dictionaries({
        "lines": stream_lines(eols), "transport": st.sampled_from(["es", "close", "chunked"]),
        "chunks": st.lists(st.integers(1, 23), max_size=5), "cuts": httpgen.cuts(),
        "idle": st.one_of(st.just([0]), st.lists(st.integers(0, 2), min_size=1, max_size=4))})


def searches(tier):
    q = tier == "quick"
    return [("mixed-terminators", _case(), 1500 if q else 20000),
            ("lf-crlf-only", _case(("crlf", "lf")), 600 if q else 8000)]

"""C15 Server-sent events are delivered exactly regardless of line endings and splits.

A generated event stream (ids, event names, multi-line data, retry fields,
comments, unknown fields, lines without a colon; every line ends with CRLF, LF or
CR chosen per line; the stream ends with a blank line) is delivered in a generated
fragmentation through these transports:
   es       httping.EventSource fed directly
   close    clienting.Respondent, close-delimited text/event-stream response
   chunked  clienting.Respondent, chunked response whose chunking is unrelated to
            the line structure
   length   clienting.Respondent, plain (not chunked) text/event-stream response that
            declares its Content-Length
   reconnect  the real http Client(reconnectable) on an in-memory connector
            (vlib/fakenet.FakeConnector, connect completes on a later attempt as a
            non-blocking connect does): a first stream, the server closes, the client
            stays cut off for `gap` service cycles before its retry timer expires,
            reconnects, asks again, and a second stream is delivered in its own
            fragmentation (both plain or both chunked).  The events of the first
            stream followed by those of the second must be yielded.
Oracle: a reference interpreter (below, ~40 lines) tokenises the *complete* byte
stream with the documented ABNF (end-of-line = CRLF / CR / LF, greedy) and applies
the documented field rules in hio's own representation (a block with at least one
data line dispatches an event, also when its data is the empty string; a block
without a data line dispatches nothing); the event list, the last event id and the
retry value must be equal.
"""
from hypothesis import strategies as st

from hio.base import tyming
from hio.core.http import clienting, httping
from vlib import fakenet, httpgen
from vlib.core import Result, assert_in_tree

assert_in_tree(clienting, httping)

PID = "C15"
RULE = ("cases: event streams of 1-6 events built from field lines (data x 0-3 incl. empty data lines, event, id, retry, comments, "
        "unknown fields, colon-less lines, values with leading blanks / colons / unicode), terminator per line from CRLF/LF/CR, "
        "delivered in a generated fragmentation, with 0-2 parse passes that bring no new bytes after each read, via EventSource, "
        "close-delimited Respondent, chunked Respondent and Content-Length Respondent; plus two such streams delivered to the real "
        "Client(reconnectable) before / after a server close with 0-5 cut-off service cycles before the retry timer expires, plain "
        "or chunked. non-trivial = >= 2 terminator kinds, a multi-line data field, and a cut between a CR and the following byte; "
        "for reconnect cases: the second stream was asked for and arrived in >= 2 reads; distinct = canonical hash")
ASSUMPTIONS = ["for a stream that ends inside a block, the last event id may be the one of the unfinished block (tracked at the id line) "
               "or still the one of the last dispatched block (tracked at dispatch): both are accepted",
               "retry values are either ASCII digit strings or clearly non-numeric (signs / underscores are not generated: "
               "the statement does not define them)", "no byte order mark (hio's parseEvents does not document one)",
               "a text/event-stream response with a Content-Length is a stream 'delivered plain'; only the events available after "
               "the whole body arrived are compared (when they are yielded is not judged)",
               "reconnect cases: connecting takes at least one more service cycle than the attempt (a non-blocking connect reports "
               "EINPROGRESS first; an instant connect is not generated); the second stream is only sent after the client asked again "
               "(a client that does not ask again is not judged); events of the second stream that precede its first id line may "
               "carry the last id of the first stream or none; the Last-Event-ID request header is not judged"]

EOL = {"crlf": b"\r\n", "lf": b"\n", "cr": b"\r"}


def build_stream(lines):
    """lines: [[text, eolkind]...] -> bytes"""
    return b"".join(t.encode("utf-8") + EOL[e] for t, e in lines)


def reference(stream, leid0=None, legacy=False):
    """Documented interpretation of a complete SSE byte stream -> (events, last event id, retry, last event id as of the
    last completed block).  leid0 = last event id known before the stream.  legacy=True: a block whose data is the empty
    string is not dispatched (only used to name a failure, never to accept one)."""
    # tokenise: CRLF | CR | LF, greedy
    lines = []
    cur = bytearray()
    i = 0
    n = len(stream)
    while i < n:
        c = stream[i]
        if c == 0x0D:
            lines.append(bytes(cur))
            cur = bytearray()
            if i + 1 < n and stream[i + 1] == 0x0A:
                i += 1
        elif c == 0x0A:
            lines.append(bytes(cur))
            cur = bytearray()
        else:
            cur.append(c)
        i += 1
    events = []
    leid = leid0
    at_dispatch = leid0
    retry = None
    ename = ""
    parts = []
    for ln in lines:
        if not ln:
            # a data line appends value + LF to the data buffer, the last LF is removed at dispatch: one empty data line is an
            # event with data "" ; no data line at all is no event
            if parts and (not legacy or "\n".join(parts)):
                events.append({"id": leid, "name": ename, "data": "\n".join(parts)})
            ename = ""
            parts = []
            at_dispatch = leid       # the id as of the last completed block
            continue
        field, sep, value = ln.partition(b":")
        if sep and not field:
            continue    # comment
        if value[:1] == b" ":
            value = value[1:]
        field = field.decode("utf-8")
        value = value.decode("utf-8")
        if field == "event":
            ename = value
        elif field == "data":
            parts.append(value)
        elif field == "id":
            leid = value
        elif field == "retry":
            if value.isascii() and value.isdigit():
                retry = int(value)
    return events, leid, retry, at_dispatch


def outcomes(stream, legacy=False):
    """Acceptable (events, last event id, retry) for one stream.  The stream may end inside a block (a CR and the LF of the
    following blank line merge into one CRLF).  When the last event id is "tracked" for such an unfinished block is open: at
    the id line (what hio does) or when the block is dispatched (what the HTML standard does).  Both are accepted; they
    coincide whenever the stream ends with a blank line."""
    ev, leid, retry, atd = reference(stream, None, legacy)
    return [(ev, leid, retry), (ev, atd, retry)]


def resumed_outcomes(s1, s2, legacy=False):
    """Acceptable outcomes for stream s1, a reconnect, then stream s2."""
    acc = []
    ev1, l1, rt1, a1 = reference(s1, None, legacy)
    for last1 in (l1, a1):
        for start in (None, last1):       # events before the first id line of s2: no id, or the id carried over
            ev2, l2, rt2, a2 = reference(s2, start, legacy)
            for lz in (l2, a2):
                acc.append((ev1 + ev2, lz if lz is not None else last1, rt2 if rt2 is not None else rt1))
    return acc


def run_es(stream, frags, idle=(0,)):
    es = httping.EventSource()
    for i, f in enumerate(frags):
        es.raw.extend(f)
        es.parse()
        for _ in range(idle[i % len(idle)]):        # service passes that bring no new bytes
            es.parse()
    return [dict(e) for e in es.events], es.leid, es.retry


def wire(stream, tr, chunks=None):
    """The response bytes that carry the stream over transport tr."""
    if tr == "close":
        return b"HTTP/1.1 200 OK\r\nContent-Type: text/event-stream\r\n\r\n" + stream
    if tr == "length":
        return b"HTTP/1.1 200 OK\r\nContent-Type: text/event-stream\r\nContent-Length: %d\r\n\r\n" % len(stream) + stream
    head = b"HTTP/1.1 200 OK\r\nContent-Type: text/event-stream\r\nTransfer-Encoding: chunked\r\n\r\n"
    body = bytearray()
    pos = 0
    sizes = [s for s in (chunks or []) if s > 0] or [len(stream) or 1]
    k = 0
    while pos < len(stream):
        s = sizes[k % len(sizes)]
        k += 1
        part = stream[pos:pos + s]
        pos += s
        body += format(len(part), "x").encode() + b"\r\n" + part + b"\r\n"
    body += b"0\r\n\r\n"
    return head + bytes(body)


def run_resp(stream, tr, chunks, frags_of, idle=(0,)):
    data = wire(stream, tr, chunks)
    msg = bytearray()
    rsp = clienting.Respondent(msg=msg, method="GET")
    for i, f in enumerate(frags_of(data)):
        msg.extend(f)
        rsp.parse()
        for _ in range(idle[i % len(idle)]):
            rsp.parse()
    if tr == "close":
        rsp.close()
        rsp.parse()
    retry = rsp.retry if rsp.retry != clienting.Respondent.Retry else None
    return [dict(e) for e in rsp.events], rsp.leid, retry


# ------------------------------------------------------------------ a stream resumed after a reconnect

AUTH = ("127.0.0.1", 8080)


class _Connector(fakenet.FakeConnector):
    """In-memory connector whose connect succeeds on the (delay+1)-th attempt after each (re)open, the way a non-blocking
    connect first reports EINPROGRESS."""

    def __init__(self, delay=1, **kwa):
        self.delay = self._wait = max(1, int(delay))
        super().__init__(**kwa)

    def open(self):
        self._wait = self.delay
        return super().open()

    def accept(self):
        if (self.cs is None or getattr(self.cs, "closed", False)) and self._wait > 0:
            self._wait -= 1
            return False
        return super().accept()


def run_reconnect(case):
    """-> ((events, leid, retry), status, reads of the second stream)"""
    s1 = build_stream(case["lines"])
    s2 = build_stream(case["lines2"])
    framing = case.get("framing", "close")
    idle = tuple(case.get("idle") or (0,))
    delay = case.get("delay", 1)
    tymist = tyming.Tymist(tyme=0.0, tock=2.0 ** -14)      # service cycles are 61 us apart: the 1 s timer below never
    socks = []                                             # runs out while a stream is being delivered

    def make():
        a, b = fakenet.pipe(a_addr=("127.0.0.1", 43000 + len(socks)), b_addr=AUTH)
        socks.append(b)
        return a

    fakenet.FakeConnector.registry = {AUTH: make}
    fakenet.FakeConnector.opened_to = []
    conn = _Connector(delay=delay, ha=AUTH, tymth=tymist.tymen(), tymeout=1.0, reconnectable=True, bs=65536)
    conn.reopen()
    client = clienting.Client(connector=conn, hostname=AUTH[0], port=AUTH[1])
    client.request(method="GET", path="/stream", headers={"Accept": "text/event-stream"})

    def cycle(n=1):
        for _ in range(n):
            client.service()
            tymist.tick()

    def asked(k):
        """Service until the k-th connection exists and a complete request head arrived on it."""
        seen = bytearray()
        for _ in range(12 + delay):
            cycle()
            if len(socks) > k:
                try:
                    seen.extend(socks[k].recv(65536))
                except OSError:
                    pass
                if b"\r\n\r\n" in seen:
                    return True
        return False

    status = "resumed"
    reads2 = 0
    for k, (stream, cuts) in enumerate(((s1, case["cuts"]), (s2, case.get("cuts2") or case["cuts"]))):
        if not asked(k):
            status = "no-request-%d" % k
            break
        b = socks[k]
        frags = httpgen.fragments(wire(stream, framing, case.get("chunks")), cuts)
        for i, f in enumerate(frags):
            b.send(f)
            cycle(1 + idle[i % len(idle)])
        if k == 0:
            b.close()                         # the server ends the connection
            cycle(case.get("gap", 0))         # cut off, retry timer still running
            tymist.tick(tock=1.0)             # now it has run out
        else:
            reads2 = len(frags)
    cycle(3)
    rsp = client.respondent
    retry = rsp.retry if rsp.retry != clienting.Respondent.Retry else None
    return ([dict(e) for e in client.events], rsp.leid, retry), status, reads2


def run_case_reconnect(case, r):
    s1 = build_stream(case["lines"])
    s2 = build_stream(case["lines2"])
    framing = case.get("framing", "close")
    got, status, reads2 = run_reconnect(case)
    r.labels.append("transport:reconnect-" + framing)
    r.labels.append("reconnect:" + status)
    r.labels.append("cutoff-cycles=%d" % min(case.get("gap", 0), 5))
    if status == "no-request-0":
        return r            # the client never asked: nothing to deliver, nothing judged here
    if status == "resumed":
        acc, leg = resumed_outcomes(s1, s2), resumed_outcomes(s1, s2, legacy=True)
    else:                   # the client did not ask again (no event id so far): only the first stream was sent
        acc, leg = outcomes(s1), outcomes(s1, legacy=True)
    if got not in acc:
        what = _first_diff(got, acc[0])
        one = lambda d: [d]
        alone = all(run_resp(s, framing, case.get("chunks"), one) in outcomes(s) + outcomes(s, legacy=True) for s in (s1, s2))
        if got in leg and any(_drops_empty(s) for s in (s1, s2)):
            sig = "C15/empty-data-event-dropped"
        elif alone:
            sig = "C15/resumed-stream-not-delivered"
        else:
            sig = "C15/wrong-events"
        r.fail(sig, "transport reconnect (%s), %d cut-off cycles: %s" % (framing, case.get("gap", 0), what))
    r.nontrivial = status == "resumed" and reads2 >= 2
    r.labels.append("events=%d" % min(len(acc[0][0]), 4))
    if any(e["data"] == "" for e in acc[0][0]):
        r.labels.append("empty-data-event")
    return r


def run_case(case):
    r = Result()
    tr = case["transport"]
    if tr == "reconnect":
        return run_case_reconnect(case, r)
    stream = build_stream(case["lines"])
    acc = outcomes(stream)
    leg = outcomes(stream, legacy=True)
    frag = lambda data: httpgen.fragments(data, case["cuts"])
    idle = tuple(case.get("idle") or (0,))
    frags = frag(stream)
    if tr == "es":
        got = run_es(stream, frags, idle)
        whole = run_es(stream, [stream])
    else:
        got = run_resp(stream, tr, case.get("chunks"), frag, idle)
        whole = run_resp(stream, tr, case.get("chunks"), lambda d: [d])
    kinds = {e for _t, e in case["lines"]}
    cr_cut = False
    pos = 0
    for f in frags[:-1]:
        pos += len(f)
        if stream[pos - 1:pos] == b"\r":
            cr_cut = True
    suffix = "(content-length)" if tr == "length" else ""
    if got not in acc:
        what = _first_diff(got, acc[0])
        if got in leg and _drops_empty(stream):
            sig = "C15/empty-data-event-dropped"
        elif whole in acc and cr_cut:
            sig = "C15/cr-at-end-of-read" + suffix
        elif whole in acc:
            sig = "C15/fragmentation-dependent" + suffix
        else:
            sig = "C15/wrong-events" + suffix
        r.fail(sig, "transport %s: %s" % (tr, what))
    elif whole not in acc:          # the same stream in one read is a delivery as well
        what = _first_diff(whole, acc[0])
        r.fail("C15/empty-data-event-dropped" if whole in leg and _drops_empty(stream) else "C15/wrong-events" + suffix,
               "transport %s, delivered in one read: %s" % (tr, what))
    multi = False
    run = 0
    for t, _e in case["lines"]:
        if t.startswith("data"):
            run += 1
            multi = multi or run >= 2
        elif t == "":
            run = 0
    r.nontrivial = len(kinds) >= 2 and multi and cr_cut
    r.labels.append("transport:" + tr)
    r.labels.append("eol-kinds=%d" % len(kinds))
    if cr_cut:
        r.labels.append("cut-after-CR")
    if any(idle):
        r.labels.append("idle-passes-between-reads")
    if multi:
        r.labels.append("multi-line-data")
    if any(e["data"] == "" for e in acc[0][0]):
        r.labels.append("empty-data-event")
    r.labels.append("events=%d" % min(len(acc[0][0]), 4))
    return r


def _drops_empty(stream):
    """Names a failure, never accepts one: does the event parser itself, fed the whole stream at once, leave out exactly the
    events whose data is the empty string?"""
    one = run_es(stream, [stream])
    return one not in outcomes(stream) and one in outcomes(stream, legacy=True)


def _first_diff(got, exp):
    ge, gl, gr = got
    ee, el, er = exp
    if ge != ee:
        for i in range(max(len(ge), len(ee))):
            a = ge[i] if i < len(ge) else None
            b = ee[i] if i < len(ee) else None
            if a != b:
                return "event %d: got %r expected %r (got %d events, expected %d)" % (i, a, b, len(ge), len(ee))
    if gl != el:
        return "last event id got %r expected %r" % (gl, el)
    return "retry got %r expected %r" % (gr, er)


VAL = st.text(alphabet=st.characters(min_codepoint=0x20, max_codepoint=0x2FF, blacklist_characters="\x7f"), max_size=12)
VAL2 = st.one_of(VAL, st.sampled_from(["", " x", "  two", "a:b", ":", "é✓", "{\"a\": 1}", "x ", "0"]))


@st.composite
def stream_lines(draw, eols=("crlf", "lf", "cr"), maxev=6, first_id=False, idval=VAL2):
    eol = st.sampled_from(list(eols))
    lines = []
    nev = draw(st.integers(1, maxev))
    if first_id:        # an event id right away, so that a reconnecting client has something to resume from
        lines.append(["id:" + draw(st.sampled_from([" ", ""])) + draw(idval), draw(eol)])
    for _ in range(nev):
        nfields = draw(st.integers(0, 5))
        for _f in range(nfields):
            kind = draw(st.sampled_from(["data", "data", "data", "event", "id", "retry", "comment", "unknown", "nocolon",
                                         "emptydata"]))
            sp = draw(st.sampled_from([" ", " ", ""]))
            if kind == "data":
                t = "data:" + sp + draw(VAL2)
            elif kind == "event":
                t = "event:" + sp + draw(VAL2)
            elif kind == "id":
                t = "id:" + sp + draw(idval)
            elif kind == "retry":
                t = "retry:" + sp + draw(st.sampled_from(["0", "5", "3000", "007", "abc", "", "12a"]))
            elif kind == "comment":
                t = ":" + draw(VAL)
            elif kind == "unknown":
                t = draw(st.sampled_from(["foo", "Data", "datum", "x-y"])) + ":" + sp + draw(VAL)
            elif kind == "emptydata":
                t = draw(st.sampled_from(["data:", "data", "data: "]))
            else:
                t = draw(st.sampled_from(["data", "event", "id", "retry", "bogus"]))
            lines.append([t, draw(eol)])
        lines.append(["", draw(eol)])
    return lines


# ids a client can put into a request header: hio encodes header values as ISO-8859-1 and raises on anything else when it
# asks again after a reconnect; that request is not part of this property, so such ids are kept out of a stream that is resumed
ID_LATIN1 = st.one_of(st.text(alphabet=st.characters(min_codepoint=0x20, max_codepoint=0xFF, blacklist_characters="\x7f"), max_size=12),
                      st.sampled_from(["", " x", "a:b", ":", "é", "0", "x "]))
IDLE = st.one_of(st.just([0]), st.lists(st.integers(0, 2), min_size=1, max_size=4))


def _case(eols=("crlf", "lf", "cr")):
    return st.fixed_dictionaries({
        "lines": stream_lines(eols), "transport": st.sampled_from(["es", "close", "chunked", "length"]),
        "chunks": st.lists(st.integers(1, 23), max_size=5), "cuts": httpgen.cuts(), "idle": IDLE})


def _reconnect_case():
    return st.fixed_dictionaries({
        "transport": st.just("reconnect"), "framing": st.sampled_from(["close", "chunked"]),
        "lines": stream_lines(maxev=3, first_id=True, idval=ID_LATIN1), "lines2": stream_lines(maxev=4),
        "chunks": st.lists(st.integers(1, 23), max_size=5), "cuts": httpgen.cuts(), "cuts2": httpgen.cuts(),
        "gap": st.integers(0, 5), "delay": st.integers(1, 3), "idle": IDLE})


def searches(tier):
    q = tier == "quick"
    return [("mixed-terminators", _case(), 1500 if q else 20000),
            ("lf-crlf-only", _case(("crlf", "lf")), 600 if q else 8000),
            ("resumed-after-reconnect", _reconnect_case(), 400 if q else 6000)]

"""C17 Chunked transfer coding decodes exactly and rejects invalid chunk sizes.

valid    (body, chunk partition, extension sets, trailer set, hex case, leading
         zeros) is encoded by the harness grammar, or by hio's own packChunk for
         plain chunks, and decoded (a) by parseChunk directly, (b) through the
         request parser and (c) through the response parser, also as the second
         of two pipelined chunked messages, and (d) by the real http Client on an
         in-memory connection as the first of two chunked responses on one
         connection.  Decoding must yield exactly the body, exactly those trailers
         and exactly those extension parameters; in (d) the body the Client
         delivered in .responses must still be that body after the next response
         was decoded (the entry is read again, the way a caller that lets
         responses queue up reads it).
invalid  a chunk-size line that is not 1*HEXDIG (sign, 0x prefix, underscore,
         empty, non-hex, embedded blank, ...) followed by enough data: decoding
         must report an error (raise, or set the parser's errored flag) and must
         never produce a chunk.  Sizes padded with blanks are generated but not
         judged (the statement is silent about optional whitespace).
"""
from hypothesis import strategies as st

from hio.core.http import clienting, httping
from vlib import fakenet, httpdrive, httpgen
from vlib.core import Result, assert_in_tree

assert_in_tree(httping, clienting)

PID = "C17"
RULE = ("cases: valid = (body <= 200 bytes incl. CR/LF/look-alike framing, chunk sizes, per-chunk extensions, trailers, hex "
        "case, leading zeros, packChunk or grammar encoding, fragmentation) decoded by parseChunk / Requestant / Respondent, "
        "alone and as second pipelined message, and by the http Client as first of two responses on one connection (body read "
        "from Client.responses when delivered and again after the second response); invalid = chunk-size strings from a grammar of non-hex forms. non-trivial = "
        ">= 2 chunks with an extension or a trailer, or an invalid size that Python's int(s, 16) would accept; distinct = "
        "canonical hash of the case")
ASSUMPTIONS = ["chunk-size lines and chunk data are CRLF terminated (the only form parseChunk documents)",
               "blank-padded chunk sizes are not judged",
               "a decoded body is judged where a caller receives it: the parser's .body when the message has ended, and the entries "
               "of Client.responses for as long as they are queued; whether the parser reuses its own .body object afterwards is "
               "not judged (the servers copy it before the next message is parsed)"]


def decode_direct(data, frags, idle=(0,)):
    """Run parseChunk repeatedly over a bytearray fed in fragments. Returns (body, trails, parms, leftover) or raises."""
    raw = bytearray()
    body = bytearray()
    parms = {}
    trails = {}
    it = iter(frags)
    gen = httping.parseChunk(raw)
    done = False
    idle = tuple(idle) or (0,)
    fed = skip = 0
    while not done:
        res = next(gen)
        if res is None:
            if skip:             # resume the parser without new bytes
                skip -= 1
                continue
            try:
                raw.extend(next(it))
            except StopIteration:
                return None      # incomplete
            skip = idle[fed % len(idle)]
            fed += 1
            continue
        size, p, t, chunk = res
        gen.close()
        parms.update(p)
        if size:
            body.extend(chunk)
            gen = httping.parseChunk(raw)
        else:
            trails = {k.lower(): v for k, v in t.items()}
            done = True
    for rest in it:
        raw.extend(rest)
    return bytes(body), trails, parms, bytes(raw)


def run_valid(case, r):
    spec = dict(case["spec"])
    exp = httpgen.expected(spec)
    if case.get("pack"):
        # hio's own encoder for plain chunks (no extensions), then last chunk + trailers by the grammar
        _b, parts = httpgen.chunked_body(spec)
        enc = b"".join(httping.packChunk(p) for p in parts)
        tail_spec = dict(spec, body=b"", exts=[], sizes=[])
        tail, _ = httpgen.chunked_body(tail_spec)
        data = enc + tail
        exp_parms = {}
    else:
        data, parts = httpgen.chunked_body(spec)
        exp_parms = exp["parms"]
    frags = httpgen.fragments(data, case["cuts"])
    got = decode_direct(data, frags, tuple(case.get("idle") or (0,)))
    if got is None:
        r.fail("C17/direct-incomplete", "parseChunk still waiting after all %d bytes" % len(data))
        return
    body, trails, parms, left = got
    if body != exp["body"]:
        r.fail("C17/direct-body", "decoded %r expected %r" % (body[:80], exp["body"][:80]))
    elif trails != exp["trails"]:
        r.fail("C17/direct-trailers", "decoded %r expected %r" % (trails, exp["trails"]))
    elif parms != exp_parms:
        r.fail("C17/direct-parms", "decoded %r expected %r" % (parms, exp_parms))
    elif left:
        r.fail("C17/direct-leftover", "unconsumed %r" % left[:40])
    if r.failures or case.get("pack"):
        return
    # through the message parsers, alone and after another chunked message with its own trailers/extensions
    first = dict(spec, body=b"xyz", sizes=[2], exts=[[["q", "1"]]], trailers=[["X-First", "1"]])
    for kind in ("req", "resp"):
        if kind == "req":
            m1 = dict(first, t="req", method="POST", target="/a", version="HTTP/1.1", headers=[], frame="chunked", conn=None)
            m2 = dict(spec, t="req", method="POST", target="/b", version="HTTP/1.1", headers=[], frame="chunked", conn=None)
            drive = httpdrive.drive_requestant
        else:
            m1 = dict(first, t="resp", version="HTTP/1.1", status=200, reason="OK", headers=[], frame="chunked", conn=None)
            m2 = dict(spec, t="resp", version="HTTP/1.1", status=200, reason="OK", headers=[], frame="chunked", conn=None)
            drive = httpdrive.drive_respondent
        for label, msgs in (("alone", [m2]), ("second-of-two", [m1, m2])):
            data2 = b"".join(httpgen.build(m) for m in msgs)
            res, left, raised = drive(httpgen.fragments(data2, case["cuts"]), idle=tuple(case.get("idle") or (0,)))
            if raised or len(res) != len(msgs):
                r.fail("C17/%s-%s-not-decoded" % (kind, label), "raised=%r parsed %d of %d" % (raised, len(res), len(msgs)))
                return
            got = res[-1]
            if got["errored"]:
                r.fail("C17/%s-%s-errored" % (kind, label), "error=%r" % got["error"])
                return
            for field, want in (("body", exp["body"]), ("trails", exp["trails"]), ("parms", exp["parms"])):
                if got[field] != want:
                    r.fail("C17/%s-%s-%s" % (kind, label, field), "decoded %r expected %r" % (got[field], want))
                    return
    # through the http Client: the generated message first, another chunked message behind it on the same connection
    ma = dict(spec, t="resp", version="HTTP/1.1", status=200, reason="OK", headers=[], frame="chunked", conn=None)
    mb = dict(first, t="resp", version="HTTP/1.1", status=200, reason="OK", headers=[], frame="chunked", conn=None)
    entries, fresh = drive_client([httpgen.build(ma), httpgen.build(mb)], case["cuts"], tuple(case.get("idle") or (0,)))
    if len(entries) != 2 or any(e.get("errored") for e in entries):
        r.fail("C17/client-not-decoded", "%d of 2 responses, errored %r" % (len(entries), [e.get("error") for e in entries]))
        return
    for k, want in enumerate((exp["body"], b"xyz")):
        if fresh[k] != want:
            r.fail("C17/client-body", "response %d delivered with body %r, the chunks carry %r" % (k, fresh[k][:80], want[:80]))
            return
    for k, want in enumerate((exp["body"], b"xyz")):
        now = bytes(entries[k]["body"])
        if now != want:
            r.fail("C17/client-body-changed-after-delivery", "Client.responses[%d]['body'] was %r when delivered and reads %r after "
                   "response %d was decoded" % (k, want[:80], now[:80], 1))
            return


AUTH = ("127.0.0.1", 8080)


def drive_client(wires, cuts, idle=(0,)):
    """The real http Client on an in-memory connection.  One GET per wire is queued up front; the harness server answers the
    k-th request that arrives with wires[k], one fragment per service cycle.  Returns (entries of Client.responses - the
    objects themselves -, copies of their bodies taken in the cycle each one appeared)."""
    socks = []

    def make():
        a, b = fakenet.pipe(a_addr=("127.0.0.1", 43000 + len(socks)), b_addr=AUTH)
        socks.append(b)
        return a

    fakenet.FakeConnector.registry = {AUTH: make}
    fakenet.FakeConnector.opened_to = []
    conn = fakenet.FakeConnector(ha=AUTH, bs=65536)
    conn.reopen()
    client = clienting.Client(connector=conn, hostname=AUTH[0], port=AUTH[1])
    for k in range(len(wires)):
        client.request(method="GET", path="/m%d" % k)
    idle = tuple(idle) or (0,)
    seen = bytearray()
    first = []
    pending = []
    answered = sent = 0
    for _ in range(40 + sum(len(w) for w in wires) * 3):
        client.service()
        for e in list(client.responses)[len(first):]:
            first.append(bytes(e["body"]))
        if len(first) == len(wires):
            break
        if not socks:
            continue
        b = socks[0]
        try:
            seen.extend(b.recv(65536))
        except OSError:
            pass
        if not pending and answered < len(wires) and seen.count(b"\r\n\r\n") > answered:
            pending = httpgen.fragments(wires[answered], cuts)
            answered += 1
        if pending:
            b.send(pending.pop(0))
            for _i in range(idle[sent % len(idle)]):
                client.service()
            sent += 1
    return list(client.responses), first


PYINT_ACCEPTS = None


def run_invalid(case, r):
    size = case["size"]
    payload = case["payload"]
    stripped = size.strip(" \t")
    try:
        n = int(stripped, 16)
    except ValueError:
        n = None
    if n is not None and 0 < n <= 70000:
        # make the data exactly as long as a lenient reading of the size would need
        payload = (payload + b"x" * n)[:n]
    line = size.encode("latin-1") + b"\r\n" + payload + b"\r\n0\r\n\r\n"
    padded = stripped != size
    hexok = stripped != "" and all(c in "0123456789abcdefABCDEF" for c in stripped)
    if hexok:
        r.labels.append("invalid:padded-valid(not judged)")
        return
    if padded:
        r.labels.append("invalid:padded")
    try:
        int(stripped, 16)
        pyok = True
    except ValueError:
        pyok = False
    if pyok:
        r.labels.append("invalid:python-int-accepts")
        r.nontrivial = True
    # (i) direct
    raw = bytearray(line)
    gen = httping.parseChunk(raw)
    produced = None
    try:
        # all bytes are already there: a None means 'need more', asking again must never turn the bytes that follow
        # the invalid size line into a chunk either
        for _ in range(6):
            res = next(gen)
            if res is not None:
                produced = res
                break
    except StopIteration:
        pass
    except Exception:      # noqa: BLE001 - any exception is "reported as an error"
        pass
    if produced is not None:
        r.fail("C17/invalid-size-accepted", "chunk-size line %r was decoded as size %r (chunk %r)" % (
            size, produced[0], bytes(produced[3])[:20]))
        return
    # (ii) through the parsers: no message may end without error
    for kind in ("req", "resp"):
        if kind == "req":
            head = b"POST /x HTTP/1.1\r\nTransfer-Encoding: chunked\r\n\r\n"
            drive = httpdrive.drive_requestant
        else:
            head = b"HTTP/1.1 200 OK\r\nTransfer-Encoding: chunked\r\n\r\n"
            drive = httpdrive.drive_respondent
        try:
            res, left, raised = drive([head + line])
        except Exception:      # noqa: BLE001 - raising is a way of reporting (judged by C16, not here)
            continue
        if any((not m["errored"]) for m in res):
            r.fail("C17/invalid-size-accepted-by-%s-parser" % kind, "size %r -> body %r" % (size, res[0]["body"][:20]))
            return


def run_case(case):
    r = Result()
    if case["k"] == "valid":
        run_valid(case, r)
        spec = case["spec"]
        _b, parts = httpgen.chunked_body(spec)
        fancy = bool(spec.get("trailers")) or any(spec.get("exts") or [])
        r.nontrivial = len(parts) >= 2 and fancy
        r.labels.append("valid:pack" if case.get("pack") else "valid:grammar")
        r.labels.append("chunks=%d" % min(len(parts), 4))
        if spec.get("trailers"):
            r.labels.append("trailers")
        if any(spec.get("exts") or []):
            r.labels.append("extensions")
    else:
        run_invalid(case, r)
    return r


@st.composite
def valid_case(draw):
    spec = {"t": "req", "method": "POST", "target": "/b", "version": "HTTP/1.1", "conn": None,
            "frame": "chunked", "headers": [], "eol": draw(st.sampled_from(["crlf", "crlf", "lf"])),
            "body": draw(httpgen.body_bytes(200)),
            "sizes": draw(st.lists(st.integers(1, 60), max_size=6)),
            "exts": draw(st.lists(httpgen.ext_list(), max_size=7)),
            "trailers": draw(httpgen.headers(3)),
            "hexupper": draw(st.booleans()), "lz": draw(st.sampled_from([0, 0, 1, 4]))}
    pack = draw(st.integers(0, 3)) == 0
    if pack:
        spec["exts"] = []
    return {"k": "valid", "spec": spec, "pack": pack, "cuts": draw(httpgen.cuts()),
            "idle": draw(st.one_of(st.just([0]), st.lists(st.integers(0, 2), min_size=1, max_size=4)))}


def invalid_sizes():
    hexd = st.text(alphabet="0123456789abcdefABCDEF", min_size=1, max_size=4)
    forms = st.one_of(
        hexd.map(lambda h: "-" + h), hexd.map(lambda h: "+" + h), hexd.map(lambda h: "0x" + h),
        hexd.map(lambda h: "0X" + h), st.tuples(hexd, hexd).map(lambda t: t[0] + "_" + t[1]),
        st.just(""), st.sampled_from(["g", "5g", "zz", "0b1", "0o7", "1e3x", "5.0", "--5", "+-5", "_5", "5_"]),
        st.tuples(hexd, hexd).map(lambda t: t[0] + " " + t[1]),
        hexd.map(lambda h: " " + h), hexd.map(lambda h: h + " "), hexd.map(lambda h: " +" + h),
        st.text(alphabet=st.characters(min_codepoint=0x20, max_codepoint=0xFF, blacklist_characters=";\x7f"), max_size=5),
    )
    return st.fixed_dictionaries({"k": st.just("invalid"), "size": forms,
                                  "payload": st.one_of(
                                      st.binary(min_size=0, max_size=40),
                                      # bytes that are themselves a well formed chunk (or last chunk): an invalid size line
                                      # must not be skipped in favour of what follows it
                                      st.sampled_from([b"3\r\nabc", b"0", b"a\r\n0123456789", b"1;x=y\r\nz",
                                                       b"5\r\nhello\r\n3\r\nabc"]))})


def searches(tier):
    q = tier == "quick"
    return [("valid", valid_case(), 900 if q else 12000),
            ("invalid-sizes", invalid_sizes(), 1500 if q else 20000)]

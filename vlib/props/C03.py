"""C03 Virtual-time scheduling follows the documented cycle model.

Generated fault-free programs (flat, or nested under tock-0 DoDoers) are run by
the real Doist and by the reference scheduler (vlib/schedmodel.py).  Judged:
  * tyme after every cycle == previous tyme + tock (float addition), i.e. exactly
    one tock per cycle;
  * every recur is sent the scheduler tyme and tymth() returns the same value;
  * direct predicates (model independent): at most one recur per doer per cycle;
    within a cycle sibling doers recur in enter order;
  * per doer, the list of (cycle, tyme) of its recurs equals the reference
    scheduler's (cumulative due tymes for positive yields, next cycle for 0/None).
"""
from hypothesis import strategies as st

from vlib import sched, schedgen, schedmodel
from vlib.core import Result

PID = "C03"
RULE = ("cases: fault-free scheduler programs (<= 6 leaves of the five doer kinds, flat or nested to depth 2 under "
        "tock-0 DoDoers, <= 6 scripted steps each with a per-step yielded tock from {0, 0.0, None, fractions and "
        "multiples of the scheduler tock, 0.1, 0.3, 1/3, ...}, scheduler tock dyadic or non-dyadic, start tyme "
        "0 / 1 / 10.5 / 0.1, optional limit). non-trivial = some doer yields >= 2 different positive tocks or a "
        "positive tock that is not a multiple of the scheduler tock, and the run has >= 3 cycles; distinct = "
        "canonical hash of the program")
ASSUMPTIONS = ["the reference scheduler (vlib/schedmodel.py) is written from the docstrings and the property text",
               "TDoist only overrides tick() to count cycles", "Python 3.12 interpreter"]


def shape_labels(prog):
    lb = []
    d = schedgen.depth_of(prog["doers"])
    lb.append("depth=%d" % d)
    if prog.get("limit") is not None:
        lb.append("limit")
    return lb


def nontrivial(prog, run):
    tock = prog["tock"]
    ok = False
    for lf in schedgen.leaves(prog["doers"]):
        pos = {y for _a, y in lf["steps"] if y}
        if len(pos) >= 2 or any(abs((y / tock) - round(y / tock)) > 1e-9 for y in pos):
            ok = True
    return ok and run.cycles >= 3


def sibling_order(run):
    """Within a cycle, children of one scheduler must recur in enter order."""
    parent = {}
    for p, kids in run.kids.items():
        for k in kids:
            parent[k] = p
    enter_idx = {}
    for e in run.ev:
        if e[1] == "E" and e[2] not in enter_idx:
            enter_idx[e[2]] = e[0]
    last = {}
    for e in run.ev:
        if e[1] != "R":
            continue
        name, cyc = e[2], e[3]
        p = parent.get(name, "doist")
        key = (p, cyc)
        if key in last and enter_idx[last[key]] > enter_idx[name]:
            return "cycle %d under %s: %s recurred after %s" % (cyc, p, name, last[key])
        last[key] = name
    return None


def judge(prog, run, r, model=None):
    tock = float(prog["tock"])
    # exactly one tock per cycle
    prev = float(prog.get("tyme", 0.0))
    for k, t in enumerate(run.tymes):
        if t != prev + tock:
            r.fail("C03/tyme-advance", "cycle %d: tyme %r != %r + %r" % (k, t, prev, tock))
            return
        prev = t
    # recurs observe the scheduler tyme
    start = float(prog.get("tyme", 0.0))
    cyc_tyme = [start] + run.tymes
    seen = set()
    for e in run.ev:
        if e[1] != "R":
            continue
        _s, _c, name, cyc, sent, tymth = e
        if sent != cyc_tyme[cyc] or tymth != cyc_tyme[cyc]:
            r.fail("C03/observed-tyme", "%s in cycle %d was sent %r, tymth()=%r, scheduler tyme %r" % (
                name, cyc, sent, tymth, cyc_tyme[cyc]))
            return
        if (name, cyc) in seen:
            r.fail("C03/twice-in-cycle", "%s recurred twice in cycle %d" % (name, cyc))
            return
        seen.add((name, cyc))
    msg = sibling_order(run)
    if msg:
        r.fail("C03/enter-order", msg)
        return
    if model is None:
        model = schedmodel.Model(prog).run()
    if model.truncated:
        return
    real = real_recurs(run)
    if real != model.recurs or run.cycles != model.cycles:
        if run.kids:
            alt = schedmodel.Model(prog, nested_asap_bug=True).run()
            if real == alt.recurs and run.cycles == alt.cycles:
                r.fail("C03/nested-asap-base", "run equals the reference scheduler only when a DoDoer child that "
                       "yielded 0/None is rebased at the tyme it yielded instead of the tyme it next ran: " +
                       first_diff(real, model.recurs))
                return
        r.fail("C03/due-tymes", "real %d cycles, model %d; %s" % (run.cycles, model.cycles,
                                                                  first_diff(real, model.recurs)))


def real_recurs(run):
    out = {n: [] for n in run.names if n.startswith("d")}
    for e in run.ev:
        if e[1] == "R":
            out[e[2]].append((e[3], e[4]))
    return out


def first_diff(real, exp):
    for name in exp:
        if real.get(name) != exp[name]:
            return "%s recurs (cycle, tyme): real %r model %r" % (name, real.get(name, [])[:12], exp[name][:12])
    return "only cycle counts differ"


def run_case(prog):
    r = Result()
    run = sched.run_program(prog, prog.get("mode") or "do")
    if run.exc == "Runaway":
        r.fail("C03/run-did-not-terminate", "more than %d cycles" % sched.MAX_CYCLES)
        return r
    if run.exc:
        r.fail("C03/unexpected-exception", run.exc)
        return r
    judge(prog, run, r)
    r.labels = shape_labels(prog)
    r.nontrivial = nontrivial(prog, run)
    r.labels.append("mode:" + (prog.get("mode") or "do"))
    return r


def searches(tier):
    q = tier == "quick"
    return [
        ("flat", schedgen.program(maxdepth=0), 1200 if q else 15000),
        ("nested", schedgen.program(maxdepth=2, prerun_ok=True), 1200 if q else 20000),
        # same shapes with the known nested-asap-base pattern avoided by construction
        ("nested-split-yields", schedgen.program(maxdepth=2, split_yields=True), 800 if q else 10000),
    ]

"""C24 Keyed durable stores match a dictionary model for all keys.

History = operations on the three kinds of sub database of one Duror (LMDB in a sandbox):
  Suber       key -> value                         (put no-overwrite, pin, get, rem)
  IoSuber     key -> insertion ordered list        (add, put, pin, get, getFirst, getLast, pop, rem, cnt)
  IoSetSuber  key -> insertion ordered set         (same, add / put skip members, rem(key, val))
over a key universe built to collide: keys that are prefixes of each other, keys with the key
separator '_' and the ordinal separator '.', tuple keys, and (separate class) keys shaped like
another key's hidden ordinal suffix.  Model = dict of str / list / ordered set.  Every return
value must equal the model's, and after every operation ALL keys of the universe are read back
(get, getFirst, getLast, cnt, getItemIter) and compared: an operation on one key never changes
what another key returns.

The ordinal separator of the two insertion ordered stores is a documented constructor parameter
(`ionsep`, default '.'): it is a dimension of the case ("ionsep", absent = '.').  With another
separator S the key universe is the same one written with S ('a', 'aSb', 'aSbSc', 'aS', ...) plus
'a.b' (a key with the default separator), and the suffix-shaped class is 'aS<32 hex digits>'.
A case may also ask ("reads": "stmt") for a read-back that uses nothing but the operations the
statement names (get and count), so that a defect of pop is not hidden behind getFirst / getLast.
"""
import os
import shutil

from hypothesis import strategies as st

from hio.base import during
from vlib import fsbox
from vlib.core import WORK, Result, assert_in_tree, exc_sig

assert_in_tree(during)

PID = "C24"
RULE = ("cases (incl. a queue-like class: 3 keys, front pops interleaved with appends): store kind (Suber / IoSuber / IoSetSuber) x <= 40 operations (put, pin, add, get, getFirst, getLast, pop, rem, "
        "rem(val), cnt) over a 12 key universe: a, b, ab, a.b, a.b.c, a_b, ('a','b') (same key as a_b), a., a.c, b.a, c, and - in "
        "the 'suffix-shaped' class only - a.<32 hex digits> keys; 5 values; non-trivial = the history touches two keys where one "
        "is a proper prefix of the other and both hold >= 2 values at some point (Suber: both hold a value); distinct = "
        "canonical hash; further classes: IoSuber / IoSetSuber built with another ordinal separator ionsep in '-', '|', '_', ':' "
        "over the same universe written with that separator plus 'a.b' (free histories with the full read-back; histories of "
        "the statement's own operations put / pin / add / get / pop / rem / cnt with a get + cnt read-back; suffix-shaped keys "
        "a<ionsep><32 hex digits>)")
ASSUMPTIONS = [
    "keys are non-empty text without NUL; values are non-empty text (an empty value means 'all values' in IoSetSuber.rem)",
    "a tuple key and its '_' joined string are the same key by design (documented key combining), the model joins them too",
    "one fresh persistent Duror per case in a sandbox under /verif/.work, filesystem calls guarded by vlib/fsbox",
    "the ordinal separator given to IoSuber / IoSetSuber is one punctuation character that cannot occur in a hex number "
    "('.', '-', '|', '_', ':'); '_' is also the default separator of key parts",
]

TOP = os.path.join(WORK, "C24.%d" % os.getpid())
BOX = fsbox.install(os.path.join(TOP, "box"))

HEX0 = "0" * 32
HEX1 = "0" * 31 + "1"
KEYS = ["a", "b", "ab", "a.b", "a.b.c", "a_b", ["a", "b"], "a.", "a.c", "b.a", "c", ["a.b", "c"]]
SUFFIXY = ["a." + HEX0, "a." + HEX1, "a." + "f" * 32, "a.b." + HEX0]
VALS = ["v0", "v1", "v2", "v3", "v4"]


def kstr(k):
    return "_".join(k) if isinstance(k, (list, tuple)) else k


def karg(k):
    return tuple(k) if isinstance(k, list) else k


NEUTRAL = ["s0", "s1", "s2", "s3"]      # stand-ins with the same positions as SUFFIXY
IONSEPS = ["-", "|", "_", ":"]          # ordinal separators other than the default '.'


def _keys(sep):
    """The 12 ordinary keys for a store whose ordinal separator is sep (same positions as KEYS)."""
    if sep == ".":
        return list(KEYS)

    def swap(k):
        return [swap(p) for p in k] if isinstance(k, list) else k.replace(".", sep)
    keys = [swap(k) for k in KEYS]
    keys[9] = "a.b"     # instead of 'b<sep>a': a key that extends 'a' with the DEFAULT separator
    return keys


def _suffixy(sep):
    """Keys whose tail after the store's ordinal separator looks like a 32 hex digit ordinal (the known open shape)."""
    return [k.replace(".", sep) for k in SUFFIXY]


def run_case(case):
    sep = case.get("ionsep", ".")
    r = _run(case, _keys(sep) + (_suffixy(sep) if case["suffixy"] else []))
    if case["suffixy"] and r.failures:
        # attribute: the same history with the suffix-shaped keys replaced by ordinary keys
        r2 = _run(case, _keys(sep) + NEUTRAL)
        if not r2.failures:
            first = r.failures[0]
            r.failures = []
            r.fail("C24/suffix-shaped-key-interference", "the history fails only with keys shaped like another key's ordinal "
                   "suffix (a%s<32 hex>): %s: %s" % (sep, first.sig, first.detail))
    return r


def _run(case, universe):
    r = Result()
    kind = case["kind"]
    shutil.rmtree(BOX, ignore_errors=True)
    os.makedirs(BOX)
    db = during.Duror(name="kv", headDirPath=BOX, temp=False, reopen=True)
    cls = {"suber": during.Suber, "io": during.IoSuber, "ioset": during.IoSetSuber}[kind]
    sep = case.get("ionsep", ".")
    stmt = case.get("reads", "all") == "stmt"    # read back with the statement's own operations only (get, count)
    if kind == "suber" or sep == ".":
        sdb = cls(db=db, subkey="docs.")
    else:
        sdb = cls(db=db, subkey="docs.", ionsep=sep)
    other = during.IoSuber(db=db, subkey="zz.")      # a second sub database must never be affected
    other.put("a", ["keep"])
    model = {}
    tag = "" if (kind == "suber" or sep == ".") else "/ionsep"
    big = set()

    def readback(step):
        for k in universe:
            ks = kstr(k)
            ka = karg(k)
            exp = model.get(ks)
            if kind == "suber":
                got = sdb.get(ka)
                if got != exp:
                    r.fail("C24/suber-readback" + tag, "after step %s: get(%r)=%r model %r" % (step, ka, got, exp))
                    return False
                continue
            exp = exp or []
            got = sdb.get(ka)
            if got != exp:
                r.fail("C24/%s-readback-get%s" % (kind, tag), "after step %s: get(%r)=%r model %r" % (step, ka, got, exp))
                return False
            if stmt:
                c = sdb.cnt(ka)
                if c != len(exp):
                    r.fail("C24/%s-readback-cnt%s" % (kind, tag), "after step %s: cnt(%r)=%r model %r" % (step, ka, c, exp))
                    return False
                continue
            f, l, c = sdb.getFirst(ka), sdb.getLast(ka), sdb.cnt(ka)
            if f != (exp[0] if exp else None):
                r.fail("C24/%s-readback-getFirst%s" % (kind, tag), "after step %s: getFirst(%r)=%r model %r" % (step, ka, f, exp))
                return False
            if l != (exp[-1] if exp else None):
                r.fail("C24/%s-readback-getLast%s" % (kind, tag), "after step %s: getLast(%r)=%r model %r; all keys: %r" % (
                    step, ka, l, exp, {k2: v for k2, v in model.items() if v}))
                return False
            if c != len(exp):
                r.fail("C24/%s-readback-cnt%s" % (kind, tag), "after step %s: cnt(%r)=%r model %r" % (step, ka, c, exp))
                return False
        if stmt:
            if other.get("a") != ["keep"]:
                r.fail("C24/other-subdb-changed", "after step %s" % step)
                return False
            return True
        # whole store scan: per key subsequences
        items = list(sdb.getItemIter())
        per = {}
        for keys, v in items:
            per.setdefault("_".join(keys), []).append(v)
        expd = {k: (v if isinstance(v, list) else [v]) for k, v in model.items() if v}
        if per != expd:
            r.fail("C24/%s-scan%s" % (kind, tag), "after step %s: getItemIter groups %r model %r" % (step, per, expd))
            return False
        if other.get("a") != ["keep"]:
            r.fail("C24/other-subdb-changed", "after step %s" % step)
            return False
        return True

    try:
        for n, op in enumerate(case["ops"]):
            name = op[0]
            k = universe[op[1] % len(universe)]
            ks, ka = kstr(k), karg(k)
            exp = got = None
            if kind == "suber":
                if name in ("put", "add"):
                    exp = ks not in model
                    if exp:
                        model[ks] = op[2][0]
                    got = sdb.put(ka, op[2][0])
                elif name == "pin":
                    model[ks] = op[2][0]
                    exp, got = True, sdb.pin(ka, op[2][0])
                elif name in ("rem", "remval", "pop"):
                    exp = ks in model
                    model.pop(ks, None)
                    got = sdb.rem(ka)
                else:
                    exp, got = model.get(ks), sdb.get(ka)
            else:
                cur = model.setdefault(ks, [])
                isset = kind == "ioset"
                if name == "add":
                    v = op[2][0]
                    if isset and v in cur:
                        exp = False
                    else:
                        cur.append(v)
                        exp = True
                    got = sdb.add(ka, v)
                elif name == "put":
                    vs = list(op[2])
                    if isset:
                        new = []
                        for v in vs:
                            if v not in cur and v not in new:
                                new.append(v)
                        cur.extend(new)
                        exp = bool(new)
                    else:
                        cur.extend(vs)
                        exp = bool(vs)
                    got = sdb.put(ka, vs)
                elif name == "pin":
                    vs = list(op[2])
                    if isset:
                        vs = list(dict.fromkeys(vs))
                    cur[:] = vs
                    exp = bool(vs)
                    got = sdb.pin(ka, list(op[2]))
                elif name == "pop":
                    exp = cur.pop(0) if cur else None
                    got = sdb.pop(ka)
                elif name == "rem":
                    exp = bool(cur)
                    del cur[:]
                    got = sdb.rem(ka)
                elif name == "remval":
                    if not isset:
                        continue
                    v = op[2][0]
                    exp = v in cur
                    if exp:
                        cur.remove(v)
                    got = sdb.rem(ka, v)
                elif name == "getLast":
                    exp, got = (cur[-1] if cur else None), sdb.getLast(ka)
                elif name == "getFirst":
                    exp, got = (cur[0] if cur else None), sdb.getFirst(ka)
                elif name == "cnt":
                    exp, got = len(cur), sdb.cnt(ka)
                else:
                    exp, got = list(cur), sdb.get(ka)
            # what a READ returns is what "a dictionary of values, lists or ordered sets would" return; what a mutator
            # (put / add / pin / rem) returns besides its effect is not defined by that model: the effect is judged by the
            # full read-back below
            reads = ("get", "getFirst", "getLast", "cnt") + (("pop",) if kind != "suber" else ())
            if name in reads and got != exp:
                r.fail("C24/%s-return(%s)%s" % (kind, name, tag), "step %d %s(%r, %r) returned %r, model %r; state %r" % (
                    n, name, ka, op[2], got, exp, {k2: v for k2, v in model.items() if v}))
                break
            for k2, v2 in model.items():
                if v2 and (kind == "suber" or len(v2) >= 2):
                    big.add(k2)
            if not readback(n):
                break
    except Exception as ex:      # noqa: BLE001
        from vlib.core import hio_frame
        if hio_frame(ex) is None:
            raise
        r.fail(exc_sig(ex, "C24/%s-raised%s" % (kind, tag)), repr(ex))
    finally:
        try:
            db.close()
        except Exception:      # noqa: BLE001
            pass
    pref = any(a != b and b.startswith(a) for a in big for b in big)
    r.nontrivial = pref
    r.labels.append(kind + ("/suffixy" if case["suffixy"] else ""))
    if tag:
        r.labels.append("ionsep=" + sep + ("/stmt-reads" if stmt else ""))
    if pref:
        r.labels.append("prefix-related-keys-populated")
    return r


def _strategy(kind=None, suffixy=False, seps=None):
    vals = st.lists(st.sampled_from(VALS), min_size=1, max_size=3)
    names = ["add", "add", "add", "put", "put", "pin", "pop", "rem", "remval", "get", "getLast", "getFirst", "cnt"]
    op = st.tuples(st.sampled_from(names), st.integers(0, 15), vals).map(list)
    # weight the colliding keys a, a.b, a.b.c, a_b, a.
    hot = st.tuples(st.sampled_from(names), st.sampled_from([0, 3, 4, 5, 7, 8, 12, 13, 14, 15]), vals).map(list)
    if seps:
        # stores built with another ordinal separator (only the insertion ordered kinds have one); key 9 is 'a.b'
        hot9 = st.tuples(st.sampled_from(names), st.sampled_from([0, 3, 4, 5, 7, 8, 9, 9, 12, 13, 14, 15]), vals).map(list)
        return st.fixed_dictionaries({"kind": st.sampled_from(["io", "ioset"]) if kind is None else st.just(kind),
                                      "suffixy": st.just(suffixy),
                                      "ionsep": st.sampled_from(seps),
                                      "ops": st.lists(st.one_of(op, hot9, hot9), min_size=1, max_size=40)})
    return st.fixed_dictionaries({"kind": st.sampled_from(["suber", "io", "io", "ioset", "ioset"]) if kind is None else st.just(kind),
                                  "suffixy": st.just(suffixy),
                                  "ops": st.lists(st.one_of(op, hot, hot), min_size=1, max_size=40)})


def _stmt_strategy(seps):
    """Another ordinal separator, and nothing but the operations the statement names: put, pin, add, get, pop, remove
    (whole key / one member of a set) and count, read back with get and count.  Few keys ('a', 'aSb', 'a_b', 'a.b', 'aS'),
    front pops weighted, so that what pop returns and what it leaves behind for every key is what gets judged."""
    vals = st.lists(st.sampled_from(VALS), min_size=1, max_size=3)
    names = ["put", "put", "add", "add", "pop", "pop", "pop", "pin", "rem", "remval", "get", "cnt"]
    op = st.tuples(st.sampled_from(names), st.sampled_from([0, 0, 3, 5, 9, 9, 7]), vals).map(list)
    return st.fixed_dictionaries({"kind": st.sampled_from(["io", "ioset"]), "suffixy": st.just(False),
                                  "ionsep": st.sampled_from(seps), "reads": st.just("stmt"),
                                  "ops": st.lists(op, min_size=2, max_size=30)})


def _queue_strategy():
    """Insertion-ordered stores used as queues: few keys, values taken from the front and appended at the back again and
    again, so that a key's hidden ordinals no longer start at 0 and have gaps."""
    vals = st.lists(st.sampled_from(VALS), min_size=1, max_size=4)
    names = ["put", "put", "add", "pop", "pop", "pop", "remval", "get", "cnt", "getFirst", "getLast", "pin"]
    op = st.tuples(st.sampled_from(names), st.sampled_from([0, 3, 4]), vals).map(list)
    return st.fixed_dictionaries({"kind": st.sampled_from(["io", "io", "ioset"]), "suffixy": st.just(False),
                                  "ops": st.lists(op, min_size=6, max_size=40)})


def searches(tier):
    q = tier == "quick"
    return [("histories", _strategy(), 800 if q else 3000),
            ("queue-like", _queue_strategy(), 500 if q else 2500),
            ("suffix-shaped-keys", _strategy(suffixy=True), 200 if q else 1500),
            ("other-ordinal-separator/statement-operations", _stmt_strategy(IONSEPS), 200 if q else 1000),
            ("other-ordinal-separator", _strategy(seps=IONSEPS), 300 if q else 1500),
            ("other-ordinal-separator/suffix-shaped-keys", _strategy(suffixy=True, seps=IONSEPS), 100 if q else 500)]


def extra(ck):
    if TOP.startswith(WORK + os.sep):
        shutil.rmtree(TOP, ignore_errors=True)

"""C13 HTTP message parsing does not depend on how bytes are fragmented.

Metamorphic: for a generated well-formed message sequence (requests for the
server parser, responses for the client parser) the bytes are delivered three
ways - in one read, one byte per read, and in a generated partition (random cuts,
every k bytes, exactly between CR and LF, right after every CR / LF) - through
the same driver the servers use (feed, parse() to quiescence, snapshot on end,
re-arm for pipelined messages).  All three must produce identical snapshot lists
(start line fields, headers, body, trailers, chunk parms, persisted, errored /
error, ended) and identical unconsumed bytes.  Secondary, separately labelled
clause: the common result equals the generating spec, which catches a bug that
is the same in all partitions.

Long lines ("long" field of a case): one line of one message - request target,
response reason, a header line, a chunk-size line (through a chunk extension) or
a chunked trailer line - is padded at run time so that its content (without the
terminator) is exactly the tree's httping.MAX_LINE_SIZE + delta bytes, delta in
{-1, 0, +1}.  The oracle is unchanged (same outcome, parsed message or error, for
every delivery of the same bytes; no opinion about where the limit is or whether
such a line is accepted).  To keep a 64 KiB case cheap the "1-byte reads" delivery
hands over the inside of the padding run in one read and everything else - all
bytes before it, the last bytes of the line, its terminator and the rest - one
byte per read; the generated partition and a set of single cuts are placed at the
bytes around the line's terminator (before the last content byte, before CR,
between CR and LF, after LF, ...).
"""
import copy

from hypothesis import strategies as st

from vlib import httpdrive, httpgen
from vlib.core import Result

PID = "C13"
RULE = ("cases: 1-3 pipelined well-formed requests (Requestant) or responses (Respondent): content-length / chunked with "
        "extensions, trailers, hex case, leading zeros / close-delimited / no-body statuses / 100-continue preface, CRLF or "
        "bare-LF head lines, bodies containing CR, LF, CRLF and look-alike framing, and (long-line searches) one start line / "
        "header line / chunk-size line / trailer line of limit-1, limit or limit+1 content bytes, limit = httping.MAX_LINE_SIZE, "
        "cut at every byte around its terminator; x a fragmentation recipe (plus every single cut within the first 48 bytes) x 0-2 service "
        "passes without new bytes after each read. "
        "non-trivial = body contains CR or LF or the message has chunked trailers/extensions or a line at the size limit, and the generated "
        "partition has >= 2 interior cuts; distinct = canonical hash of (specs, recipe)")
ASSUMPTIONS = ["the driver mirrors Server.serviceReqs/serviceReps and Client.serviceResponse (parse, snapshot on end, makeParser)",
               "close-delimited responses are only generated as the last message and get close() after the last fragment",
               "header values carry no leading/trailing blanks (optional whitespace handling is not judged)",
               "long-line cases: the 1-byte-read delivery hands the inside of the 64 KiB padding run over in one read (all other "
               "bytes singly); genuine 1-byte reads over the whole line only in 1 of 16 thorough-tier cases",
               "a message that every delivery rejects alike for a line over the size limit is not compared with its spec"]


def run_one(kind, data, frags, close, method, idle=(0,)):
    if kind == "req":
        return httpdrive.drive_requestant(frags, idle=idle)
    return httpdrive.drive_respondent(frags, close=close, method=method, idle=idle)


def _short(x, limit=160):
    t = repr(x)
    return t if len(t) <= limit else "%s...(%d characters)" % (t[:limit], len(t))


def diff(a, b):
    ra, la, xa = a
    rb, lb, xb = b
    if xa != xb:
        return "raised %r vs %r" % (xa, xb)
    if len(ra) != len(rb):
        return "%d messages vs %d" % (len(ra), len(rb))
    for i, (x, y) in enumerate(zip(ra, rb)):
        for k in x:
            if x[k] != y.get(k):
                return "message %d field %s: %s vs %s" % (i, k, _short(x[k]), _short(y.get(k)))
    if la != lb:
        return "unconsumed bytes %r vs %r" % (la[:60], lb[:60])
    return None


# ---------------------------------------------------------------- long lines

PAD_HEADER = "X-Padding-Line"    # longer than any generated header name (max 12), so it cannot collide with one
PAD_EXT = "padext"               # longer than any generated chunk extension name (max 5)
LONG_WHERE = ("target", "reason", "header", "ext", "trailer")


def line_limit(long):
    """The line size the padded line is measured against: the tree's own constant (so the cases follow a tree that
    changes it) unless the case pins one."""
    return int(long.get("limit") or getattr(httpdrive.httping, "MAX_LINE_SIZE", 65536))


def _padded(spec, long, n):
    """Copy of spec with n padding characters in the line long['where'] names."""
    s = copy.deepcopy(spec)
    pad = "a" * n
    where = long["where"]
    at = int(long.get("at", 0))
    if where in ("ext", "trailer") and s["frame"] != "chunked":
        where = "header"
    if where == "target" and s["t"] != "req" or where == "reason" and s["t"] != "resp":
        where = "header"
    if where == "target":
        s["target"] = s["target"] + pad
    elif where == "reason":
        s["reason"] = s["reason"] + pad
    elif where == "header":
        s["headers"] = [list(h) for h in s["headers"]]
        s["headers"].insert(at % (len(s["headers"]) + 1), [PAD_HEADER, pad])
    elif where == "trailer":
        s["trailers"] = [list(h) for h in s.get("trailers") or []]
        s["trailers"].insert(at % (len(s["trailers"]) + 1), [PAD_HEADER, pad])
    else:  # chunk-size line of chunk number at (the last-chunk line included), through an extension value
        nlines = len(httpgen.chunked_body(s)[1]) + 1
        i = at % nlines
        exts = [[list(e) for e in x] for x in (s.get("exts") or [])]
        while len(exts) <= i:
            exts.append([])
        exts[i].append([PAD_EXT, pad])
        s["exts"] = exts
    return s


def _measure(spec, long, n):
    """(bytes of the message with n pad characters, offset of the line start, offset of its first terminator byte,
    offset just behind the padding run)."""
    a = httpgen.build(_padded(spec, long, n))
    b = httpgen.build(_padded(spec, long, n + 1))
    p = next(i for i in range(len(a)) if a[i] != b[i])     # the byte behind the padding run (never another 'a')
    start = a.rfind(b"\n", 0, p) + 1
    end = a.find(b"\n", p)
    if end > 0 and a[end - 1:end] == b"\r":
        end -= 1
    return a, start, end, p


def apply_long(specs, long):
    """-> (specs with the padded message, data, mark, lo, hi): the padded line has limit + delta content bytes, its
    first terminator byte is data[mark], data[lo:hi] is the padding run."""
    specs = list(specs)
    k = int(long.get("msg", 0)) % len(specs)
    want = line_limit(long) + int(long.get("delta", 0))
    _a, start, end, _p = _measure(specs[k], long, 1)
    n = max(0, 1 + want - (end - start))
    a, start, end, p = _measure(specs[k], long, n)
    specs[k] = _padded(specs[k], long, n)
    off = sum(len(httpgen.build(s)) for s in specs[:k])
    data = b"".join(httpgen.build(s) for s in specs)
    assert data[off:off + len(a)] == a
    return specs, data, off + end, off + p - n, off + p


def sparse_single(data, lo, hi, keep=24):
    """One byte per read, except that the inside of data[lo:hi] (the padding run without its first and last keep
    bytes) arrives in one read."""
    lo, hi = lo + keep, hi - keep
    if hi - lo < 64:
        return [data[i:i + 1] for i in range(len(data))]
    return [data[i:i + 1] for i in range(lo)] + [data[lo:hi]] + [data[i:i + 1] for i in range(hi, len(data))]


def fragments(data, recipe, mark=None):
    if recipe["mode"] != "near":
        return httpgen.fragments(data, recipe)
    n = len(data)
    base = n // 2 if mark is None else mark
    pts = {base + o for o in recipe.get("offs", [])}
    if n > 1:
        pts |= {p % (n - 1) + 1 for p in recipe.get("extra", [])}
    out, prev = [], 0
    for p in sorted(p for p in pts if 0 < p < n):
        out.append(data[prev:p])
        prev = p
    out.append(data[prev:])
    return out


def _errs(x):
    res, _left, raised = x
    return [m["errored"] for m in res], raised


def _control_fails(case):
    """The same case with the long line clearly below the limit: does it fail as well (then the limit is not the cause)?"""
    ctl = dict(case)
    ctl["long"] = dict(case["long"], delta=min(int(case["long"].get("delta", 0)), 0) - 8, control=True)
    return bool(run_case(ctl).failures)


def run_case(case):
    r = Result()
    kind = case["k"]
    specs = case["msgs"]
    long = case.get("long")
    mark = None
    if long:
        specs, data, mark, lo, hi = apply_long(specs, long)
    else:
        data = b"".join(httpgen.build(s) for s in specs)
    close = kind == "resp" and specs[-1]["frame"] == "close"
    method = "GET"
    whole = run_one(kind, data, [data], close, method)
    if long and not case.get("full1"):
        single = run_one(kind, data, sparse_single(data, lo, hi), close, method)
    else:
        single = run_one(kind, data, [data[i:i + 1] for i in range(len(data))], close, method)
    frags = fragments(data, case["cuts"], mark)
    idle = tuple(case.get("idle") or (0,))
    part = run_one(kind, data, frags, close, method, idle)
    lf_head = any(s.get("eol") == "lf" for s in specs)
    d = diff(whole, single)
    other = single
    which = "one read vs 1-byte reads"
    if long and not case.get("full1"):
        which += " (inside of the padding in one read)"
    if d is None:
        d = diff(whole, part)
        other = part
        which = "one read vs partition %r" % (case["cuts"]["mode"],)
    if d is None and long:
        # every single cut at the bytes around the terminator of the long line, the rest in one read
        for at in range(max(1, mark - 3), min(len(data) - 1, mark + 4) + 1):
            one = run_one(kind, data, [data[:at], data[at:]], close, method)
            d = diff(whole, one)
            if d is not None:
                other = one
                which = "one read vs a single cut %+d bytes from the terminator of the long line (byte %d)" % (at - mark, at)
                break
    if d is None and not long:
        # every single cut within the first bytes of the data (start line / interim response / first header lines), the
        # rest in one read: the shapes in which one parser object is re-used across lines that arrive together
        # (not for the 64 KiB cases: the other searches cover these shapes at a fraction of the cost)
        for at in range(1, min(48, len(data) - 1) + 1):
            one = run_one(kind, data, [data[:at], data[at:]], close, method)
            d = diff(whole, one)
            if d is not None:
                other = one
                which = "one read vs a single cut after byte %d" % at
                break
    if d is not None:
        sig = "C13/fragmentation-dependent"
        if long and _errs(whole) != _errs(other) and not long.get("control") and not _control_fails(case):
            # classification only: a line near the size limit is an error in one delivery and not in another, and the
            # same case with that line a few bytes shorter is parsed alike by every delivery
            sig = "C13/fragmentation-dependent(line at the size limit accepted or rejected depending on the reads)"
        elif lf_head and b"\r\n" in data:
            sig = "C13/fragmentation-dependent(bare-LF head with CRLF later in the data)"
        if long:
            which = "%s line of %d%+d bytes; %s" % (long["where"], line_limit(long), int(long.get("delta", 0)), which)
        r.fail(sig, "%s: %s" % (which, d))
    elif long and (whole[2] or any(m["errored"] for m in whole[0])):
        # the statement does not say where a size limit lies: a long line that every delivery rejects alike is fine
        r.labels.append("long-line-rejected-alike")
    else:
        # secondary clause: agrees with the generating spec
        res, left, raised = whole
        if raised or len(res) != len(specs) or left:
            # a non-persistent message ends the connection: later messages are legitimately unparsed
            cut = next((i for i, s in enumerate(specs) if not _persists(kind, s)), len(specs) - 1)
            if raised or len(res) != min(len(specs), cut + 1):
                r.fail("C13/spec-mismatch(count)", "parsed %d of %d messages, raised=%r leftover=%r" % (
                    len(res), len(specs), raised, left[:40]))
        for i, got in enumerate(res):
            exp = httpgen.expected(specs[i])
            for k, v in exp.items():
                if k == "persisted" and kind == "resp":
                    continue
                if got.get(k) != v:
                    r.fail("C13/spec-mismatch(%s)" % k, "message %d field %s: parsed %r, spec %r" % (i, k, got.get(k), v))
                    break
            if r.failures:
                break
    body_nl = any((b"\r" in s["body"] or b"\n" in s["body"]) for s in specs)
    fancy = any(s["frame"] == "chunked" and (s.get("trailers") or any(s.get("exts") or [])) for s in specs)
    r.nontrivial = (body_nl or fancy or bool(long)) and len(frags) >= 3
    if long:
        r.labels.append("long-line:%s%+d" % (long["where"], int(long.get("delta", 0))))
        if case.get("full1"):
            r.labels.append("long-line-genuine-1-byte-reads")
    r.labels.append(kind)
    r.labels.append("cuts:" + case["cuts"]["mode"])
    if any(idle):
        r.labels.append("idle-passes-between-reads")
    if lf_head:
        r.labels.append("lf-head")
    if len(specs) > 1:
        r.labels.append("pipelined")
    for s in specs:
        r.labels.append("frame:" + s["frame"])
    return r


def _persists(kind, spec):
    if kind == "req":
        return httpgen.expected(spec)["persisted"]
    return True


def _case(kind, lf=True):
    eols = ("crlf", "crlf", "lf") if lf else ("crlf",)
    if kind == "req":
        msgs = st.lists(httpgen.request_spec(eols=eols), min_size=1, max_size=3)
    else:
        delim = httpgen.response_spec(eols=eols, frames=("len", "chunked", "nobody"))
        last = httpgen.response_spec(eols=eols)
        msgs = st.tuples(st.lists(delim, max_size=2), last).map(lambda t: t[0] + [t[1]])
    return st.fixed_dictionaries({"k": st.just(kind), "msgs": msgs, "cuts": httpgen.cuts(),
                                  "idle": st.one_of(st.just([0]), st.just([0]), st.lists(st.integers(0, 2), min_size=1, max_size=4))})


def _long_cuts():
    """Partitions for a case with a 64 KiB line: cuts at chosen bytes around the terminator of the long line, or one
    of the general recipes (in-crlf and after-lf cut every terminator, so also that of the long line); no short
    fixed stride, which would be tens of thousands of reads."""
    near = st.fixed_dictionaries({"mode": st.just("near"),
                                  "offs": st.lists(st.integers(-3, 4), min_size=1, max_size=4, unique=True),
                                  "extra": st.lists(st.integers(0, 10 ** 6), max_size=2)})
    stride = st.fixed_dictionaries({"mode": st.just("every"), "k": st.integers(3000, 40000)})
    return st.one_of(near, near, stride,
                     httpgen.cuts().filter(lambda c: c["mode"] != "every"))


@st.composite
def _long_case(draw, kind, full1=False):
    where = draw(st.sampled_from(["target" if kind == "req" else "reason", "header", "ext", "trailer"]))
    n = draw(st.integers(1, 2))
    k = draw(st.integers(0, n - 1))
    msgs = []
    for i in range(n):
        if i == k and where in ("ext", "trailer"):
            frames = ("chunked",)
        elif kind == "req":
            frames = ("none", "len", "chunked")
        else:
            frames = ("len", "chunked", "nobody") + (("close",) if i == n - 1 else ())
        mk = httpgen.request_spec if kind == "req" else httpgen.response_spec
        spec = draw(mk(frames=frames, max_body=40))
        if kind == "req" and i < k:
            # the long line is to be reached: requests in front of it keep the connection
            spec["version"] = "HTTP/1.1"
            if (spec.get("conn") or "").lower() == "close":
                spec["conn"] = None
        msgs.append(spec)
    case = {"k": kind, "msgs": msgs, "cuts": draw(_long_cuts()),
            "idle": draw(st.one_of(st.just([0]), st.lists(st.integers(0, 2), min_size=1, max_size=4))),
            "long": {"msg": k, "where": where, "at": draw(st.integers(0, 7)), "delta": draw(st.sampled_from([0, -1, 0, 1]))}}
    if full1 and draw(st.integers(0, 15)) == 7:      # an interior value: the end points are drawn far more often
        case["full1"] = True       # genuine 1-byte reads over all 64 KiB (about 2 s a case)
    return case


def searches(tier):
    q = tier == "quick"
    return [("long-line-requests", _long_case("req", full1=not q), 40 if q else 200),
            ("long-line-responses", _long_case("resp", full1=not q), 40 if q else 200),
            ("requests", _case("req"), 700 if q else 9000),
            ("responses", _case("resp"), 700 if q else 9000),
            # CRLF-only heads: explores behind the bare-LF finding on clean cases
            ("requests-crlf", _case("req", lf=False), 400 if q else 5000),
            ("responses-crlf", _case("resp", lf=False), 400 if q else 5000)]

"""C13 HTTP message parsing does not depend on how bytes are fragmented.

Metamorphic: for a generated well-formed message sequence (requests for the
server parser, responses for the client parser) the bytes are delivered three
ways - in one read, one byte per read, and in a generated partition (random cuts,
every k bytes, exactly between CR and LF, right after every CR / LF) - through
the same driver the servers use (feed, parse() to quiescence, snapshot on end,
re-arm for pipelined messages).  All three must produce identical snapshot lists
(start line fields, headers, body, trailers, chunk parms, persisted, errored /
error, ended) and identical unconsumed bytes.  Secondary, separately labelled
clause: the common result equals the generating spec, which catches a bug that
is the same in all partitions.
"""
from hypothesis import strategies as st

from vlib import httpdrive, httpgen
from vlib.core import Result

PID = "C13"
RULE = ("cases: 1-3 pipelined well-formed requests (Requestant) or responses (Respondent): content-length / chunked with "
        "extensions, trailers, hex case, leading zeros / close-delimited / no-body statuses / 100-continue preface, CRLF or "
        "bare-LF head lines, bodies containing CR, LF, CRLF and look-alike framing; x a fragmentation recipe (plus every single cut within the first 48 bytes) x 0-2 service "
        "passes without new bytes after each read. "
        "non-trivial = body contains CR or LF or the message has chunked trailers/extensions, and the generated "
        "partition has >= 2 interior cuts; distinct = canonical hash of (specs, recipe)")
ASSUMPTIONS = ["the driver mirrors Server.serviceReqs/serviceReps and Client.serviceResponse (parse, snapshot on end, makeParser)",
               "close-delimited responses are only generated as the last message and get close() after the last fragment",
               "header values carry no leading/trailing blanks (optional whitespace handling is not judged)"]


def run_one(kind, data, frags, close, method, idle=(0,)):
    if kind == "req":
        return httpdrive.drive_requestant(frags, idle=idle)
    return httpdrive.drive_respondent(frags, close=close, method=method, idle=idle)


def diff(a, b):
    ra, la, xa = a
    rb, lb, xb = b
    if xa != xb:
        return "raised %r vs %r" % (xa, xb)
    if len(ra) != len(rb):
        return "%d messages vs %d" % (len(ra), len(rb))
    for i, (x, y) in enumerate(zip(ra, rb)):
        for k in x:
            if x[k] != y.get(k):
                return "message %d field %s: %r vs %r" % (i, k, x[k], y.get(k))
    if la != lb:
        return "unconsumed bytes %r vs %r" % (la[:60], lb[:60])
    return None


def run_case(case):
    r = Result()
    kind = case["k"]
    specs = case["msgs"]
    data = b"".join(httpgen.build(s) for s in specs)
    close = kind == "resp" and specs[-1]["frame"] == "close"
    method = "GET"
    whole = run_one(kind, data, [data], close, method)
    single = run_one(kind, data, [data[i:i + 1] for i in range(len(data))], close, method)
    frags = httpgen.fragments(data, case["cuts"])
    idle = tuple(case.get("idle") or (0,))
    part = run_one(kind, data, frags, close, method, idle)
    lf_head = any(s.get("eol") == "lf" for s in specs)
    d = diff(whole, single)
    which = "one read vs 1-byte reads"
    if d is None:
        d = diff(whole, part)
        which = "one read vs partition %r" % (case["cuts"]["mode"],)
    if d is None:
        # every single cut within the first bytes of the data (start line / interim response / first header lines), the
        # rest in one read: the shapes in which one parser object is re-used across lines that arrive together
        for at in range(1, min(48, len(data) - 1) + 1):
            one = run_one(kind, data, [data[:at], data[at:]], close, method)
            d = diff(whole, one)
            if d is not None:
                which = "one read vs a single cut after byte %d" % at
                break
    if d is not None:
        sig = "C13/fragmentation-dependent"
        if lf_head and b"\r\n" in data:
            sig = "C13/fragmentation-dependent(bare-LF head with CRLF later in the data)"
        r.fail(sig, "%s: %s" % (which, d))
    else:
        # secondary clause: agrees with the generating spec
        res, left, raised = whole
        if raised or len(res) != len(specs) or left:
            # a non-persistent message ends the connection: later messages are legitimately unparsed
            cut = next((i for i, s in enumerate(specs) if not _persists(kind, s)), len(specs) - 1)
            if raised or len(res) != min(len(specs), cut + 1):
                r.fail("C13/spec-mismatch(count)", "parsed %d of %d messages, raised=%r leftover=%r" % (
                    len(res), len(specs), raised, left[:40]))
        for i, got in enumerate(res):
            exp = httpgen.expected(specs[i])
            for k, v in exp.items():
                if k == "persisted" and kind == "resp":
                    continue
                if got.get(k) != v:
                    r.fail("C13/spec-mismatch(%s)" % k, "message %d field %s: parsed %r, spec %r" % (i, k, got.get(k), v))
                    break
            if r.failures:
                break
    body_nl = any((b"\r" in s["body"] or b"\n" in s["body"]) for s in specs)
    fancy = any(s["frame"] == "chunked" and (s.get("trailers") or any(s.get("exts") or [])) for s in specs)
    r.nontrivial = (body_nl or fancy) and len(frags) >= 3
    r.labels.append(kind)
    r.labels.append("cuts:" + case["cuts"]["mode"])
    if any(idle):
        r.labels.append("idle-passes-between-reads")
    if lf_head:
        r.labels.append("lf-head")
    if len(specs) > 1:
        r.labels.append("pipelined")
    for s in specs:
        r.labels.append("frame:" + s["frame"])
    return r


def _persists(kind, spec):
    if kind == "req":
        return httpgen.expected(spec)["persisted"]
    return True


def _case(kind, lf=True):
    eols = ("crlf", "crlf", "lf") if lf else ("crlf",)
    if kind == "req":
        msgs = st.lists(httpgen.request_spec(eols=eols), min_size=1, max_size=3)
    else:
        delim = httpgen.response_spec(eols=eols, frames=("len", "chunked", "nobody"))
        last = httpgen.response_spec(eols=eols)
        msgs = st.tuples(st.lists(delim, max_size=2), last).map(lambda t: t[0] + [t[1]])
    return st.fixed_dictionaries({"k": st.just(kind), "msgs": msgs, "cuts": httpgen.cuts(),
                                  "idle": st.one_of(st.just([0]), st.just([0]), st.lists(st.integers(0, 2), min_size=1, max_size=4))})


def searches(tier):
    q = tier == "quick"
    return [("requests", _case("req"), 700 if q else 9000),
            ("responses", _case("resp"), 700 if q else 9000),
            # CRLF-only heads: explores behind the bare-LF finding on clean cases
            ("requests-crlf", _case("req", lf=False), 400 if q else 5000),
            ("responses-crlf", _case("resp", lf=False), 400 if q else 5000)]

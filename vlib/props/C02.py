"""C02 Forced exits are nested: reverse enter order, children before parent.

Same generated programs as C01 (faults, limits, runtime extend/remove, nesting).
Oracle = ordering predicate on the trace, no reference scheduler:

  final stop   S = doers force-closed (cease) by the stop of the run.  Every one
               has its exit before do() returns/raises; for d1, d2 in S entered in
               that order by the same scheduler, exit(d2) precedes exit(d1); a DoDoer's children exit
               before the DoDoer's own exit completes.
  remove()     the same predicate on the set of doers force-closed inside one
               remove() call.
Doers that end by abort (the faulting doer and the DoDoers the exception unwinds
through) are not members of S: they necessarily exit first.
A doer that removed itself from its scheduler's list keeps running (documented and
upstream-tested); if it is still alive at the stop it is a member of S like any
other and its exit is ordered by when it was entered.  A pair (a, b) where b was
added by a call made from a's own enter context (nested enters) is ordered by the
START of the enters, i.e. by the order of the enter events any observer sees: a's
enter began first, so b exits first (own signature).
"""
from vlib import sched, schedgen
from vlib.core import Result
from vlib.props import C01

PID = "C02"
RULE = ("cases: as C01, biased to faults in the middle of a cycle. non-trivial = the stop force-closes >= 3 doers, or "
        ">= 2 doers of which one is nested in a DoDoer that is also force-closed; distinct = canonical hash of the program")
ASSUMPTIONS = C01.ASSUMPTIONS + ["enter order = order of the enter events in the trace (a DoDoer logs its enter before its children)"]


def order_check(run, group, what):
    """group: list of (name, enter_seq, exit_seq). Returns [(message, pair)] for every pair out of order."""
    out = []
    g = sorted(group, key=lambda t: t[1])
    for i in range(len(g)):
        for j in range(i + 1, len(g)):
            a, b = g[i], g[j]
            if not (b[2] < a[2]):
                # b added by a call made from a's own enter context: a's enter began first (the order of the enter events),
                # so a "was entered" first and b exits first; reported under its own signature
                nested = sched.nested_enter(run, a[1], a[0], b[1])
                out.append(("%s: %s entered before %s but exited before it (enter seq %d < %d, exit seq %d < %d)" % (
                    what, a[0], b[0], a[1], b[1], a[2], b[2]) +
                    (" [%s was entered from inside the enter context of %s]" % (b[0], a[0]) if nested else ""),
                    (a[0], b[0]) if not nested else (a[0], b[0], "nested")))
    return out


def closed_groups(run):
    """Final-stop group and one group per remove() call: [(what, [(name, eseq, xseq)])]."""
    ev = run.ev[:run.trace.returned]
    windows = [(c["seq0"], c.get("seq1", 10 ** 9), c) for c in run.calls if c["op"] == "remove"]
    cur_enter = {}
    zseq = {}
    final, per_call = [], {}
    for e in ev:
        seq, code, name = e[0], e[1], e[2]
        if code == "E":
            cur_enter[name] = seq
            zseq.pop(name, None)
        elif code == "Z":
            zseq[name] = seq
        elif code == "X" and name in zseq:
            z = zseq.pop(name)
            w = next((k for k, (a, b, _c) in enumerate(windows) if a <= z < b), None)
            item = (name, cur_enter.get(name, -1), seq)
            if w is None:
                final.append(item)
            else:
                per_call.setdefault(w, []).append(item)
    groups = [("final stop", final)]
    run.group_call = {}
    for k, items in sorted(per_call.items()):
        what = "remove() call #%d by %s" % (k, windows[k][2]["by"])
        run.group_call[what] = windows[k][2]
        groups.append((what, items))
    return groups


def judge(prog, run, r):
    if run.exc == "Runaway":
        r.fail("C02/run-did-not-terminate", "")
        return []
    # every started lifecycle must have exited before the run returned
    lcs = sched.lifecycles(run.ev, run.trace.returned)
    for name, lst in lcs.items():
        if lst and not lst[-1].endswith("X"):
            r.fail("C02/alive-after-run", "%s lifecycle %r not exited when do() returned/raised (exc=%r)" % (
                name, lst[-1], run.exc))
            return []
    if run.late:
        r.fail("C02/exit-after-run-returned", "%r" % [(e[1], e[2]) for e in run.late][:6])
        return []
    groups = closed_groups(run)
    # a doer that was entered a second time while its first lifecycle was still running (two generators for one doer) has
    # no single place in the enter order: that defect is C01's / C06's to report, its exits are not ordered here
    openl, twice = set(), set()
    for e in run.ev:
        if e[1] == "E":
            if e[2] in openl:
                twice.add(e[2])
            openl.add(e[2])
        elif e[1] == "X":
            openl.discard(e[2])
    if twice:
        groups = [(what, [it for it in items if it[0] not in twice]) for what, items in groups]
    hostname = {}
    for n, h in run.ctx.host.items():
        hostname[n] = getattr(h, "vname", None) or "doist"

    def host_at(name, enter_seq):
        """Host of the lifecycle of `name` that was entered at enter_seq (a pool doer can be extended into one
        scheduler, be closed, and later be extended into another)."""
        best = None
        for seq, n, h in run.ctx.host_log:
            if n == name and seq <= enter_seq:
                best = h
        if best is None:
            return hostname.get(name, "?")
        return getattr(best, "vname", None) or "doist"
    seen_sigs = set()
    for what, items in groups:
        # the statement is per scheduler: the doers one scheduler closes are its own doers, so the
        # reverse-enter-order clause is applied among the doers of one host (an aborting DoDoer has to close
        # its children while the exception unwinds, before outer schedulers close theirs)
        by_host = {}
        gone = set()
        for it in items:
            h = host_at(it[0], it[1])
            members = run.doers if h == "doist" else run.kids.get(h, [])
            call = getattr(run, "group_call", {}).get(what)
            if call is not None and call["host"] == h:
                members = call["before"]          # the doers the scheduler had when remove() was called on it
            if it[0] not in members:
                # a doer that removed itself (public, upstream-tested: it keeps running until it returns) is no longer
                # listed but it is still alive and it was entered: "every still-alive doer is exited ... in the reverse
                # of the order the doers were entered" orders its forced exit by when it was entered, like any other
                gone.add(it[0])
            by_host.setdefault(h, []).append(it)
        for h, sub in sorted(by_host.items()):
            # one failure per kind of pair (a case may show a listed finding and something else at once: neither hides
            # the other)
            for msg, pair in order_check(run, sub, "%s, doers of %s" % (what, h)):
                midcycle = run.exc is not None or what.startswith("remove")
                nested = len(pair) == 3
                pair = pair[:2]
                selfrem = [n for n in pair if n in gone]
                # entered by an extend() made from another doer's enter context, i.e. while the scheduler was still
                # entering the doers listed before it: its list position is behind doers that were entered after it
                inenter = [n for n, es, _x in sub if n in pair and any(
                    c["op"] == "extend" and c.get("where") == "enter" and c["seq0"] <= es < c.get("seq1", 10 ** 9)
                    for c in run.calls)]
                sig = ("C02/exit-order-of-doer-entered-from-an-enter-context" if nested else
                       "C02/exit-order-after-self-remove" if selfrem else
                       "C02/exit-order-after-enter-context-extend" if inenter else "C02/exit-order")
                if sig in seen_sigs:
                    continue
                seen_sigs.add(sig)
                r.fail(sig,
                       msg + (" [stop in the middle of a cycle]" if midcycle else " [stop at a cycle boundary]") +
                       (" [%s had removed itself from %s.doers and was still running]" % (", ".join(selfrem), h)
                        if selfrem else "") +
                       (" [%s was added by extend() from another doer's enter context]" % ", ".join(inenter)
                        if inenter else ""))
    if seen_sigs:
        return groups
    # children before parent: child X between parent's 'x' (exit begin) and parent's 'X'
    parent_of = {n: h for n, h in hostname.items() if h != "doist"}
    xs = {}
    for e in run.ev:
        if e[1] == "X":
            xs.setdefault(e[2], []).append(e[0])
    for what, items in groups:
        names = {n for n, _e, _x in items}
        for n, _e, x in items:
            p = parent_of.get(n)
            if p in names:
                px = next(xx for nn, _ee, xx in items if nn == p)
                if not x < px:
                    r.fail("C02/parent-before-child", "%s: DoDoer %s exited (seq %d) before its child %s (seq %d)" % (
                        what, p, px, n, x))
                    return groups
    return groups


def run_case(prog):
    r = Result()
    run = sched.run_program(prog, prog.get("mode") or "do", collect="auto")
    groups = judge(prog, run, r)
    final = groups[0][1] if groups else []
    names = {n for n, _e, _x in final}
    nested = any(getattr(run.ctx.host.get(n), 'vname', None) in names for n in names)
    r.nontrivial = len(final) >= 3 or (len(final) >= 2 and nested)
    if run.exc:
        r.labels.append("stop:" + run.exc.split(":")[0])
    elif run.done:
        r.labels.append("stop:completed")
    else:
        r.labels.append("stop:limit")
    if nested:
        r.labels.append("nested-group")
    if len(groups) > 1:
        r.labels.append("remove-groups")
    if any(len(items) >= 2 for _w, items in groups[1:]):
        r.labels.append("remove-group>=2")
    r.labels.append("mode:" + (prog.get("mode") or "do"))
    return r


def searches(tier):
    q = tier == "quick"
    full, nomem = C01._strategies()
    return [("enter-context-calls", C01._enter_ctx_strategy(), 300 if q else 5000),
            ("faults", nomem, 600 if q else 8000),
            ("faults+membership", full, 600 if q else 8000),
            ("group-membership", C01._group_strategy(), 600 if q else 8000),
            ("same-cycle-calls", schedgen.same_cycle_program(), 400 if q else 6000)]

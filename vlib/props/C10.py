"""C10 Connection-level socket faults never escape servicing.

(a) complete enumeration (exhaustive: true): every connection-level error named by
    the property {ECONNRESET, EPIPE, ENETRESET, ENETUNREACH, EHOSTUNREACH, ENETDOWN,
    EHOSTDOWN, ETIMEDOUT, ECONNREFUSED, TLS EOF} x call {send, recv, handshake} x
    endpoint class {Client, ClientTls, Remoter, RemoterTls} x position {first call,
    after some healthy traffic}.  The service method must return without raising
    and the endpoint must be marked cutoff (aborted for a handshake in progress).
(b) generated fault schedules: a tcp.Server (real code on in-memory accepts) with
    2-4 echo connections; one or more server-side sockets fail with a generated
    error at a generated call index while all clients keep exchanging data.
    Server.service() must never raise, the hit connection must be cut off, and every
    other connection must get all of its bytes echoed back.
(c) connection set-up fault points: the peer goes away (RST, or the connection dies with another connection-level
    errno) right after the TCP connection is established, at every point of the adoption of the new socket: between
    any two of the address queries (getpeername / getsockname) hio makes on it, and at the TLS wrap step - on the
    server side (new connection arriving on a Server / ServerTls that has healthy siblings) and on the client side
    (Client / ClientTls service loop whose caller reopens on cutoff).  Enumerated completely and mixed into the
    generated schedules.
"""
import errno
import itertools
import ssl

from hypothesis import strategies as st

from vlib import fakenet
from vlib.core import Result, hio_frame

PID = "C10"
LEVEL = "fault_enumeration"
RULE = ("cases: (a) enumeration of 10 errors x {send, recv, handshake} x 4 endpoint classes x 2 positions (complete); (b) "
        "generated schedules: 2-4 connections on one tcp.Server, per-step client payloads, faults = (connection, send|recv, "
        "error, call index) and peer resets (abortive close with or without bytes still queued: recv delivers them, then "
        "ECONNRESET, send gives EPIPE, getpeername ENOTCONN), with or without a wire log on the server; (c) schedules on one ServerTls: per connection a scripted handshake (0-4 would-blocks, then success or a connection-level error), peers that give up - also mid-handshake - and reconnect from the same address before the next service call. non-trivial = a fault hits a connection while a sibling connection still has traffic pending; "
        "distinct = canonical hash of the case")
ASSUMPTIONS = ["errors are injected by the harness' in-memory sockets with the same exception types and errno values the "
               "kernel / ssl module raise (OSError(errno), ssl.SSLEOFError(SSL_ERROR_EOF))",
               "only the error kinds the property lists are injected; other errnos are allowed to propagate",
               "a connection that died (RST / timed out) behaves as on Linux (verified on real loopback sockets): getpeername "
               "raises ENOTCONN, getsockname still answers, recv delivers bytes already queued and then raises the error left "
               "on the socket, send raises EPIPE; the TLS wrap step probes the socket the way ssl.SSLSocket._create does "
               "(getpeername; on ENOTCONN a recv(1) whose error propagates, and whose data makes it raise "
               "ssl.SSLError(ENOTCONN, 'Closed before TLS handshake with data in recv buffer.'))"]

ERRS = fakenet.ERRNOS + ["SSLEOF"]
CLASSES = ["Client", "ClientTls", "Remoter", "RemoterTls"]


# ------------------------------------------------------------------ connection set-up fault points

class C10Socket(fakenet.FakeSocket):
    """FakeSocket whose connection can die (peer RST, or another connection-level error left on the socket) right after
    it was established: after `die_at` = k address queries (getpeername / getsockname) made on it, or when the TLS wrap
    step begins (`die_at` = "wrap").  A dead connection behaves as a Linux TCP socket in CLOSE state does: getpeername
    raises ENOTCONN, getsockname still answers, recv hands out what is queued and then raises the error, send raises EPIPE."""

    def __init__(self, *pa, **kwa):
        super().__init__(*pa, **kwa)
        self.die_at = None
        self.die_err = "ECONNRESET"
        self.addr_calls = 0
        self.landed = None            # where the death landed: ["addr", k] | ["wrap"] | ["end"]
        self.connect_script = []      # client side: ["wait"] tokens = connect_ex reports in progress
        self.connect_calls = 0
        self.established = False

    def die(self, where):
        if self.landed is None:
            self.landed = where
            self.reset_by_peer()
            if self.peer is not None:
                self.peer.close()

    def _addr_query(self):
        if isinstance(self.die_at, int) and self.landed is None and self.addr_calls >= self.die_at:
            self.die(["addr", self.addr_calls])
        self.addr_calls += 1

    def getpeername(self):
        self._addr_query()
        try:
            return super().getpeername()
        except OSError:
            self.calls.append(("getpeername-fail", "ENOTCONN"))
            raise

    def getsockname(self):
        self._addr_query()
        return super().getsockname()

    def recv(self, bs):
        if (self.landed is not None and self.die_err != "ECONNRESET" and not self.closed and not self.inbuf
                and not self.recv_script):
            self.calls.append(("recv-fail", self.die_err))
            raise fakenet.make_error(self.die_err, self.tls)
        return super().recv(bs)

    def do_handshake(self):
        if self.landed is not None:
            raise fakenet.make_error(self.die_err, True)
        return super().do_handshake()

    def connect_ex(self, ha):
        self.connect_calls += 1
        if self.closed:
            raise OSError(errno.EBADF, "Bad file descriptor")
        if self.landed is not None:
            return errno.ECONNRESET
        if self.connect_script:
            self.connect_script.pop(0)
            return errno.EINPROGRESS if self.connect_calls == 1 else errno.EALREADY
        self.established = True
        return 0


class C10TlsContext(fakenet.FakeTlsContext):
    """FakeTlsContext whose wrap_socket probes the socket the way ssl.SSLSocket._create does before it wraps it."""

    def wrap_socket(self, sock, server_side=True, do_handshake_on_connect=False, **kwa):
        if getattr(sock, "die_at", None) == "wrap":
            sock.die(["wrap"])
        try:
            sock.getpeername()
        except OSError as ex:
            if ex.errno != errno.ENOTCONN:
                raise
            try:
                data = sock.recv(1)
            except (BlockingIOError, ssl.SSLWantReadError):
                data = b""
            except OSError as ex2:
                if ex2.errno not in (errno.ENOTCONN, errno.EINVAL):
                    raise
                data = b""
            if data:
                raise ssl.SSLError(errno.ENOTCONN, "Closed before TLS handshake with data in recv buffer.")
        return super().wrap_socket(sock, server_side=server_side, do_handshake_on_connect=do_handshake_on_connect, **kwa)


def c10_pair(srv, port):
    """New connection to the fake servant whose both ends are C10Sockets; returns (client end, server end)."""
    a = C10Socket("c%d" % port, ("127.0.0.1", port), (srv.eha[0], srv.eha[1]))
    b = C10Socket("s%d" % port, (srv.eha[0], srv.eha[1]), ("127.0.0.1", port))
    a.peer, b.peer = b, a
    srv.pending.append(b)
    return a, b


class C10Dialer(fakenet.tcpc.Client):
    """tcp.Client whose open() takes its socket from the harness instead of the kernel; reopen / accept / connect /
    service* / close are the real code."""

    def __init__(self, factory, **kwa):
        self.c10_factory = factory
        super().__init__(**kwa)

    def open(self):
        self.accepted = False
        self.connected = False
        self.cutoff = False
        self.cs = self.c10_factory()
        self.cs.setblocking(0)
        self.opened = True
        return True


class C10DialerTls(C10Dialer, fakenet.tcpc.ClientTls):
    def __init__(self, factory, **kwa):
        kwa.setdefault("context", C10TlsContext())
        super().__init__(factory, **kwa)


SETUP_FRAMES = ("serviceAxes", "wrap", "accept")


def raise_sig(default, who, ex, armed):
    """Signature of an exception that escaped servicing: when a connection died while it was being adopted and the
    exception comes out of the adoption code, name the place; otherwise the check's long-standing signature."""
    fn = (hio_frame(ex) or "").rsplit(":", 1)[-1]
    if armed and fn in SETUP_FRAMES:
        return "C10/setup-fault-raised:%s:%s" % (who, fn)
    return default


def arrive_late(srv, lates, stepno, nsteps, out):
    for i, lt in enumerate(lates):
        if lt["step"] % nsteps != stepno:
            continue
        a, b = c10_pair(srv, 41901 + i)
        b.die_at = lt["at"]
        b.die_err = lt.get("err") or "ECONNRESET"
        if lt.get("data"):
            a.send(lt["data"])
        out.append((41901 + i, a, b))


def land_late(late_socks):
    """The peer of every late connection is gone by the end of the service pass that adopted it, at the latest."""
    for _port, _a, b in late_socks:
        b.die(["end"])


def judge_late(srv, late_socks, r, who):
    for port, _a, b in late_socks:
        ca = ("127.0.0.1", port)
        cx = getattr(srv, "cxes", {}).get(ca)
        if cx is not None and cx.cs is b and not getattr(cx, "aborted", False):
            r.fail("C10/dead-connection-still-pending:%s" % who, "the connection from port %d died (%s) while it was being "
                   "adopted but the server still holds it among its pending handshakes" % (port, b.landed))
            return False
        ix = srv.ixes.get(ca)
        if ix is not None and ix.cs is b and not ix.cutoff:
            r.fail("C10/dead-connection-not-cutoff:%s" % who, "the connection from port %d died (%s, %s) but after 10+ more "
                   "service passes cutoff is %r" % (port, b.landed, b.die_err, ix.cutoff))
            return False
        r.labels.append("dies-during-adoption:%s" % b.landed[0])
    return True


def run_matrix(case, r):
    cls, call, err, pos = case["cls"], case["call"], case["err"], case["pos"]
    tlsclass = cls in ("ClientTls", "RemoterTls")
    sa, sb = fakenet.pipe()
    if cls in ("Client", "ClientTls"):
        mine, other = sa, sb
    else:
        mine, other = sb, sa
    E = fakenet.make_endpoint(cls, mine, bs=32)
    r.labels.append("matrix:%s" % call)
    if call == "handshake":
        E.connected = False
        mine.hs_script = ([["want"]] if pos else []) + [["fail", err]]
        try:
            for _ in range(1 + pos):
                if cls == "ClientTls":
                    E.serviceConnect() if False else E.handshake()
                else:
                    E.handshake()
        except Exception as ex:      # noqa: BLE001
            r.fail("C10/raised:%s:handshake" % cls, "%s.handshake() raised %s(%s) for injected %s" % (
                cls, type(ex).__name__, ex, err))
            return
        if cls == "RemoterTls" and not E.aborted:
            r.fail("C10/not-aborted:%s" % cls, "handshake failed with %s but aborted is %r" % (err, E.aborted))
        if cls == "ClientTls" and not (E.cutoff or getattr(E, "aborted", False)):
            r.fail("C10/not-marked:%s" % cls, "handshake failed with %s but neither cutoff nor aborted is set" % err)
        if E.connected:
            r.fail("C10/connected-after-failed-handshake:%s" % cls, "%s" % err)
        return
    if pos:      # some healthy traffic first
        other.send(b"hello")
        E.serviceReceives()
        E.tx(b"0123456789")
        E.serviceSends()
    if call == "send":
        mine.send_script = [["fail", err]]
        E.tx(b"payload-to-send")
        fn = E.serviceSends
    else:
        mine.recv_script = [["fail", err]]
        other.send(b"more")
        fn = E.serviceReceives
    try:
        fn()
    except Exception as ex:      # noqa: BLE001
        r.fail("C10/raised:%s:%s:%s" % (cls, call, err), "%s.%s raised %s(%s)" % (cls, fn.__name__, type(ex).__name__, ex))
        return
    if not E.cutoff:
        r.fail("C10/not-cutoff:%s:%s:%s" % (cls, call, err), "cutoff is %r after injected %s on %s" % (E.cutoff, err, call))


def run_schedule(case, r):
    wl = None
    if case.get("wl"):
        from hio.core import wiring
        wl = wiring.WireLog(samed=False, filed=False, fmt=b"%(data)b", name="c10")
        wl.reopen()
    srv = fakenet.FakeServant(bs=32, wl=wl)
    n = case["n"]
    clients = [srv.connect(41000 + i) for i in range(n)]
    # a further peer that gives up (abortive close) right after connecting, before the server has serviced its accept
    if case.get("early_reset"):
        gone = srv.connect(41900)
        srv.pending[-1].reset_by_peer()
        gone.close()
        r.labels.append("peer-reset-before-first-service")
    try:
        srv.service()
    except Exception as ex:      # noqa: BLE001
        r.fail("C10/server-service-raised", "Server.service() raised %s(%s) while accepting" % (type(ex).__name__, ex))
        return
    ssocks = {}
    for ca, ix in srv.ixes.items():
        if ca[1] < 41900:
            ssocks[ca[1] - 41000] = ix.cs
    faults = case["faults"]
    hit = set()
    for f in faults:
        j = f["conn"] % n
        s = ssocks[j]
        idx = f["index"]
        if f["call"] == "send":
            s.send_script = [["accept", 10 ** 6]] * idx + [["fail", f["err"]]]
        else:
            s.recv_script = [["short", 10 ** 6]] * idx + [["fail", f["err"]]]
        hit.add(j)
    sent = [b""] * n
    got = [bytearray() for _ in range(n)]
    pending_sibling = False
    lates = case.get("late", [])
    late_socks = []

    def step():
        nonlocal pending_sibling
        try:
            srv.service()
        except Exception as ex:      # noqa: BLE001
            r.fail(raise_sig("C10/server-service-raised", "Server", ex, any(b.landed for _p, _a, b in late_socks)),
                   "Server.service() raised %s(%s)%s" % (type(ex).__name__, ex, "".join(
                       "; the connection from port %d died at %s" % (p_, b.landed) for p_, _a, b in late_socks if b.landed)))
            return False
        land_late(late_socks)
        for ca, ix in list(srv.ixes.items()):
            if ix.rxbs and not ix.cutoff:
                ix.tx(bytes(ix.rxbs))
                ix.clearRxbs()
        for j, c in enumerate(clients):
            try:
                while True:
                    got[j].extend(c.recv(4096))
                    if not c.inbuf:
                        break
            except OSError:
                pass
        return True

    resets = {f["conn"] % n: f["index"] for f in case.get("resets", [])}
    for stepno, pays in enumerate(case["steps"]):
        arrive_late(srv, lates, stepno, len(case["steps"]), late_socks)
        for j, p in enumerate(pays[:n]):
            if p and not getattr(ssocks[j], "rst", False):
                clients[j].send(p)
                sent[j] += p
        for j, at in resets.items():
            if at == stepno and j in ssocks and not getattr(ssocks[j], "rst", False):
                # the peer resets the connection right after queueing its bytes: recv still returns them, then ECONNRESET
                ssocks[j].reset_by_peer()
                clients[j].close()
                hit.add(j)
                r.labels.append("peer-reset-with-queued-data" if ssocks[j].inbuf else "peer-reset")
        before = {j: ssocks[j].calls[:] for j in hit}
        if not step():
            return
        for j in hit:
            newcalls = ssocks[j].calls[len(before[j]):]
            if any(c[0] in ("send-fail", "recv-fail") for c in newcalls):
                if any(len(got[k]) < len(sent[k]) or pays[k:k + 1] for k in range(n) if k not in hit):
                    pending_sibling = True
    for _ in range(12):
        if not step():
            return
    for j in range(n):
        ca = ("127.0.0.1", 41000 + j)
        fired = any(c[0] in ("send-fail", "recv-fail") for c in ssocks[j].calls)
        if fired:
            ix = srv.ixes.get(ca)
            if ix is not None and not ix.cutoff:
                r.fail("C10/hit-connection-not-cutoff", "connection %d got an injected fault but cutoff is %r" % (j, ix.cutoff))
                return
        elif bytes(got[j]) != sent[j]:
            r.fail("C10/sibling-not-served", "connection %d (no fault) sent %d bytes, got %d echoed" % (
                j, len(sent[j]), len(got[j])))
            return
    if not judge_late(srv, late_socks, r, "Server"):
        return
    r.nontrivial = pending_sibling or bool(late_socks)
    r.labels.append("schedule")
    if pending_sibling:
        r.labels.append("fault-with-sibling-traffic")


def run_tls_schedule(case, r):
    """2-4 TLS connections on one real ServerTls (in-memory accepts, handshakes scripted per connection: k would-blocks,
    then success or a connection-level error); a peer may give up - also in the middle of its handshake - and connect
    again from the very same address before the server has serviced anything."""
    n = case["n"]
    srv = fakenet.FakeServantTls(bs=64, context=C10TlsContext())
    live = {}          # conn index -> [client sock, server sock, handshake outcome]
    sent = {}
    got = {}
    lates = case.get("late", [])
    late_socks = []

    def raised(ex):
        r.fail(raise_sig("C10/server-service-raised(tls)", "ServerTls", ex, any(b.landed for _p, _a, b in late_socks)),
               "ServerTls.service() raised %s(%s)%s" % (type(ex).__name__, ex, "".join(
                   "; the connection from port %d died at %s" % (p_, b.landed) for p_, _a, b in late_socks if b.landed)))

    def connect(j, hs):
        c = srv.connect(41000 + j)
        b = srv.pending[-1]
        b.hs_script = [["want"]] * hs[0] + ([["fail", hs[1]]] if hs[1] else [])
        live[j] = [c, b, hs[1]]
        sent[j] = b""
        got[j] = bytearray()

    for j in range(n):
        connect(j, case["hs"][j % len(case["hs"])])
    recon = {}
    for rc in case["reconn"]:
        recon.setdefault(rc["step"], []).append(rc)
    replaced_pending = False
    for stepno, pays in enumerate(case["steps"]):
        for rc in recon.get(stepno, []):
            j = rc["conn"] % n
            c, b, _o = live[j]
            ca = ("127.0.0.1", 41000 + j)
            if ca in srv.cxes:
                replaced_pending = True
            # the peer aborts: whatever the server does next on that socket fails with a reset
            b.hs_script = [["fail", "ECONNRESET"]]
            b.reset_by_peer()
            c.close()
            connect(j, rc["hs"])
        arrive_late(srv, lates, stepno, len(case["steps"]), late_socks)
        for j, p in enumerate(pays[:n]):
            c, b, outcome = live[j]
            if p and not outcome and not getattr(b, "rst", False):
                c.send(p)
                sent[j] += p
        try:
            srv.service()
        except Exception as ex:      # noqa: BLE001
            raised(ex)
            return
        land_late(late_socks)
        for ca, ix in list(srv.ixes.items()):
            if ix.rxbs and not ix.cutoff:
                ix.tx(bytes(ix.rxbs))
                ix.clearRxbs()
        for j, (c, b, _o) in live.items():
            try:
                while c.inbuf:
                    got[j].extend(c.recv(4096))
            except OSError:
                pass
    for _ in range(10):
        try:
            srv.service()
        except Exception as ex:      # noqa: BLE001
            raised(ex)
            return
        for ca, ix in list(srv.ixes.items()):
            if ix.rxbs and not ix.cutoff:
                ix.tx(bytes(ix.rxbs))
                ix.clearRxbs()
        for j, (c, b, _o) in live.items():
            try:
                while c.inbuf:
                    got[j].extend(c.recv(4096))
            except OSError:
                pass
    for j, (c, b, outcome) in live.items():
        ca = ("127.0.0.1", 41000 + j)
        if outcome:
            cx = srv.cxes.get(ca)
            if cx is not None and cx.cs is b and not getattr(cx, "aborted", False):
                r.fail("C10/failed-handshake-still-pending", "connection %d: handshake failed with %s but the server still "
                       "holds it among its pending handshakes" % (j, outcome))
                return
            ix = srv.ixes.get(ca)
            if ix is not None and ix.cs is b and ix.connected:
                r.fail("C10/connected-after-failed-handshake:ServerTls", "connection %d (%s)" % (j, outcome))
                return
        elif bytes(got[j]) != sent[j]:
            r.fail("C10/sibling-not-served(tls)", "connection %d (handshake succeeds, no fault) sent %d bytes, got %d echoed" % (
                j, len(sent[j]), len(got[j])))
            return
    if not judge_late(srv, late_socks, r, "ServerTls"):
        return
    r.nontrivial = replaced_pending or any(o for _c, _b, o in live.values()) or bool(late_socks)
    r.labels.append("tls-schedule")
    if replaced_pending:
        r.labels.append("reconnect-from-same-address-while-handshake-pending")
    if any(o for _c, _b, o in live.values()):
        r.labels.append("handshake-fails")


def run_dial(case, r):
    """One Client / ClientTls (real reopen / accept / connect / wrap / handshake / service code on harness sockets) in the
    service loop of a caller that reopens on cutoff.  Each connection attempt follows the next generated spec: connect_ex
    would-blocks, then the connection is established and may die after k address queries, at the TLS wrap step, or at the
    latest at the end of the service pass that saw it established; TLS handshakes are scripted.  After the generated
    attempts the peer is healthy and echoes."""
    tls = bool(case["tls"])
    who = "ClientTls" if tls else "Client"
    specs = case["attempts"]
    pay = case["pay"]
    socks = []

    def factory():
        i = len(socks)
        spec = specs[i] if i < len(specs) else {}
        a = C10Socket("c%d" % i, ("127.0.0.1", 42000 + i), ("127.0.0.1", 8080))
        b = C10Socket("s%d" % i, ("127.0.0.1", 8080), ("127.0.0.1", 42000 + i))
        a.peer, b.peer = b, a
        a.connect_script = [["wait"]] * spec.get("waits", 0)
        a.die_at = spec.get("die_at")
        a.die_err = spec.get("err") or "ECONNRESET"
        if spec.get("greet") and a.die_at is not None:
            b.send(spec["greet"])      # bytes the peer wrote before it went away
        hs = spec.get("hs") or [0, None]
        a.hs_script = [["want"]] * hs[0] + ([["fail", hs[1]]] if hs[1] else [])
        socks.append((a, b, spec))
        return a

    E = (C10DialerTls if tls else C10Dialer)(factory, ha=("127.0.0.1", 8080), bs=32)
    E.reopen()
    fed = None
    for _ in range(12 * len(specs) + 12):
        try:
            E.service()
        except Exception as ex:      # noqa: BLE001
            dead = [a.landed for a, _b, _s in socks if a.landed]
            r.fail(raise_sig("C10/client-service-raised:%s" % who, who, ex, bool(dead)),
                   "%s.service() raised %s(%s); connection attempts died at %s" % (who, type(ex).__name__, ex, dead))
            return
        for a, b, spec in socks:
            if a.established and a.die_at is not None:
                a.die(["end"])         # the peer is gone by the end of the pass that saw the connection established
            if not b.closed and b.inbuf:
                data = bytes(b.inbuf)
                del b.inbuf[:]
                b.send(data)
        # the caller
        if E.cutoff:
            E.reopen()
            del E.txbs[:]              # what was queued for the lost connection is not sent on the next one
        elif E.connected and E.cs is not fed:
            fed = E.cs
            E.clearRxbs()
            E.tx(pay)
    for a, _b, spec in socks:
        if a.landed is not None:
            r.labels.append("dial:dies:%s" % a.landed[0])
            if E.cs is a and E.connected and not E.cutoff:
                r.fail("C10/dead-connection-not-cutoff:%s" % who, "the connection died (%s, %s) but after 10+ more service "
                       "passes the client still reports connected and cutoff is %r" % (a.landed, a.die_err, E.cutoff))
                return
    if len(socks) > len(specs):
        # the client got as far as a connection to the healthy peer: that one has to work
        if not E.connected or bytes(E.rxbs) != pay:
            r.fail("C10/healthy-connection-not-served:%s" % who, "after %d failed attempt(s) the peer was healthy, but connected "
                   "is %r and %d of %d bytes came back" % (len(specs), E.connected, len(E.rxbs), len(pay)))
            return
        r.labels.append("dial:recovers")
    r.labels.append("dial")
    r.nontrivial = any(a.landed is not None and a.landed[0] != "end" for a, _b, _s in socks)


def run_case(case):
    r = Result()
    if case["k"] == "matrix":
        run_matrix(case, r)
        r.nontrivial = True
    elif case["k"] == "tls-schedule":
        run_tls_schedule(case, r)
    elif case["k"] == "dial":
        run_dial(case, r)
    else:
        run_schedule(case, r)
    return r


def enumerate_cases(tier, shard, nshards):
    def cells():
        k = 0
        for cls, call, err, pos in itertools.product(CLASSES, ["send", "recv", "handshake"], ERRS, [0, 1]):
            if call == "handshake" and cls not in ("ClientTls", "RemoterTls"):
                continue
            if err == "SSLEOF" and cls not in ("ClientTls", "RemoterTls"):
                continue
            if k % nshards == shard:
                yield {"k": "matrix", "cls": cls, "call": call, "err": err, "pos": pos}
            k += 1

    def setup_cells():
        k = 0
        pay = [b"sibling-%d" % j for j in range(4)]
        for tls, at, data in itertools.product([False, True], [0, 1, 2, 3, 4, 5, "wrap"], [b"", b"\x16\x03\x01"]):
            if at == "wrap" and not tls:
                continue
            # the error left on the socket only shows where the adoption code reads from it: the TLS wrap step
            errs = fakenet.ERRNOS if (tls and at == "wrap" and not data) else ["ECONNRESET"]
            for err in errs:
                late = [{"step": 1, "at": at, "err": err, "data": data}]
                if k % nshards == shard:
                    if tls:
                        yield {"k": "tls-schedule", "n": 2, "hs": [[0, None]], "reconn": [], "steps": [pay, pay, pay], "late": late}
                    else:
                        yield {"k": "schedule", "n": 2, "faults": [], "resets": [], "wl": False, "early_reset": False,
                               "steps": [pay, pay, pay], "late": late}
                k += 1
                for waits in (0, 1):
                    if k % nshards == shard:
                        yield {"k": "dial", "tls": tls, "pay": b"payload", "attempts": [
                            {"waits": waits, "die_at": at, "err": err, "greet": data, "hs": [0, None]}]}
                    k += 1
    return [("errno x call x class matrix", cells(), True),
            ("connection set-up fault points", setup_cells(), True)]


DIE_AT = [None, 0, 1, 2, 3, 4, 5, "wrap"]


def late_strategy():
    """Extra connections that arrive at a generated step and die while the server adopts them."""
    return st.lists(st.fixed_dictionaries({"step": st.integers(0, 5), "at": st.sampled_from(DIE_AT[1:]),
                                           "err": st.sampled_from(["ECONNRESET"] * 3 + fakenet.ERRNOS),
                                           "data": st.one_of(st.just(b""), st.binary(min_size=1, max_size=6))}), max_size=2)


def schedule_strategy():
    fault = st.fixed_dictionaries({"conn": st.integers(0, 3), "call": st.sampled_from(["send", "recv"]),
                                   "err": st.sampled_from(fakenet.ERRNOS), "index": st.integers(0, 4)})
    pay = st.one_of(st.just(b""), st.binary(min_size=1, max_size=90))
    return st.fixed_dictionaries({"k": st.just("schedule"), "n": st.integers(2, 4),
                                  "faults": st.lists(fault, min_size=0, max_size=2, unique_by=lambda f: f["conn"]),
                                  "resets": st.lists(st.fixed_dictionaries({"conn": st.integers(0, 3), "index": st.integers(0, 5)}),
                                                     max_size=2, unique_by=lambda f: f["conn"]),
                                  "wl": st.booleans(), "early_reset": st.sampled_from([False, False, True]),
                                  "late": late_strategy(),
                                  "steps": st.lists(st.lists(pay, min_size=4, max_size=4), min_size=2, max_size=8)})


def tls_schedule_strategy():
    hs = st.tuples(st.integers(0, 4), st.sampled_from([None, None, None, "ECONNRESET", "SSLEOF", "EPIPE", "ETIMEDOUT",
                                                         "ECONNABORTED" if "ECONNABORTED" in fakenet.ERRNOS else "ECONNRESET"])).map(list)
    pay = st.one_of(st.just(b""), st.binary(min_size=1, max_size=60))
    return st.fixed_dictionaries({"k": st.just("tls-schedule"), "n": st.integers(2, 4),
                                  "hs": st.lists(hs, min_size=1, max_size=4),
                                  "reconn": st.lists(st.fixed_dictionaries({"conn": st.integers(0, 3), "step": st.integers(0, 5),
                                                                            "hs": hs}), max_size=2),
                                  "late": late_strategy(),
                                  "steps": st.lists(st.lists(pay, min_size=4, max_size=4), min_size=2, max_size=8)})


def dial_strategy():
    hs = st.tuples(st.integers(0, 3), st.sampled_from([None, None, None, "ECONNRESET", "SSLEOF", "EPIPE", "ETIMEDOUT"])).map(list)
    att = st.fixed_dictionaries({"waits": st.integers(0, 2), "die_at": st.sampled_from(DIE_AT),
                                 "err": st.sampled_from(["ECONNRESET"] * 3 + fakenet.ERRNOS),
                                 "greet": st.one_of(st.just(b""), st.binary(min_size=1, max_size=6)), "hs": hs})
    return st.fixed_dictionaries({"k": st.just("dial"), "tls": st.booleans(), "attempts": st.lists(att, min_size=1, max_size=3),
                                  "pay": st.binary(min_size=1, max_size=80)})


def searches(tier):
    q = tier == "quick"
    return [("fault-schedules", schedule_strategy(), 1200 if q else 12000),
            ("tls-server-schedules", tls_schedule_strategy(), 800 if q else 8000),
            ("client-dial-schedules", dial_strategy(), 600 if q else 6000)]

"""C10 Connection-level socket faults never escape servicing.

(a) complete enumeration (exhaustive: true): every connection-level error named by
    the property {ECONNRESET, EPIPE, ENETRESET, ENETUNREACH, EHOSTUNREACH, ENETDOWN,
    EHOSTDOWN, ETIMEDOUT, ECONNREFUSED, TLS EOF} x call {send, recv, handshake} x
    endpoint class {Client, ClientTls, Remoter, RemoterTls} x position {first call,
    after some healthy traffic}.  The service method must return without raising
    and the endpoint must be marked cutoff (aborted for a handshake in progress).
(b) generated fault schedules: a tcp.Server (real code on in-memory accepts) with
    2-4 echo connections; one or more server-side sockets fail with a generated
    error at a generated call index while all clients keep exchanging data.
    Server.service() must never raise, the hit connection must be cut off, and every
    other connection must get all of its bytes echoed back.
"""
import itertools

from hypothesis import strategies as st

from vlib import fakenet
from vlib.core import Result

PID = "C10"
LEVEL = "fault_enumeration"
RULE = ("cases: (a) enumeration of 10 errors x {send, recv, handshake} x 4 endpoint classes x 2 positions (complete); (b) "
        "generated schedules: 2-4 connections on one tcp.Server, per-step client payloads, faults = (connection, send|recv, "
        "error, call index) and peer resets (abortive close with or without bytes still queued: recv delivers them, then "
        "ECONNRESET, send gives EPIPE, getpeername ENOTCONN), with or without a wire log on the server; (c) schedules on one ServerTls: per connection a scripted handshake (0-4 would-blocks, then success or a connection-level error), peers that give up - also mid-handshake - and reconnect from the same address before the next service call. non-trivial = a fault hits a connection while a sibling connection still has traffic pending; "
        "distinct = canonical hash of the case")
ASSUMPTIONS = ["errors are injected by the harness' in-memory sockets with the same exception types and errno values the "
               "kernel / ssl module raise (OSError(errno), ssl.SSLEOFError(SSL_ERROR_EOF))",
               "only the error kinds the property lists are injected; other errnos are allowed to propagate"]

ERRS = fakenet.ERRNOS + ["SSLEOF"]
CLASSES = ["Client", "ClientTls", "Remoter", "RemoterTls"]


def run_matrix(case, r):
    cls, call, err, pos = case["cls"], case["call"], case["err"], case["pos"]
    tlsclass = cls in ("ClientTls", "RemoterTls")
    sa, sb = fakenet.pipe()
    if cls in ("Client", "ClientTls"):
        mine, other = sa, sb
    else:
        mine, other = sb, sa
    E = fakenet.make_endpoint(cls, mine, bs=32)
    r.labels.append("matrix:%s" % call)
    if call == "handshake":
        E.connected = False
        mine.hs_script = ([["want"]] if pos else []) + [["fail", err]]
        try:
            for _ in range(1 + pos):
                if cls == "ClientTls":
                    E.serviceConnect() if False else E.handshake()
                else:
                    E.handshake()
        except Exception as ex:      # noqa: BLE001
            r.fail("C10/raised:%s:handshake" % cls, "%s.handshake() raised %s(%s) for injected %s" % (
                cls, type(ex).__name__, ex, err))
            return
        if cls == "RemoterTls" and not E.aborted:
            r.fail("C10/not-aborted:%s" % cls, "handshake failed with %s but aborted is %r" % (err, E.aborted))
        if cls == "ClientTls" and not (E.cutoff or getattr(E, "aborted", False)):
            r.fail("C10/not-marked:%s" % cls, "handshake failed with %s but neither cutoff nor aborted is set" % err)
        if E.connected:
            r.fail("C10/connected-after-failed-handshake:%s" % cls, "%s" % err)
        return
    if pos:      # some healthy traffic first
        other.send(b"hello")
        E.serviceReceives()
        E.tx(b"0123456789")
        E.serviceSends()
    if call == "send":
        mine.send_script = [["fail", err]]
        E.tx(b"payload-to-send")
        fn = E.serviceSends
    else:
        mine.recv_script = [["fail", err]]
        other.send(b"more")
        fn = E.serviceReceives
    try:
        fn()
    except Exception as ex:      # noqa: BLE001
        r.fail("C10/raised:%s:%s:%s" % (cls, call, err), "%s.%s raised %s(%s)" % (cls, fn.__name__, type(ex).__name__, ex))
        return
    if not E.cutoff:
        r.fail("C10/not-cutoff:%s:%s:%s" % (cls, call, err), "cutoff is %r after injected %s on %s" % (E.cutoff, err, call))


def run_schedule(case, r):
    wl = None
    if case.get("wl"):
        from hio.core import wiring
        wl = wiring.WireLog(samed=False, filed=False, fmt=b"%(data)b", name="c10")
        wl.reopen()
    srv = fakenet.FakeServant(bs=32, wl=wl)
    n = case["n"]
    clients = [srv.connect(41000 + i) for i in range(n)]
    # a further peer that gives up (abortive close) right after connecting, before the server has serviced its accept
    if case.get("early_reset"):
        gone = srv.connect(41900)
        srv.pending[-1].reset_by_peer()
        gone.close()
        r.labels.append("peer-reset-before-first-service")
    try:
        srv.service()
    except Exception as ex:      # noqa: BLE001
        r.fail("C10/server-service-raised", "Server.service() raised %s(%s) while accepting" % (type(ex).__name__, ex))
        return
    ssocks = {}
    for ca, ix in srv.ixes.items():
        if ca[1] < 41900:
            ssocks[ca[1] - 41000] = ix.cs
    faults = case["faults"]
    hit = set()
    for f in faults:
        j = f["conn"] % n
        s = ssocks[j]
        idx = f["index"]
        if f["call"] == "send":
            s.send_script = [["accept", 10 ** 6]] * idx + [["fail", f["err"]]]
        else:
            s.recv_script = [["short", 10 ** 6]] * idx + [["fail", f["err"]]]
        hit.add(j)
    sent = [b""] * n
    got = [bytearray() for _ in range(n)]
    pending_sibling = False

    def step():
        nonlocal pending_sibling
        try:
            srv.service()
        except Exception as ex:      # noqa: BLE001
            r.fail("C10/server-service-raised", "Server.service() raised %s(%s)" % (type(ex).__name__, ex))
            return False
        for ca, ix in list(srv.ixes.items()):
            if ix.rxbs and not ix.cutoff:
                ix.tx(bytes(ix.rxbs))
                ix.clearRxbs()
        for j, c in enumerate(clients):
            try:
                while True:
                    got[j].extend(c.recv(4096))
                    if not c.inbuf:
                        break
            except OSError:
                pass
        return True

    resets = {f["conn"] % n: f["index"] for f in case.get("resets", [])}
    for stepno, pays in enumerate(case["steps"]):
        for j, p in enumerate(pays[:n]):
            if p and not getattr(ssocks[j], "rst", False):
                clients[j].send(p)
                sent[j] += p
        for j, at in resets.items():
            if at == stepno and j in ssocks and not getattr(ssocks[j], "rst", False):
                # the peer resets the connection right after queueing its bytes: recv still returns them, then ECONNRESET
                ssocks[j].reset_by_peer()
                clients[j].close()
                hit.add(j)
                r.labels.append("peer-reset-with-queued-data" if ssocks[j].inbuf else "peer-reset")
        before = {j: ssocks[j].calls[:] for j in hit}
        if not step():
            return
        for j in hit:
            newcalls = ssocks[j].calls[len(before[j]):]
            if any(c[0] in ("send-fail", "recv-fail") for c in newcalls):
                if any(len(got[k]) < len(sent[k]) or pays[k:k + 1] for k in range(n) if k not in hit):
                    pending_sibling = True
    for _ in range(12):
        if not step():
            return
    for j in range(n):
        ca = ("127.0.0.1", 41000 + j)
        fired = any(c[0] in ("send-fail", "recv-fail") for c in ssocks[j].calls)
        if fired:
            ix = srv.ixes.get(ca)
            if ix is not None and not ix.cutoff:
                r.fail("C10/hit-connection-not-cutoff", "connection %d got an injected fault but cutoff is %r" % (j, ix.cutoff))
                return
        elif bytes(got[j]) != sent[j]:
            r.fail("C10/sibling-not-served", "connection %d (no fault) sent %d bytes, got %d echoed" % (
                j, len(sent[j]), len(got[j])))
            return
    r.nontrivial = pending_sibling
    r.labels.append("schedule")
    if pending_sibling:
        r.labels.append("fault-with-sibling-traffic")


def run_tls_schedule(case, r):
    """2-4 TLS connections on one real ServerTls (in-memory accepts, handshakes scripted per connection: k would-blocks,
    then success or a connection-level error); a peer may give up - also in the middle of its handshake - and connect
    again from the very same address before the server has serviced anything."""
    n = case["n"]
    srv = fakenet.FakeServantTls(bs=64)
    live = {}          # conn index -> [client sock, server sock, handshake outcome]
    sent = {}
    got = {}

    def connect(j, hs):
        c = srv.connect(41000 + j)
        b = srv.pending[-1]
        b.hs_script = [["want"]] * hs[0] + ([["fail", hs[1]]] if hs[1] else [])
        live[j] = [c, b, hs[1]]
        sent[j] = b""
        got[j] = bytearray()

    for j in range(n):
        connect(j, case["hs"][j % len(case["hs"])])
    recon = {}
    for rc in case["reconn"]:
        recon.setdefault(rc["step"], []).append(rc)
    replaced_pending = False
    for stepno, pays in enumerate(case["steps"]):
        for rc in recon.get(stepno, []):
            j = rc["conn"] % n
            c, b, _o = live[j]
            ca = ("127.0.0.1", 41000 + j)
            if ca in srv.cxes:
                replaced_pending = True
            # the peer aborts: whatever the server does next on that socket fails with a reset
            b.hs_script = [["fail", "ECONNRESET"]]
            b.reset_by_peer()
            c.close()
            connect(j, rc["hs"])
        for j, p in enumerate(pays[:n]):
            c, b, outcome = live[j]
            if p and not outcome and not getattr(b, "rst", False):
                c.send(p)
                sent[j] += p
        try:
            srv.service()
        except Exception as ex:      # noqa: BLE001
            r.fail("C10/server-service-raised(tls)", "ServerTls.service() raised %s(%s)" % (type(ex).__name__, ex))
            return
        for ca, ix in list(srv.ixes.items()):
            if ix.rxbs and not ix.cutoff:
                ix.tx(bytes(ix.rxbs))
                ix.clearRxbs()
        for j, (c, b, _o) in live.items():
            try:
                while c.inbuf:
                    got[j].extend(c.recv(4096))
            except OSError:
                pass
    for _ in range(10):
        try:
            srv.service()
        except Exception as ex:      # noqa: BLE001
            r.fail("C10/server-service-raised(tls)", "ServerTls.service() raised %s(%s)" % (type(ex).__name__, ex))
            return
        for ca, ix in list(srv.ixes.items()):
            if ix.rxbs and not ix.cutoff:
                ix.tx(bytes(ix.rxbs))
                ix.clearRxbs()
        for j, (c, b, _o) in live.items():
            try:
                while c.inbuf:
                    got[j].extend(c.recv(4096))
            except OSError:
                pass
    for j, (c, b, outcome) in live.items():
        ca = ("127.0.0.1", 41000 + j)
        if outcome:
            cx = srv.cxes.get(ca)
            if cx is not None and cx.cs is b and not getattr(cx, "aborted", False):
                r.fail("C10/failed-handshake-still-pending", "connection %d: handshake failed with %s but the server still "
                       "holds it among its pending handshakes" % (j, outcome))
                return
            ix = srv.ixes.get(ca)
            if ix is not None and ix.cs is b and ix.connected:
                r.fail("C10/connected-after-failed-handshake:ServerTls", "connection %d (%s)" % (j, outcome))
                return
        elif bytes(got[j]) != sent[j]:
            r.fail("C10/sibling-not-served(tls)", "connection %d (handshake succeeds, no fault) sent %d bytes, got %d echoed" % (
                j, len(sent[j]), len(got[j])))
            return
    r.nontrivial = replaced_pending or any(o for _c, _b, o in live.values())
    r.labels.append("tls-schedule")
    if replaced_pending:
        r.labels.append("reconnect-from-same-address-while-handshake-pending")
    if any(o for _c, _b, o in live.values()):
        r.labels.append("handshake-fails")


def run_case(case):
    r = Result()
    if case["k"] == "matrix":
        run_matrix(case, r)
        r.nontrivial = True
    elif case["k"] == "tls-schedule":
        run_tls_schedule(case, r)
    else:
        run_schedule(case, r)
    return r


def enumerate_cases(tier, shard, nshards):
    def cells():
        k = 0
        for cls, call, err, pos in itertools.product(CLASSES, ["send", "recv", "handshake"], ERRS, [0, 1]):
            if call == "handshake" and cls not in ("ClientTls", "RemoterTls"):
                continue
            if err == "SSLEOF" and cls not in ("ClientTls", "RemoterTls"):
                continue
            if k % nshards == shard:
                yield {"k": "matrix", "cls": cls, "call": call, "err": err, "pos": pos}
            k += 1
    return [("errno x call x class matrix", cells(), True)]


def schedule_strategy():
    fault = st.fixed_dictionaries({"conn": st.integers(0, 3), "call": st.sampled_from(["send", "recv"]),
                                   "err": st.sampled_from(fakenet.ERRNOS), "index": st.integers(0, 4)})
    pay = st.one_of(st.just(b""), st.binary(min_size=1, max_size=90))
    return st.fixed_dictionaries({"k": st.just("schedule"), "n": st.integers(2, 4),
                                  "faults": st.lists(fault, min_size=0, max_size=2, unique_by=lambda f: f["conn"]),
                                  "resets": st.lists(st.fixed_dictionaries({"conn": st.integers(0, 3), "index": st.integers(0, 5)}),
                                                     max_size=2, unique_by=lambda f: f["conn"]),
                                  "wl": st.booleans(), "early_reset": st.sampled_from([False, False, True]),
                                  "steps": st.lists(st.lists(pay, min_size=4, max_size=4), min_size=2, max_size=8)})


def tls_schedule_strategy():
    hs = st.tuples(st.integers(0, 4), st.sampled_from([None, None, None, "ECONNRESET", "SSLEOF", "EPIPE", "ETIMEDOUT",
                                                         "ECONNABORTED" if "ECONNABORTED" in fakenet.ERRNOS else "ECONNRESET"])).map(list)
    pay = st.one_of(st.just(b""), st.binary(min_size=1, max_size=60))
    return st.fixed_dictionaries({"k": st.just("tls-schedule"), "n": st.integers(2, 4),
                                  "hs": st.lists(hs, min_size=1, max_size=4),
                                  "reconn": st.lists(st.fixed_dictionaries({"conn": st.integers(0, 3), "step": st.integers(0, 5),
                                                                            "hs": hs}), max_size=2),
                                  "steps": st.lists(st.lists(pay, min_size=4, max_size=4), min_size=2, max_size=8)})


def searches(tier):
    q = tier == "quick"
    return [("fault-schedules", schedule_strategy(), 1200 if q else 12000),
            ("tls-server-schedules", tls_schedule_strategy(), 800 if q else 8000)]

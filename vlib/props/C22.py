"""C22 Memo receivers survive arbitrary datagrams and accept only authentic memos.

Datagrams delivered to a receiver through the documented test channel (.echos):
valid grams of 1-2 memos (all four zero-gram codes, both header encodings, three
known signers and one unknown), mutated copies of them (single byte flips in head /
body / signature, truncation, code swaps over all ten codes, gram numbers beyond
the count, invalid base64 / UTF-8, foreign signatures), and arbitrary bytes.

  * serviceAllRx() never raises, whatever arrives (failures bucketed by raise site);
  * when signed grams are required (authic): every memo that reaches the inbox
    equals (text, signer id) a memo that was really signed by that signer -
    tampered content is never delivered.
"""
from hypothesis import strategies as st

from hio import hioing
from hio.core.memo import memoing
from vlib import memogen
from vlib.core import Result, exc_sig
from vlib.memogen import AUTH_ZERO, ZERO_CODES

PID = "C22"
RULE = ("cases: 1-2 valid memos (4 zero codes x base64/base2 headers x sizes x signer incl. one unknown to the receiver) + "
        "0-6 mutations of their grams (byte flip at a generated offset, truncation, code swap over the 10 codes, gram number "
        "rewrite incl. >= count, invalid base64 char, invalid UTF-8 in the body, body / signature alteration) + 0-3 arbitrary "
        "byte strings, delivered in a generated order with receive servicing every k datagrams, authic on or off; non-trivial "
        "= at least one mutated copy of a valid gram (not just random bytes) was delivered and got past the code lookup (its "
        "first 4 characters / 3 bytes are a defined gram code); distinct = canonical hash")
ASSUMPTIONS = [
    "delivery uses the documented test channel (.echos, echoic receive); an empty datagram means 'nothing received'",
    "the authenticity clause is judged only with authic=True; a self-certifying (code 'B') or known signer signing its own memo "
    "is authentic by definition, also when the receiver has never seen it",
    "memo ids are deterministic; the unknown signer uses a transferable vid (code 'D') that is absent from the receiver's keep",
]

CODES = list(memoing.MemoDex)


def b2(code):
    from base64 import urlsafe_b64decode
    return urlsafe_b64decode(code.encode())


def mutate(g, m, curt):
    """Apply mutation m (list) to gram bytes g."""
    g = bytearray(g)
    k = m[0]
    n = len(g)
    if k == "flip":
        pos = m[1] % n
        g[pos] ^= (m[2] or 1) & 0xFF
    elif k == "trunc":
        del g[m[1] % (n + 1):]
    elif k == "code":
        c = CODES[m[1] % len(CODES)]
        if curt:
            g[:3] = b2(c)
        else:
            g[:4] = c.encode()
    elif k == "badcode":
        # 'b' + three more base64 characters that are not a defined code
        c = "b" + m[1]
        if curt:
            g[:3] = b2(c)
        else:
            g[:4] = c.encode()
    elif k == "gnum":
        v = m[1]
        if curt:
            g[3:6] = (v % (1 << 24)).to_bytes(3, "big")
        else:
            from hio.help import helping
            g[4:8] = helping.intToB64b(v % (64 ** 4), l=4)
    elif k == "badb64":
        pos = m[1] % min(n, 28)
        g[pos:pos + 1] = bytes([m[2]])
    elif k == "badutf8":
        g[-1 - (m[1] % min(n, 8)):] = b"\xff\xfe"[: 1 + (m[1] % 2)] + g[n - (m[1] % min(n, 8)):]
    elif k == "tail":
        pos = n - 1 - (m[1] % min(n, 90))
        g[pos] ^= 0x01
    elif k == "extend":
        g.extend(m[1])
    return bytes(g)


def code_of(g):
    try:
        if len(g) >= 4 and bytes(g[:4]).decode("ascii") in CODES:
            return bytes(g[:4]).decode()
    except UnicodeDecodeError:
        pass
    if len(g) >= 3:
        from base64 import urlsafe_b64encode
        c = urlsafe_b64encode(bytes(g[:3])).decode()
        if c in CODES:
            return c
    return None


def run_case(case):
    r = Result()
    memogen.reset_mids()
    authic = case["authic"]
    originals = set()       # (text, vid) of memos that were really signed by vid
    grams = []              # (bytes, src, is_mutant, curt)
    for mi, ms in enumerate(case["memos"]):
        code = ZERO_CODES[ms["code"]]
        curt = ms["curt"]
        base = memogen.min_size(code, curt)
        size = 65535 if ms["extra"] is None else base + ms["extra"]
        tx = memogen.sender(code, curt, size, signer=ms["signer"] % 3)
        vid = None
        if code in AUTH_ZERO:
            vid = memogen.STRANGER[0] if ms["signer"] == 3 else tx.vid
        try:
            gs = [bytes(g) for g in tx.rend(ms["text"], vid)]
        except Exception:        # noqa: BLE001 - sender side limits and failures are C20's business, not judged here
            continue
        if vid is not None and ms["signer"] != 3:
            originals.add((ms["text"], vid))
        for g in gs:
            grams.append((g, "src%d" % mi, False, curt))
    pool = list(grams)
    past_lookup = False
    for m in case["muts"]:
        if not grams:
            break
        g, src, _mut, curt = grams[m[1] % len(grams)]
        mg = mutate(g, m[2], curt)
        if mg != g:
            pool.append((mg, src if m[0] else "evil", True, curt))
            if mg and code_of(mg) is not None:
                past_lookup = True
    for raw in case["raw"]:
        pool.append((raw, "rand", True, False))
    n = len(pool)
    if n == 0:
        return r
    seq = [p % n for p in case["order"]]
    seq += [i for i in range(n) if i not in set(seq)]
    rx = memogen.receiver(authic=authic)
    k = max(1, case["svc_every"])
    try:
        for j, i in enumerate(seq):
            rx.echos.append((pool[i][0], pool[i][1]))
            if (j + 1) % k == 0:
                rx.serviceAllRx()
        rx.serviceAllRx()
        rx.serviceAllRx()
    except Exception as ex:      # noqa: BLE001
        r.fail(exc_sig(ex, "C22/receive-raised"), "%r\n pool=%r" % (ex, [(bytes(p[0][:60]), p[2]) for p in pool][:8]))
        r.nontrivial = past_lookup
        return r
    if authic:
        for (text, src, vid) in rx.inbox:
            if (text, vid) not in originals:
                r.fail("C22/unauthentic-memo-delivered", "inbox has %r from %r with vid %r; authentic memos: %r" % (
                    text[:80], src, vid, sorted(originals)[:3]))
    r.nontrivial = past_lookup
    r.labels.append("authic" if authic else "not-authic")
    if past_lookup:
        r.labels.append("mutant-past-code-lookup")
    if case["raw"]:
        r.labels.append("random-bytes")
    if rx.inbox:
        r.labels.append("some-memo-delivered")
    return r


def _strategy():
    ch = st.characters(exclude_categories=("Cs",))
    text = st.one_of(st.text(ch, min_size=1, max_size=30), st.text("aé€\U0001f600", min_size=1, max_size=300))
    memo = st.fixed_dictionaries({"code": st.integers(0, 3), "curt": st.booleans(),
                                  "extra": st.one_of(st.integers(0, 12), st.integers(0, 200), st.none()),
                                  "signer": st.integers(0, 3), "text": text})
    b64ch = st.sampled_from("ABab09-_")
    mut = st.one_of(
        st.tuples(st.just("flip"), st.integers(0, 400), st.integers(1, 255)),
        st.tuples(st.just("flip"), st.integers(0, 40), st.integers(1, 255)),
        st.tuples(st.just("trunc"), st.integers(0, 400)),
        st.tuples(st.just("trunc"), st.integers(0, 40)),
        st.tuples(st.just("code"), st.integers(0, 9)),
        st.tuples(st.just("code"), st.integers(8, 9)),
        st.tuples(st.just("badcode"), st.tuples(b64ch, b64ch, b64ch).map("".join)),
        st.tuples(st.just("gnum"), st.one_of(st.integers(0, 5), st.integers(0, 64 ** 4 - 1))),
        st.tuples(st.just("badb64"), st.integers(0, 27), st.sampled_from([0x20, 0x2B, 0x2F, 0x3D, 0x80, 0xFF, 0x00, 0x7E])),
        st.tuples(st.just("badutf8"), st.integers(0, 7)),
        st.tuples(st.just("tail"), st.integers(0, 89)),
        st.tuples(st.just("extend"), st.binary(min_size=1, max_size=4)),
    ).map(list)
    muts = st.lists(st.tuples(st.booleans(), st.integers(0, 50), mut).map(list), max_size=6)
    raw = st.one_of(st.binary(max_size=40), st.binary(min_size=1, max_size=200).map(lambda b: b"b" + b),
                    st.binary(min_size=2, max_size=200).map(lambda b: bytes([0x6C | (b[0] & 3)]) + b[1:]))
    return st.fixed_dictionaries({"authic": st.booleans(), "memos": st.lists(memo, min_size=1, max_size=2),
                                  "muts": muts, "raw": st.lists(raw, max_size=3),
                                  "order": st.lists(st.integers(0, 100), max_size=20),
                                  "svc_every": st.sampled_from([1, 1, 2, 5, 1000])})


def searches(tier):
    return [("datagrams", _strategy(), 3000 if tier == "quick" else 30000)]

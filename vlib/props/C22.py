"""C22 Memo receivers survive arbitrary datagrams and accept only authentic memos.

Datagrams delivered to a receiver through the documented test channel (.echos):
valid grams of 1-2 memos (all four zero-gram codes, both header encodings, three
known signers and one unknown), mutated copies of them (single byte flips in head /
body / signature, truncation, code swaps over all ten codes, gram numbers beyond
the count, invalid base64 / UTF-8, foreign signatures), and arbitrary bytes.

  * serviceAllRx() never raises, whatever arrives (failures bucketed by raise site);
  * when signed grams are required (authic): every memo that reaches the inbox
    equals (text, signer id) a memo that was really signed by that signer -
    tampered content is never delivered.
"""
from hypothesis import strategies as st

from hio import hioing
from hio.core.memo import memoing
from vlib import memogen
from vlib.core import Result, exc_sig
from vlib.memogen import AUTH_ZERO, ZERO_CODES

PID = "C22"
RULE = ("cases: 1-2 valid memos (4 zero codes x base64/base2 headers x sizes x signer incl. one unknown to the receiver) + "
        "0-6 mutations of their grams (byte flip at a generated offset, truncation, code swap over the 10 codes, gram number "
        "rewrite incl. >= count, invalid base64 char, invalid UTF-8 in the body, body / signature alteration, and grams correctly signed by ANOTHER signer for the victim's memo id with any of the ten codes and any gram number, or a COMPLETE memo so signed for the same memo id whose text may be invalid UTF-8, delivered before the victim's memo) + 0-3 arbitrary "
        "byte strings, delivered in a generated order with receive servicing every k datagrams, authic on or off; non-trivial "
        "= at least one mutated copy of a valid gram (not just random bytes) was delivered and got past the code lookup (its "
        "first 4 characters / 3 bytes are a defined gram code); distinct = canonical hash")
ASSUMPTIONS = [
    "delivery uses the documented test channel (.echos, echoic receive); an empty datagram means 'nothing received'",
    "the authenticity clause is judged only with authic=True: a delivered memo must equal a memo its claimed signer signed, or at "
    "least consist only of gram bodies that this signer signed (a signer may forge its own memos; it may not add to another's)",
    "memo ids are deterministic; the unknown signer uses a transferable vid (code 'D') that is absent from the receiver's keep",
    "one transferable signer has rotated its key: its vid embeds the first key, the receiver's keep holds the current one; grams "
    "signed with the superseded key do not verify for that signer",
]

CODES = list(memoing.MemoDex)


def b2(code):
    from base64 import urlsafe_b64decode
    return urlsafe_b64decode(code.encode())


def mutate(g, m, curt):
    """Apply mutation m (list) to gram bytes g."""
    g = bytearray(g)
    k = m[0]
    n = len(g)
    if k == "flip":
        pos = m[1] % n
        g[pos] ^= (m[2] or 1) & 0xFF
    elif k == "trunc":
        del g[m[1] % (n + 1):]
    elif k == "code":
        c = CODES[m[1] % len(CODES)]
        if curt:
            g[:3] = b2(c)
        else:
            g[:4] = c.encode()
    elif k == "badcode":
        # 'b' + three more base64 characters that are not a defined code
        c = "b" + m[1]
        if curt:
            g[:3] = b2(c)
        else:
            g[:4] = c.encode()
    elif k == "gnum":
        v = m[1]
        if curt:
            g[3:6] = (v % (1 << 24)).to_bytes(3, "big")
        else:
            from hio.help import helping
            g[4:8] = helping.intToB64b(v % (64 ** 4), l=4)
    elif k == "badb64":
        pos = m[1] % min(n, 28)
        g[pos:pos + 1] = bytes([m[2]])
    elif k == "badutf8":
        g[-1 - (m[1] % min(n, 8)):] = b"\xff\xfe"[: 1 + (m[1] % 2)] + g[n - (m[1] % min(n, 8)):]
    elif k == "tail":
        pos = n - 1 - (m[1] % min(n, 90))
        g[pos] ^= 0x01
    elif k == "extend":
        g.extend(m[1])
    return bytes(g)


def forge(g, curt, m, tx):
    """A gram made by another signer for the victim gram's memo id: m = ["forge", code index, gram number, body, signer]."""
    from base64 import urlsafe_b64decode, urlsafe_b64encode
    from hio.help import helping
    code = CODES[m[1] % len(CODES)]
    bz, nz, mz, vz, az = memoing.Memoer.Sizes[code]
    mid = (urlsafe_b64encode(bytes(g[6:24])) if curt else bytes(g[8:32]))
    if len(mid) != 24:
        return None
    signer = memogen.signer_at(m[4])
    vid = signer[0]
    tx = memogen.sender(memoing.MemoDex.GramAuthZero, False, 65535, signer=m[4])       # signs with that party's own key
    gnum = helping.intToB64b(m[2] % (64 ** 4), l=4)
    head = code.encode() + gnum + mid + (vid.encode() if vz else b"")
    if curt:
        head = urlsafe_b64decode(head)
    gram = head + m[3]
    if az:
        old_curt, old_vid = tx.curt, tx.vid
        tx.curt = curt
        try:
            gram = gram + tx.sign(vid, gram)
        finally:
            tx.curt = old_curt
    return bytes(gram)


def body_of(g, curt):
    """Body bytes of a well formed gram (between fore head and signature)."""
    code = code_of(g)
    bz, nz, mz, vz, az = memoing.Memoer.Sizes[code]
    head = bz + nz + mz + vz
    if curt:
        head, az = 3 * head // 4, 3 * az // 4
    return bytes(g[head:len(g) - az])


def composable(data, bodies):
    """data is a concatenation of members of bodies (dynamic programming over prefixes)."""
    ok = [True] + [False] * len(data)
    for i in range(len(data)):
        if ok[i]:
            for b in bodies:
                if b and data.startswith(b, i):
                    ok[i + len(b)] = True
    return ok[len(data)]


def code_of(g):
    try:
        if len(g) >= 4 and bytes(g[:4]).decode("ascii") in CODES:
            return bytes(g[:4]).decode()
    except UnicodeDecodeError:
        pass
    if len(g) >= 3:
        from base64 import urlsafe_b64encode
        c = urlsafe_b64encode(bytes(g[:3])).decode()
        if c in CODES:
            return c
    return None


def run_case(case):
    r = Result()
    memogen.reset_mids()
    authic = case["authic"]
    originals = set()       # (text, vid) of memos that were really signed by vid
    signed = {}             # vid -> set of gram bodies that vid really signed (originals and forgeries alike)
    grams = []              # (bytes, src, is_mutant, curt)
    for mi, ms in enumerate(case["memos"]):
        code = ZERO_CODES[ms["code"]]
        curt = ms["curt"]
        base = memogen.min_size(code, curt)
        size = 65535 if ms["extra"] is None else base + ms["extra"]
        tx = memogen.sender(code, curt, size, signer=ms["signer"])
        vid = tx.vid if code in AUTH_ZERO else None
        superseded = ms["signer"] % 6 == 5       # signed with a key that is no longer the claimed signer's key
        try:
            gs = [bytes(g) for g in tx.rend(ms["text"], vid)]
        except Exception:        # noqa: BLE001 - sender side limits and failures are C20's business, not judged here
            continue
        if vid is not None and not superseded:
            originals.add((ms["text"], vid))
            for g in gs:
                signed.setdefault(vid, set()).add(body_of(g, curt))
        for g in gs:
            grams.append((g, "src%d" % mi, False, curt))
    pool = list(grams)
    past_lookup = False
    forged = False
    forger = memogen.sender(memoing.MemoDex.GramAuthZero, False, 65535, signer=0)
    for m in case["muts"]:
        if not grams:
            break
        g, src, _mut, curt = grams[m[1] % len(grams)]
        if m[2][0] == "forgememo":
            # a COMPLETE memo (zeroth gram announcing the count + the other grams) made and correctly signed by another
            # party for the victim's memo id; bodies may be invalid UTF-8, so that the receiver completes and drops it
            _k, sure, bodies, who = m[2]
            zi, ni = (6, 7) if sure else (2, 3)
            parts = [forge(g, curt, ["forge", zi, len(bodies), bytes(bodies[0]), who], forger)]
            parts += [forge(g, curt, ["forge", ni, i, bytes(bodies[i]), who], forger) for i in range(1, len(bodies))]
            if any(p is None for p in parts):
                continue
            forged = True
            r.labels.append("forged-complete-memo-for-the-same-id")
            if who % 6 != 5:
                for b in bodies:
                    signed.setdefault(memogen.signer_at(who)[0], set()).add(bytes(b))
            for p in parts:
                pool.append((p, src if m[0] else "evil", True, curt))
            past_lookup = True
            continue
        if m[2][0] == "forge":
            mg = forge(g, curt, m[2], forger)
            if mg is None:
                continue
            forged = True
            fs = memogen.signer_at(m[2][4])
            if memoing.Memoer.Sizes[CODES[m[2][1] % len(CODES)]].az and m[2][4] % 6 != 5:
                signed.setdefault(fs[0], set()).add(bytes(m[2][3]))
        else:
            mg = mutate(g, m[2], curt)
        if mg != g:
            pool.append((mg, src if m[0] else "evil", True, curt))
            if mg and code_of(mg) is not None:
                past_lookup = True
    for raw in case["raw"]:
        pool.append((raw, "rand", True, False))
    n = len(pool)
    if n == 0:
        return r
    seq = [p % n for p in case["order"]]
    seq += [i for i in range(n) if i not in set(seq)]
    mode = case.get("order_mode")
    if mode in ("zeroth-mutants-rest", "mutants-first"):
        # deliver the mutants / forgeries right after the first valid gram (the zeroth gram of the first memo), or first of all
        muts_idx = [i for i in range(n) if pool[i][2]]
        valid_idx = [i for i in range(n) if not pool[i][2]]
        if mode == "mutants-first":
            seq = muts_idx + valid_idx
        else:
            seq = valid_idx[:1] + muts_idx + valid_idx[1:]
    rx = memogen.receiver(authic=authic)
    k = max(1, case["svc_every"])
    try:
        for j, i in enumerate(seq):
            rx.echos.append((pool[i][0], pool[i][1]))
            if (j + 1) % k == 0:
                rx.serviceAllRx()
        rx.serviceAllRx()
        rx.serviceAllRx()
    except Exception as ex:      # noqa: BLE001
        r.fail(exc_sig(ex, "C22/receive-raised"), "%r\n pool=%r" % (ex, [(bytes(p[0][:60]), p[2]) for p in pool][:8]))
        r.nontrivial = past_lookup
        return r
    if authic:
        for (text, src, vid) in rx.inbox:
            if (text, vid) in originals:
                continue
            # anything else must at least consist only of gram bodies that this very signer signed
            if vid is None or not composable(text.encode(), signed.get(vid, ())):
                r.fail("C22/unauthentic-memo-delivered", "inbox has %r from %r attributed to signer %r, which is neither a memo "
                       "that signer signed nor made only of gram bodies that signer signed; authentic memos: %r" % (
                           text[:80], src, vid, sorted(originals)[:3]))
    r.nontrivial = past_lookup
    r.labels.append("authic" if authic else "not-authic")
    if past_lookup:
        r.labels.append("mutant-past-code-lookup")
    if forged:
        r.labels.append("forged-gram-from-another-signer")
    if any(ms["signer"] % 6 in (4, 5) for ms in case["memos"]) or any(m[2][0] == "forge" and m[2][4] % 6 in (4, 5) for m in case["muts"]):
        r.labels.append("rotated-key-signer")
    if case["raw"]:
        r.labels.append("random-bytes")
    if rx.inbox:
        r.labels.append("some-memo-delivered")
    return r


def _strategy():
    ch = st.characters(exclude_categories=("Cs",))
    text = st.one_of(st.text(ch, min_size=1, max_size=30), st.text("aé€\U0001f600", min_size=1, max_size=300))
    memo = st.fixed_dictionaries({"code": st.integers(0, 3), "curt": st.booleans(),
                                  "extra": st.one_of(st.integers(0, 12), st.integers(0, 200), st.none()),
                                  "signer": st.sampled_from([0, 1, 2, 3, 4, 4, 5]), "text": text})
    b64ch = st.sampled_from("ABab09-_")
    mut = st.one_of(
        st.tuples(st.just("flip"), st.integers(0, 400), st.integers(1, 255)),
        st.tuples(st.just("flip"), st.integers(0, 40), st.integers(1, 255)),
        st.tuples(st.just("trunc"), st.integers(0, 400)),
        st.tuples(st.just("trunc"), st.integers(0, 40)),
        st.tuples(st.just("code"), st.integers(0, 9)),
        st.tuples(st.just("code"), st.integers(8, 9)),
        st.tuples(st.just("badcode"), st.tuples(b64ch, b64ch, b64ch).map("".join)),
        st.tuples(st.just("gnum"), st.one_of(st.integers(0, 5), st.integers(0, 64 ** 4 - 1))),
        st.tuples(st.just("badb64"), st.integers(0, 27), st.sampled_from([0x20, 0x2B, 0x2F, 0x3D, 0x80, 0xFF, 0x00, 0x7E])),
        st.tuples(st.just("badutf8"), st.integers(0, 7)),
        st.tuples(st.just("tail"), st.integers(0, 89)),
        st.tuples(st.just("extend"), st.binary(min_size=1, max_size=4)),
        # a correctly signed gram made by another signer for the same memo id (any of the ten codes, any gram number)
        st.tuples(st.just("forge"), st.integers(0, 9), st.one_of(st.integers(0, 4), st.integers(0, 64 ** 4 - 1)),
                  st.binary(min_size=1, max_size=12).map(lambda b: b"EVIL" + b), st.integers(0, 5)),
        st.tuples(st.just("forge"), st.sampled_from([2, 3, 6, 7, 9]), st.integers(0, 3),
                  st.just(b"EVIL"), st.integers(0, 5)),
    ).map(list)
    muts = st.lists(st.tuples(st.booleans(), st.integers(0, 50), mut).map(list), max_size=6)
    raw = st.one_of(st.binary(max_size=40), st.binary(min_size=1, max_size=200).map(lambda b: b"b" + b),
                    st.binary(min_size=2, max_size=200).map(lambda b: bytes([0x6C | (b[0] & 3)]) + b[1:]))
    return st.fixed_dictionaries({"authic": st.booleans(), "memos": st.lists(memo, min_size=1, max_size=2),
                                  "muts": muts, "raw": st.lists(raw, max_size=3),
                                  "order": st.lists(st.integers(0, 100), max_size=20),
                                  "svc_every": st.sampled_from([1, 1, 2, 5, 1000])})


def _forgery_strategy():
    """One signed multi-gram memo of a victim, 1-3 grams correctly signed by another party for the victim's memo id,
    delivered right after the victim's zeroth gram or before everything."""
    text = st.text("abcdefgh ", min_size=50, max_size=200)
    # the victim is signer 1; forgers are the other known signers and the unknown one.  Codes that carry their own signer
    # id (auth zeroth grams, signed acks) are the ones a foreign signer can get verified, so they are weighted up.
    memo = st.fixed_dictionaries({"code": st.sampled_from([1, 3]), "curt": st.booleans(), "extra": st.integers(0, 30),
                                  "signer": st.sampled_from([1, 1, 4]), "text": text})
    fg = st.tuples(st.just("forge"), st.sampled_from([9, 9, 9, 2, 6, 2, 6, 3, 7, 8, 0, 1, 4, 5]), st.integers(0, 3),
                   st.binary(min_size=1, max_size=8).map(lambda b: b"EVIL" + b), st.sampled_from([0, 2, 3, 0, 2, 5, 5])).map(list)
    fbody = st.one_of(st.sampled_from([b"\xff", b"PAY \xfe", b"\xc3", b"EVIL"]), st.binary(min_size=1, max_size=6),
                      st.text("abc ", min_size=1, max_size=8).map(lambda t: t.encode()))
    fm = st.tuples(st.just("forgememo"), st.booleans(), st.lists(fbody, min_size=1, max_size=3),
                   st.sampled_from([0, 2, 3, 0, 2, 5, 4])).map(list)
    muts = st.lists(st.tuples(st.booleans(), st.integers(0, 5), st.one_of(fg, fg, fm)).map(list), min_size=1, max_size=3)
    return st.fixed_dictionaries({"authic": st.just(True), "memos": st.lists(memo, min_size=1, max_size=1), "muts": muts,
                                  "raw": st.just([]), "order": st.just([]),
                                  "order_mode": st.sampled_from(["zeroth-mutants-rest", "zeroth-mutants-rest", "mutants-first"]),
                                  "svc_every": st.sampled_from([1, 2, 1000])})


def _dropped_memo_strategy():
    """A complete, correctly signed memo of another party that the receiver must drop (its text is not valid UTF-8) arrives
    first under a memo id; then the victim's memo arrives under the very same id.  Nothing of the dropped memo may
    survive into what is delivered for the victim."""
    text = st.text("abcdefgh ", min_size=20, max_size=120)
    memo = st.fixed_dictionaries({"code": st.sampled_from([1, 3]), "curt": st.booleans(), "extra": st.integers(0, 30),
                                  "signer": st.sampled_from([1, 4, 0]), "text": text})
    bad = st.sampled_from([b"\xff", b"PAY MALLORY \xfe", b"\xc3", b"\xe2\x82"])
    good = st.text("abc ", min_size=1, max_size=8).map(lambda t: t.encode())
    bodies = st.lists(st.one_of(bad, good), min_size=1, max_size=4).filter(lambda bs: any(b[-1] >= 0x80 or b[0] >= 0x80 for b in bs))
    fm = st.tuples(st.just("forgememo"), st.booleans(), bodies, st.sampled_from([0, 2, 3, 5])).map(list)
    muts = st.lists(st.tuples(st.booleans(), st.integers(0, 5), fm).map(list), min_size=1, max_size=2)
    return st.fixed_dictionaries({"authic": st.just(True), "memos": st.lists(memo, min_size=1, max_size=1), "muts": muts,
                                  "raw": st.just([]), "order": st.just([]), "order_mode": st.just("mutants-first"),
                                  "svc_every": st.sampled_from([1, 1, 3, 1000])})


def searches(tier):
    q = tier == "quick"
    return [("datagrams", _strategy(), 2500 if q else 30000),
            ("forgeries", _forgery_strategy(), 1500 if q else 12000),
            ("dropped-memo-then-same-id", _dropped_memo_strategy(), 500 if q else 6000)]

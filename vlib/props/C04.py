"""C04 Nesting doers inside a tock-0 DoDoer is observationally transparent.

Differential / metamorphic: a generated forest whose inner nodes are
DoDoer(tock=0, always=False) is run as generated and again flattened (the same
leaves, in the same order, listed directly in the Doist), with fresh doer
objects each time.  The leaf-only observations must be equal: enter order,
global sequence of (leaf, cycle, tyme) recur steps, per-leaf lifecycle string and
done flag, order of forced exits, Doist.done, number of cycles and final tyme.
No reference model is involved.
"""
from vlib import sched, schedgen
from vlib.core import Result
from vlib.props import C03

PID = "C04"
RULE = ("cases: fault-free forests (<= 7 leaves, depth <= 3, inner nodes DoDoer(tock=0, always=False)), arbitrary per-step "
        "yields, return values and optional limit; each is run nested and flattened. non-trivial = (depth >= 2 or >= 2 "
        "DoDoer groups) and some leaf yields a positive tock that is not a multiple of the scheduler tock or yields "
        ">= 2 distinct positive tocks; distinct = canonical hash of the nested program")
ASSUMPTIONS = ["flattening keeps leaf order (preorder)", "DoDoers themselves are not part of the compared observation"]


def flatten(prog):
    flat = dict(prog)
    flat["doers"] = [dict(l) for l in schedgen.leaves(prog["doers"])]
    return flat


def leaf_names(nodes, counter=None, out=None):
    """Names (d<i>, preorder incl. DoDoers) of the leaves, in order."""
    if counter is None:
        counter, out = [0], []
    for n in nodes:
        name = "d%d" % counter[0]
        counter[0] += 1
        if n["k"] == "dodoer":
            leaf_names(n["kids"], counter, out)
        else:
            out.append(name)
    return out


def observe(run, names):
    idx = {n: i for i, n in enumerate(names)}
    enter = [idx[e[2]] for e in run.ev if e[1] == "E" and e[2] in idx]
    recurs = [(idx[e[2]], e[3], e[4]) for e in run.ev if e[1] == "R" and e[2] in idx]
    lc = sched.lifecycles(run.ev)
    life = [lc.get(n, []) for n in names]
    dones = [run.dones[n] for n in names]
    forced = [idx[e[2]] for e in run.ev if e[1] == "Z" and e[2] in idx]
    exits = [idx[e[2]] for e in run.ev if e[1] == "X" and e[2] in idx]
    return {"enter": enter, "recurs": recurs, "life": life, "dones": dones, "forced": forced,
            "exits": exits, "doist_done": run.done, "cycles": run.cycles, "tyme": run.tyme, "exc": run.exc}


def run_case(prog):
    r = Result()
    flat = flatten(prog)
    rn = sched.run_program(prog, prog.get("mode") or "do")
    rf = sched.run_program(flat, prog.get("mode") or "do")
    on = observe(rn, leaf_names(prog["doers"]))
    of = observe(rf, leaf_names(flat["doers"]))
    if "Runaway" in (rn.exc, rf.exc):
        r.fail("C04/run-did-not-terminate", "nested exc=%r flat exc=%r" % (rn.exc, rf.exc))
    elif on != of:
        key = next(k for k in on if on[k] != of[k])
        tmp = Result()
        C03.judge(prog, rn, tmp)
        tmpf = Result()
        C03.judge(flat, rf, tmpf)    # the flat run itself must agree with the reference scheduler
        if not tmpf.failures and tmp.failures and tmp.failures[0].sig == "C03/nested-asap-base":
            r.fail("C04/nested-asap-base", "nested and flat runs differ in %s exactly as the known DoDoer asap-due "
                   "defect predicts: nested %r flat %r" % (key, on[key][:10] if isinstance(on[key], list) else on[key],
                                                          of[key][:10] if isinstance(of[key], list) else of[key]))
        else:
            r.fail("C04/" + key, "nested %r\nflat   %r" % (on[key], of[key]))
    depth = schedgen.depth_of(prog["doers"])
    groups = sum(1 for _ in _dodoers(prog["doers"]))
    tock = prog["tock"]
    inter = False
    for lf in schedgen.leaves(prog["doers"]):
        pos = {y for _a, y in lf["steps"] if y}
        if len(pos) >= 2 or any(abs((y / tock) - round(y / tock)) > 1e-9 for y in pos):
            inter = True
    r.nontrivial = (depth >= 2 or groups >= 2) and inter
    r.labels.append("depth=%d" % depth)
    if on["forced"]:
        r.labels.append("forced-exits")
    if prog.get("limit") is not None:
        r.labels.append("limit")
    r.labels.append("mode:" + (prog.get("mode") or "do"))
    return r


def _dodoers(nodes):
    for n in nodes:
        if n["k"] == "dodoer":
            yield n
            yield from _dodoers(n["kids"])


def searches(tier):
    q = tier == "quick"
    return [
        ("nested-vs-flat", schedgen.program(maxdepth=3, max_leaves=7, dd_odds=1, prerun_ok=True), 1500 if q else 20000),
        ("nested-vs-flat-split-yields", schedgen.program(maxdepth=3, max_leaves=7, split_yields=True, dd_odds=1, prerun_ok=True),
         1000 if q else 12000),
    ]

"""C14 HTTP requests built by the client are recovered exactly by the server.

Round trip: a generated request spec is built by clienting.Requester.build(),
the bytes are parsed by serving.Requestant and turned into a WSGI environ by
Server.buildEnviron, and what the server recovered is compared with the spec
through *independent* stdlib decoding:
  method      == spec method
  path        Requestant.path == path and unquote(PATH_INFO) == path
  query       parse_qsl(QUERY_STRING, keep_blank_values=True) == [(str(k), str(v))...]
  headers     every header given to the client is recovered with the same value
              (names case-insensitively), also as HTTP_* in the environ; a name the client was
              given more than once (its header container is multi-valued and it sends one line
              per value) is recovered with every value in order: parser headers.getall(name),
              environ the values combined into one comma separated string
  body        Requestant.body and wsgi.input == the bytes the client put after the
              head; CONTENT_LENGTH == their length; for JSON data json.loads(body) == data
The request must parse without error and leave no unconsumed bytes.
"""
import json
import re
from urllib.parse import parse_qsl, unquote

from hypothesis import strategies as st

from hio.core.http import clienting, httping, serving
from vlib import httpdrive, httpgen
from vlib.core import Result, assert_in_tree

assert_in_tree(clienting, httping, serving)

PID = "C14"
RULE = ("cases: method x unicode path (segments without '?', '#', control characters) x query dict (arbitrary unicode keys "
        "and values incl. reserved characters, empties, ints) x <= 94 headers (token names, latin-1 values; optionally 1-4 of "
        "the names given again - same or other letter case - with further values) x body as raw "
        "bytes / JSON data / form fields (urlencoded or multipart), with or without explicit Content-Length (on every "
        "method, the body-less GET included; also remembered across a rebuild that changes the method), optionally after "
        "1-2 earlier requests on the same persistent connection (one Requestant re-armed per message, as the server does), "
        "optionally built a 2nd / 3rd time by the same Requester from what it remembers (rebuild() with the body "
        "arguments given again and, optionally, a new method / path / query dict / header list - empty ones included). non-trivial = "
        "non-ASCII path, or a reserved character (&=+#%?;/ or blank) or non-ASCII in a query key, or >= 10 headers; distinct "
        "= canonical hash of the spec")
ASSUMPTIONS = ["the path argument is URL path syntax: it starts with a single '/', has no '?', '#', control characters or "
               "trailing blanks (Python's urlsplit strips those)", "form fields are judged only as body bytes (the statement "
               "lists what the server recovers)", "header values without leading/trailing blanks",
               "a header name given more than once: the environ must hold all its values in order combined with commas "
               "(blanks around the commas not judged; not judged at all for names that share their CGI key with another "
               "name)", "an explicit Content-Length is the length of the raw body the caller gives with it"]

RESERVED_HDR = {"host", "accept-encoding", "content-length", "content-type", "transfer-encoding", "expect"}


class StubServant:
    eha = ("127.0.0.1", 8080)


def make_server():
    srv = object.__new__(serving.Server)
    srv.name = "verif"
    srv.scheme = "http"
    srv.servant = StubServant()
    return srv


def run_case(spec):
    diag = {}
    r = judge(spec, diag)
    if r.failures and diag.get("overdeclared"):
        # whatever the server then made of the connection, the cause is in the client's own bytes: a message declares
        # a longer body than the client put after its head, so the server waits for bytes that never come or takes
        # them from the next request. One signature for all the symptoms of it.
        first = r.failures[0]
        del r.failures[:]
        r.fail("C14/not-recovered(client declares more Content-Length than it sends)",
               "%s; server side symptom: %s %s" % (diag["overdeclared"], first.sig, first.detail))
    return r


def judge(spec, diag):
    r = Result()
    kw = dict(hostname="127.0.0.1", port=8080, method=spec["method"], path=spec["path"],
              qargs=dict(spec["qargs"]), headers=[tuple(h) for h in spec["headers"]])
    hdrs = [list(h) for h in spec["headers"]]
    bodykind = spec["bodykind"]
    if bodykind == "raw":
        kw["body"] = spec["body"]
    elif bodykind == "data":
        kw["data"] = spec["data"]
    elif bodykind == "fargs":
        kw["fargs"] = dict(spec["fargs"])
    elif bodykind == "multipart":
        kw["fargs"] = dict(spec["fargs"])
        kw["headers"] = kw["headers"] + [("Content-Type", "multipart/form-data")]
    # "cl_any_method" (cases recorded before it existed do not have it): the caller's explicit Content-Length is given
    # with every method - also with GET, whose body the client documents it does not send - and stays remembered when
    # a rebuild changes the method
    cl_any = bool(spec.get("cl_any_method"))
    if spec.get("explicit_cl") and bodykind == "raw" and (spec["method"] != "GET" or cl_any):
        kw["headers"] = kw["headers"] + [("Content-Length", str(len(spec["body"])))]
    reqr = clienting.Requester(**kw)
    msg = reqr.build()
    # differential requests: the same Requester builds the request again from what it remembers (method, path, query
    # arguments, headers); only the body arguments, which reinit() documents as reset, are given again
    reuse = spec.get("reuse") or 0
    earlier = b""
    changes = spec.get("changes") or {}
    built = [(bytes(reqr.head), len(msg) - len(reqr.head))]     # (head, bytes after it) of every message of this client
    for k_ in range(reuse):
        earlier += msg
        rk = {k: kw[k] for k in ("body", "data", "fargs") if k in kw}
        if k_ == reuse - 1:
            # the last rebuild may give some of the remembered parts again - also as EMPTY values, which are values
            if changes.get("method") is not None and (not spec.get("explicit_cl") or cl_any):
                # (an explicit Content-Length header the caller gave earlier stays remembered; the body it describes
                # is given again with the new method)
                rk["method"] = changes["method"]
            if changes.get("path") is not None:
                rk["path"] = changes["path"]
            if changes.get("qargs") is not None:
                rk["qargs"] = dict(changes["qargs"])
            if changes.get("headers") is not None and bodykind != "multipart" and not spec.get("explicit_cl"):
                rk["headers"] = [tuple(h) for h in changes["headers"]]
        msg = reqr.rebuild(**rk)
        built.append((bytes(reqr.head), len(msg) - len(reqr.head)))
        if k_ == reuse - 1:
            spec = dict(spec)
            for key in ("method", "path", "qargs"):
                if key in rk:
                    spec[key] = changes[key]
            if "headers" in rk:
                spec["headers"] = changes["headers"]
                hdrs = [list(h) for h in changes["headers"]]
            if any(key in rk for key in ("method", "path", "qargs", "headers")):
                r.labels.append("rebuilt-with-changed-parts")
    head = reqr.head
    sent_body = msg[len(head):]
    # what the client's own bytes say: the Content-Length a message declares against the bytes put after its head
    for bhead, nafter in built:
        declared = [ln.split(b":", 1)[1].strip() for ln in bhead.split(b"\r\n")[1:]
                    if ln.split(b":", 1)[0].strip().lower() == b"content-length"]
        if len(declared) == 1 and declared[0].isdigit() and int(declared[0]) > nafter:
            diag["overdeclared"] = "the client, given a raw body of %d bytes and an explicit Content-Length, sent %d bytes " \
                "after the head %r" % (len(spec["body"]), nafter, bhead[:200])
            break
    # earlier requests on the same (persistent) connection: the server reuses one Requestant per connection, so
    # whatever it recovers for THIS request must come from this request's bytes only
    before = b""
    for pv in spec.get("prev") or []:
        pk = dict(hostname="127.0.0.1", port=8080, method=pv["method"], path=pv["path"],
                  headers=[tuple(h) for h in pv["headers"]])
        if pv["method"] != "GET":
            if pv.get("json"):
                pk["data"] = {"k": pv["body"].decode("latin-1")}
            else:
                pk["body"] = pv["body"]
        before += clienting.Requester(**pk).build()
    before += earlier
    nprev = len(spec.get("prev") or []) + reuse
    results, left, raised = httpdrive.drive_requestant([before + msg])
    if raised or len(results) != nprev + 1:
        r.fail("C14/not-parsed" + ("(after earlier requests on the connection)" if nprev else ""),
               "raised=%r parsed %d of %d messages; start line %r" % (raised, len(results), nprev + 1,
                                                                      msg.split(b"\r\n")[0][:120]))
        return finish(r, spec)
    got = results[-1]
    wire_names = {ln.split(b":", 1)[0].decode("latin-1").lower() for ln in bytes(head).split(b"\r\n")[1:] if b":" in ln}
    extra = set(got["headers"]) - wire_names
    if extra:
        r.fail("C14/headers-from-an-earlier-request", "server reports headers %r for a request whose bytes carry only %r" % (
            sorted(extra)[:6], sorted(wire_names)[:12]))
        return finish(r, spec)
    if got["errored"]:
        r.fail("C14/server-errored", "error %r; start line %r" % (got["error"], msg.split(b"\r\n")[0][:120]))
        return finish(r, spec)
    if left:
        r.fail("C14/unconsumed-bytes", "%r" % left[:60])
        return finish(r, spec)
    # environ through the real buildEnviron
    msg2 = bytearray(before + msg)
    req = serving.Requestant(msg=msg2, remoter=httpdrive.StubRemoter())
    for _k in range(nprev + 1):
        req.parse()
        if _k < nprev:
            req.makeParser()
    env = make_server().buildEnviron(req)
    leaked = [k for k in env if k.startswith("HTTP_") and k[5:] not in {n.replace("-", "_").upper() for n in wire_names}]
    if leaked:
        r.fail("C14/environ-headers-from-an-earlier-request", "environ has %r, the request's bytes carry only %r" % (
            leaked[:6], sorted(wire_names)[:12]))
        return finish(r, spec)
    if got["method"] != spec["method"] or env["REQUEST_METHOD"] != spec["method"]:
        r.fail("C14/method", "sent %r got %r / %r" % (spec["method"], got["method"], env["REQUEST_METHOD"]))
    elif got["path"] != spec["path"]:
        r.fail("C14/path", "sent %r recovered %r (request line %r)" % (spec["path"], got["path"], msg.split(b"\r\n")[0][:120]))
    elif unquote(env["PATH_INFO"]) != spec["path"]:
        r.fail("C14/path-info", "sent %r PATH_INFO %r" % (spec["path"], env["PATH_INFO"]))
    else:
        want_q = [(str(k), str(v)) for k, v in spec["qargs"]]
        got_q = parse_qsl(env["QUERY_STRING"], keep_blank_values=True, strict_parsing=False) if env["QUERY_STRING"] else []
        if got_q != want_q:
            r.fail("C14/query", "sent %r recovered %r (query string %r)" % (want_q, got_q, env["QUERY_STRING"][:120]))
    if not r.failures:
        cgi = [str(x).replace("-", "_").upper() for x in got["headers"].keys()]     # every header name on the wire
        given = {}                       # name (case-insensitive) -> the values the client was given for it, in order
        for n, v in hdrs:
            given.setdefault(n.lower(), []).append(v)
        for n, v in hdrs:
            key = n.replace("-", "_").upper()
            want = given[n.lower()]
            if len(want) > 1:
                # a name given more than once: the client sends one line per value; the server's multi-valued header
                # container must hold every value in order, the environ (one string per name) all of them combined
                # with commas (RFC 9110 5.3 / RFC 3875 4.1.18; blanks around the comma are not judged)
                gl = list(req.headers.getall(n, []))
                if gl != want:
                    r.fail("C14/repeated-header", "header %r sent with values %r, the parser's headers.getall() has %r" % (
                        n, want, gl))
                    break
                ev = env.get("HTTP_" + key)
                sep = "[ \t]*[,;][ \t]*" if n.lower() == "cookie" else "[ \t]*,[ \t]*"
                if cgi.count(key) == 1 and (ev is None or not re.fullmatch(sep.join(re.escape(x) for x in want), ev)):
                    r.fail("C14/repeated-header-environ", "header %r sent with values %r, environ HTTP_%s is %r" % (
                        n, want, key, ev))
                    break
                continue
            gv = got["headers"].get(n.lower())
            # two header names that differ only in '-' / '_' share one CGI environ key (inherent in WSGI): the
            # environ side is then not judged for them, the parser side still is
            ev = env.get("HTTP_" + key) if cgi.count(key) == 1 else v
            if gv != v or ev != v:
                r.fail("C14/header", "header %r sent %r recovered %r / environ %r" % (n, v, gv, ev))
                break
    if not r.failures:
        if got["body"] != sent_body:
            r.fail("C14/body", "client put %d bytes after the head, server recovered %d: %r vs %r" % (
                len(sent_body), len(got["body"]), sent_body[:40], got["body"][:40]))
        elif env["wsgi.input"].read() != sent_body:
            r.fail("C14/wsgi-input", "wsgi.input differs from the sent body")
        elif env.get("CONTENT_LENGTH") != str(len(sent_body)):
            r.fail("C14/content-length", "CONTENT_LENGTH %r for %d body bytes" % (env.get("CONTENT_LENGTH"), len(sent_body)))
        elif bodykind == "raw" and spec["method"] != "GET" and sent_body != spec["body"]:
            r.fail("C14/raw-body-altered", "client sent %r for body %r" % (sent_body[:40], spec["body"][:40]))
        elif bodykind == "data" and spec["method"] != "GET":
            try:
                back = json.loads(got["body"].decode("utf-8"))
            except ValueError as ex:
                back = "<%s>" % ex
            if back != spec["data"]:
                r.fail("C14/json-data", "data %r recovered %r" % (spec["data"], back))
    return finish(r, spec)


def finish(r, spec):
    nonascii_path = any(ord(c) > 127 for c in spec["path"])
    reserved = set("&=+#%?;/ ")
    qkey = any((set(str(k)) & reserved) or any(ord(c) > 127 for c in str(k)) for k, _v in spec["qargs"])
    r.nontrivial = nonascii_path or qkey or len(spec["headers"]) >= 10
    if nonascii_path:
        r.labels.append("non-ascii-path")
    if qkey:
        r.labels.append("reserved/non-ascii-query-key")
    if len(spec["headers"]) >= 10:
        r.labels.append("headers>=10")
    if spec.get("prev"):
        r.labels.append("after-earlier-requests-on-the-connection")
    if spec.get("reuse"):
        r.labels.append("rebuilt-by-the-same-requester")
    if len({h[0].lower() for h in spec["headers"]}) < len(spec["headers"]):
        r.labels.append("repeated-header-name")
    if spec.get("explicit_cl") and spec.get("cl_any_method") and spec["bodykind"] == "raw" and spec["method"] == "GET":
        r.labels.append("GET-with-explicit-content-length")
    r.labels.append("body:" + spec["bodykind"])
    r.labels.append("method:" + ("GET" if spec["method"] == "GET" else "other"))
    return r


SEG = st.text(alphabet=st.characters(min_codepoint=0x20, max_codepoint=0x2FFF,
                                     blacklist_characters="?#/\x7f", blacklist_categories=("Cs", "Cc")),
              min_size=1, max_size=8)


def path_strategy():
    return st.lists(SEG, max_size=4).map(lambda segs: ("/" + "/".join(segs)).rstrip(" ") or "/") \
        .filter(lambda p: not p.startswith("//"))


QTEXT = st.one_of(
    st.text(alphabet=st.characters(min_codepoint=0x20, max_codepoint=0x2FFF, blacklist_characters="\x7f",
                                   blacklist_categories=("Cs", "Cc")), max_size=8),
    st.sampled_from(["a&b", "a=b", "a b", "a+b", "a#b", "a%b", "%41", "a;b", "a?b", "é", "日本", "", "k", "key", "/"]))


def qargs_strategy():
    val = st.one_of(QTEXT, st.integers(-5, 5000), st.booleans())
    return st.lists(st.tuples(QTEXT, val).map(list), max_size=5, unique_by=lambda kv: str(kv[0]))


HDR_NAME = st.one_of(httpgen.header_name(), httpgen.header_name(),
                     st.sampled_from(["Accept", "X-Forwarded-For", "Via", "Cache-Control", "Accept-Language", "X-Tag"])) \
    .filter(lambda n: n.lower() not in RESERVED_HDR)


@st.composite
def with_repeats(draw, base):
    """A header list of distinct names in which, in about half of the draws, 1-4 of the names are given again (as
    written, upper or lower case: field names are case-insensitive) with a further value, anywhere in the list - what a
    caller does with the client's multi-valued header container for list-valued fields (Accept, Via, X-Forwarded-For...)."""
    hs = draw(base)
    if not hs or not draw(st.booleans()):
        return hs
    out = [list(h) for h in hs]
    extra = draw(st.lists(st.tuples(st.integers(0, len(hs) - 1), st.sampled_from(["same", "same", "upper", "lower"]),
                                    httpgen.header_value(), st.integers(0, 200)), min_size=1, max_size=4))
    for idx, how, val, pos in extra:
        n = hs[idx][0]
        out.insert(pos % (len(out) + 1), [n.upper() if how == "upper" else n.lower() if how == "lower" else n, val])
    return out


def header_list():
    hv = st.tuples(HDR_NAME, httpgen.header_value()).map(list)
    return with_repeats(st.one_of(st.lists(hv, max_size=8, unique_by=lambda h: h[0].lower()),
                                  st.lists(hv, min_size=10, max_size=90, unique_by=lambda h: h[0].lower())))


JSONV = st.recursive(st.one_of(st.none(), st.booleans(), st.integers(-10 ** 6, 10 ** 6), st.text(max_size=8)),
                     lambda ch: st.one_of(st.lists(ch, max_size=3), st.dictionaries(st.text(max_size=4), ch, max_size=3)),
                     max_leaves=6)


def spec_strategy(**fixed):
    ftext = st.text(alphabet="abcdefghijklmnopqrstuvwxyz0123456789 -_.é", max_size=8)
    parts = {
        "method": st.sampled_from(httpgen.METHODS),
        "path": path_strategy(),
        "qargs": qargs_strategy(),
        "headers": header_list(),
        "bodykind": st.sampled_from(["raw", "raw", "data", "fargs", "multipart", "none"]),
        "body": httpgen.body_bytes(120),
        "data": st.dictionaries(st.text(max_size=5), JSONV, max_size=4),
        "fargs": st.lists(st.tuples(ftext.filter(bool), ftext).map(list), max_size=3, unique_by=lambda kv: kv[0]),
        "explicit_cl": st.booleans(),
        "cl_any_method": st.booleans(),
        "prev": st.one_of(st.just([]), st.just([]), st.lists(prev_request(), min_size=1, max_size=2)),
        "reuse": st.sampled_from([0, 0, 1, 2]),
        "changes": st.one_of(st.none(), st.fixed_dictionaries({
            "method": st.one_of(st.none(), st.sampled_from(httpgen.METHODS)),
            "path": st.one_of(st.none(), st.none(), path_strategy()),
            "qargs": st.one_of(st.none(), st.just([]), st.just([]), qargs_strategy()),
            "headers": st.one_of(st.none(), st.none(), st.just([]), with_repeats(st.lists(
                st.tuples(HDR_NAME, httpgen.header_value()).map(list), max_size=4, unique_by=lambda h: h[0].lower())))})),
    }
    parts.update(fixed)
    return st.fixed_dictionaries(parts)


def prev_request():
    name = httpgen.header_name().filter(lambda n: n.lower() not in RESERVED_HDR)
    hv = st.tuples(st.one_of(name, st.sampled_from(["X-Trace", "Content-Language", "Accept"])), httpgen.header_value()).map(list)
    return st.fixed_dictionaries({"method": st.sampled_from(["GET", "POST", "PUT"]), "path": st.sampled_from(["/", "/a", "/b/c"]),
                                  "headers": st.lists(hv, max_size=3, unique_by=lambda h: h[0].lower()),
                                  "body": st.binary(max_size=20), "json": st.booleans()})


def searches(tier):
    q = tier == "quick"
    # the second search keeps to raw bodies of at least one byte under an explicit Content-Length on every method (in
    # the first one only about one case in 200 is a GET of that kind)
    return [("requests", spec_strategy(), 2500 if q else 30000),
            ("requests-with-explicit-content-length",
             spec_strategy(bodykind=st.just("raw"), explicit_cl=st.just(True), cl_any_method=st.just(True),
                           body=httpgen.body_bytes(120).filter(bool),
                           method=st.sampled_from(httpgen.METHODS + ["GET", "GET"])), 300 if q else 4000)]

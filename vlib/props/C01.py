"""C01 Every doer runs a well-formed lifecycle on every exit path.

Generated programs with every stop cause (natural completion, limit, exception
in enter or at step k of any doer at any depth, completion inside enter, runtime
remove / extend incl. a new doer whose enter raises, KeyboardInterrupt raised
inside a doer) are run by the real Doist.  The oracle is a validity predicate on
each doer's own event string - no reference scheduler is involved:

    every lifecycle matches  E R* (C | Z | A) X     (E A X for a failing enter)
    the terminator agrees with what the doer's own code did:
        returned by itself -> C, raised -> A, neither -> Z (force-closed)
    X exactly once, nothing after X, and every started lifecycle is complete when
    do() returns or raises; nothing may happen after that (a lifecycle finished by
    the garbage collector after the run is a violation).
"""
import re

from vlib import sched, schedgen
from vlib.core import Result

PID = "C01"
RULE = ("cases: scheduler programs (<= 6 leaves of the five doer kinds + DoDoers nested to depth 3 with arbitrary own "
        "tock and always flag, <= 6 steps each, pool of <= 3 extra doers) with armed faults: raise in enter / at a "
        "step, KeyboardInterrupt at a step, extend / remove calls on own or ancestor scheduler made from a recur step or "
        "from the doer's enter context (also several calls in one context, e.g. remove then extend of one sibling, bound-method "
        "doers named afresh in each call), limits. "
        "non-trivial = the run does not end by natural completion and >= 2 doers are alive when it stops; distinct = "
        "canonical hash of the program")
ASSUMPTIONS = ["scripted doers follow the canonical try/except GeneratorExit/except Exception/else/finally skeleton (bareDo) "
               "or subclass Doer/DoDoer and only log in the lifecycle hooks",
               "re-adding a doer that removed itself and is still running is never generated (undefined by the API)"]

LIFE = re.compile(r"^ER*[CZA]X$")


def alive_at_stop(run):
    """Names with a lifecycle force-closed (Z) by the final stop (not inside a remove call window)."""
    windows = [(c["seq0"], c.get("seq1", 10 ** 9)) for c in run.calls if c["op"] == "remove"]
    out = []
    for e in run.ev[:run.trace.returned]:
        if e[1] == "Z" and not any(a <= e[0] < b for a, b in windows):
            out.append(e[2])
    return out


def judge(prog, run, r):
    ev = run.ev
    ret = run.trace.returned
    if run.exc == "Runaway":
        r.fail("C01/run-did-not-terminate", "more than %d cycles" % sched.MAX_CYCLES)
        return
    if run.late:
        r.fail("C01/events-after-run-returned", "after do() returned/raised (%r): %r" % (
            run.exc, [(e[1], e[2]) for e in run.late][:8]))
        return
    lcs = sched.lifecycles(ev, ret)
    dd = set(run.kids)
    anyexc = bool(run.raised) or run.exc is not None
    last_enter = {}
    for e in run.ev:
        if e[1] == "E":
            last_enter[e[2]] = e[0]

    def returned_itself(name):
        # 'its own code returned' counts only if it happened in the doer's last lifecycle (a pool doer may have
        # finished a first lifecycle under one scheduler and been force-closed in a later one)
        return name in run.own_return and run.own_return_seq.get(name, 10 ** 9) >= last_enter.get(name, -1)
    for name, lst in lcs.items():
        for k, s in enumerate(lst):
            last = k == len(lst) - 1
            if not last and not s.endswith("X"):
                r.fail("C01/entered-again-while-running", "%s was entered again while its lifecycle %r was still running "
                       "(no exit yet); all lifecycles of it: %r" % (name, s, lst))
                return
            if not LIFE.match(s):
                if re.match(r"^ER*X$", s) and _kbi_through(run, name):
                    r.fail("C01/keyboardinterrupt-skips-terminator",
                           "%s lifecycle %r: KeyboardInterrupt raised inside a doer unwinds it (and its DoDoer "
                           "ancestors) through exit only, with none of clean/cease/abort" % (name, s))
                    continue
                if not s.endswith("X"):
                    r.fail("C01/no-exit", "%s lifecycle %r has no exit before do() returned (exc=%r)" % (name, s, run.exc))
                else:
                    r.fail("C01/malformed-lifecycle", "%s lifecycle %r" % (name, s))
                return
            if not last:
                continue
            term = s[-2]
            if name in dd:
                if returned_itself(name):
                    want = "C"
                elif term == "A" and anyexc:
                    want = "A"
                else:
                    want = "Z"
            elif name in run.raised and run.raised[name] != "kbi":
                want = "A"
            elif returned_itself(name):
                want = "C"
            else:
                want = "Z"
            if term != want:
                r.fail("C01/terminator-mismatch", "%s lifecycle %r: its own code %s, expected terminator %s" % (
                    name, s, "raised" if want == "A" else ("returned" if want == "C" else "neither returned nor raised"),
                    want))
                return


def _kbi_through(run, name):
    """True when a KeyboardInterrupt was raised by name or by a descendant of DoDoer name."""
    kb = [n for n, v in run.raised.items() if v == "kbi"]
    if not kb:
        return False
    if name in kb:
        return True
    def desc(p):
        for k in run.kids.get(p, []):
            yield k
            yield from desc(k)
    # kids recorded at the end of the run; use the host map for doers removed meanwhile
    hosts = run.ctx.host
    for k in kb:
        h = hosts.get(k)
        while h is not None and getattr(h, "vname", None):
            if h.vname == name:
                return True
            h = hosts.get(h.vname)
    return False


def classify(prog, run, r):
    alive = alive_at_stop(run)
    natural = run.done is True and run.exc is None
    r.nontrivial = (not natural) and len(alive) >= 2
    if run.exc:
        r.labels.append("stop:" + run.exc.split(":")[0])
    elif natural:
        r.labels.append("stop:completed")
    else:
        r.labels.append("stop:limit")
    if any(v == "kbi" for v in run.raised.values()):
        r.labels.append("kbi-inside-doer")
    if run.calls:
        r.labels.append("membership-ops")
    if any(c.get("exc") for c in run.calls):
        r.labels.append("membership-call-raised")
    if schedgen.depth_of(prog["doers"]) >= 2:
        r.labels.append("depth>=2")


def run_case(prog):
    r = Result()
    run = sched.run_program(prog, prog.get("mode") or "do", collect="auto")
    judge(prog, run, r)
    classify(prog, run, r)
    r.labels.append("mode:" + (prog.get("mode") or "do"))
    return r


def _strategies():
    full = schedgen.program(maxdepth=3, faults=True, members=True, always_ok=True,
                            dd_tocks=(0.0, 0.0, 0.25, 1.0), dd_odds=1)
    nomem = schedgen.program(maxdepth=3, faults=True, always_ok=True, dd_tocks=(0.0, 0.0, 0.5), dd_odds=1)
    return full, nomem


def _group_strategy():
    """Hosts with several long-lived members and callers that remove / extend 2-4 of them in one call, in any order."""
    return schedgen.program(maxdepth=2, faults=False, members=True, always_ok=True, dd_tocks=(0.0, 0.0, 0.25), dd_odds=2,
                            group_ops=True, min_leaves=4, max_leaves=8, max_steps=4)


def _enter_ctx_strategy(faults=True):
    """Membership calls made from a doer's enter context: while Doist.enter / DoDoer.enter is still entering its doers
    (before the first cycle, or inside a DoDoer that is itself extended into a running scheduler at a later cycle)."""
    return schedgen.program(maxdepth=2, faults=faults, members=True, always_ok=True, dd_tocks=(0.0, 0.0, 0.25), dd_odds=2,
                            enter_ops=True, min_leaves=2, max_steps=4)


def searches(tier):
    q = tier == "quick"
    full, nomem = _strategies()
    return [("enter-context-calls", _enter_ctx_strategy(), 300 if q else 5000),
            # restart (remove then extend) of a sibling from an enter context or a step, bound-method doers frequent: the
            # caller names the doer afresh in each call (equal, not identical objects)
            ("restart-bound-method", schedgen.program(maxdepth=1, members=True, always_ok=True, dd_tocks=(0.0,),
                                                      enter_ops=True, min_leaves=2, max_steps=3,
                                                      kinds=["method", "method", "doer", "doize"]), 200 if q else 3000),
            ("faults", nomem, 500 if q else 8000),
            ("faults+membership", full, 500 if q else 8000),
            ("group-membership", _group_strategy(), 300 if q else 5000),
            ("same-cycle-calls", schedgen.same_cycle_program(), 300 if q else 5000)]

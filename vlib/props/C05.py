"""C05 Run termination and done flags are exact.

Fault-free programs, with and without limits (multiples and non-multiples of
tock, smaller than one tock), non-zero start tymes, doers finishing inside
enter, every kind of return value.  Judged against the reference scheduler:
number of cycles, final tyme, Doist.done; and per doer: done is False when
observed inside its first recur, equals the value it returned when it finished
on its own (None leaves the False set at enter, or None for Doer subclasses),
and is never truthy for a doer that was force-closed or returned a falsy value.
"""
from vlib import sched, schedgen, schedmodel
from vlib.core import Result

PID = "C05"
RULE = ("cases: fault-free scheduler programs as in C03 (flat with the full yield alphabet; nested under tock-0 DoDoers "
        "with each leaf yielding either only 0/None or only positive tocks, which avoids the C03 known defect by "
        "construction); limits None or positive incl. non-multiples of tock and < tock; return values True/False/None/"
        "1/0/'x'/''. non-trivial = (limit not a multiple of tock, or >= 2 distinct return values, or a doer finishing "
        "in enter) and >= 2 doers; distinct = canonical hash of the program")
ASSUMPTIONS = ["reference scheduler vlib/schedmodel.py", "Python 3.12: generator.close() returns None, so a forced close "
               "must leave done unchanged; the oracle only requires 'not truthy' so it is also right on >= 3.13"]


def judge(prog, run, r):
    m = schedmodel.Model(prog).run()
    if m.truncated:
        return m
    if run.cycles != m.cycles:
        r.fail("C05/cycles", "real ran %d cycles, statement/model says %d (limit %r tock %r start %r)" % (
            run.cycles, m.cycles, prog.get("limit"), prog["tock"], prog.get("tyme")))
        return m
    if run.tyme != m.tyme:
        r.fail("C05/final-tyme", "final tyme %r model %r" % (run.tyme, m.tyme))
        return m
    if run.done is not m.doist_done:
        r.fail("C05/doist-done", "Doist.done %r model %r" % (run.done, m.doist_done))
        return m
    for name, fd in run.firstdone.items():
        if fd is not False:
            r.fail("C05/done-not-false-after-enter", "%s saw done=%r in its first recur" % (name, fd))
            return m
    for name in m.enter_order:
        got = run.dones.get(name)
        if m.term.get(name) == "C":
            v = m.finished[name]
            if v is None:
                ok = got is None or got is False
            else:
                ok = (got == v) and (type(got) is type(v))
            if not ok:
                r.fail("C05/done-value", "%s returned %r on its own but done is %r" % (name, v, got))
                return m
            if got and not v:
                r.fail("C05/done-true-without-truthy-return", "%s returned %r, done %r" % (name, v, got))
                return m
        else:
            if got:
                r.fail("C05/done-true-on-forced-close", "%s was force-closed but done is %r" % (name, got))
                return m
    return m


def run_case(prog):
    r = Result()
    run = sched.run_program(prog, prog.get("mode") or "do")
    if run.exc == "Runaway":
        r.fail("C05/run-did-not-terminate", "more than %d cycles" % sched.MAX_CYCLES)
        return r
    if run.exc:
        r.fail("C05/unexpected-exception", run.exc)
        return r
    m = judge(prog, run, r)
    tock = prog["tock"]
    lim = prog.get("limit")
    lvs = list(schedgen.leaves(prog["doers"]))
    rets = {repr(l["end"][1]) for l in lvs if l["end"][0] == "ret"}
    nonmult = lim is not None and abs(lim / tock - round(lim / tock)) > 1e-9
    enterfin = any(l["enter"] == "ret" for l in lvs)
    r.nontrivial = (nonmult or len(rets) >= 2 or enterfin) and len(lvs) >= 2
    if lim is not None:
        r.labels.append("limit")
        if not m.doist_done:
            r.labels.append("stopped-by-limit")
    if nonmult:
        r.labels.append("limit-not-multiple")
    if lim is not None and lim < tock:
        r.labels.append("limit<tock")
    if enterfin:
        r.labels.append("finish-in-enter")
    if schedgen.depth_of(prog["doers"]):
        r.labels.append("nested")
    r.labels.append("mode:" + (prog.get("mode") or "do"))
    return r


def searches(tier):
    q = tier == "quick"
    return [
        ("flat", schedgen.program(maxdepth=0, prerun_ok=True), 1500 if q else 20000),
        ("nested", schedgen.program(maxdepth=2, split_yields=True, prerun_ok=True), 1200 if q else 15000),
    ]

"""C07 Real-time pacing never runs early and does not drift.

Doist(real=True).do() is run with the `time` module replaced, inside
hio.base.doing and hio.help.timing, by a harness clock that keeps the *true*
elapsed time separately from the (steppable) system clock.  A generated clock
script says, per cycle, how long the doers' work takes (possibly longer than a
tock), how much each sleep overshoots, whether the system clock stalls during a
sleep, and where it steps backwards (during work, between two timer readings,
between construction of the Doist and do()).  The tock is given at construction
or assigned to doist.tock before the run.

  P1 (all scripts)   cycle k (k >= 1) begins at true elapsed >= k * tock, where
                     tock is the scheduler's tock when do() was called.
  P2 (no backward steps, no stalls)
                     cycle k+1 begins no later than max(k+1 tocks, end of the work
                     of cycle k) + overshoot of the sleeps of cycle k: lateness is
                     not carried forward.
  P3                 the virtual tyme after k cycles is start + k * tock.

The harness clock keeps true elapsed time and the system clock as exact rationals
(fractions.Fraction over the float values of the case); time() returns the system
clock correctly rounded to a float, as a real clock does.  k * tock is computed
exactly from the float value of the tock.

Two classes of scripts:
  exact   ("clock-scripts") all durations are k/1024, the tock is dyadic and the clock
          base a small integer, so every reading and every sum inside hio is exact:
          P1..P3 are compared with NO tolerance.
  float   ("float-clock", case["fl"]) any float tock (0.1, 0.001, 1/3, ...), clock bases
          of epoch magnitude (1.5e9 .. 2e9) as well as small ones, 2 .. 64 (thorough: 200)
          cycles on a mostly steady clock with a few disturbances, blocking do() only.  A
          float clock cannot express an instant more finely than one ulp of its value, so
          P1 and P2 allow ONE FIXED tolerance per case: TOL_ULPS (4) ulps of the largest
          clock reading of the run, plus BACK_ULPS (2) ulps per backward step in the script
          (each step makes the timer re-derive its deadline from two more rounded readings).
          The tolerance does not depend on the cycle number k, so an error that accumulates
          from cycle to cycle is reported as soon as it exceeds it.  P3 there only asks for
          tyme within 1e-9 relative (tyme is a float sum; the statement is not about it).
"""
import math
from fractions import Fraction as F

from hypothesis import strategies as st

from hio.base import doing
from hio.help import timing
from vlib.core import Result, assert_in_tree

assert_in_tree(doing, timing)

PID = "C07"
RULE = ("cases: clock scripts for 2..8 cycles: per cycle work duration (0 .. 3 tocks), per-sleep overshoot, optional clock "
        "stall during a sleep, backward steps during work / before do(); tock from {1/32, 1/8, 1/4, 1} given at "
        "construction or changed before do() (exact class, no tolerance); float class: 2..64 (thorough 200) cycles, any "
        "float tock in [1e-4, 1] incl. 0.1/0.01/0.001/0.0001/1/3, clock base of epoch magnitude (1.5e9..2e9) or small, at "
        "most 4 disturbed cycles, blocking do() only, one fixed tolerance of 4 ulp of the largest clock reading + 2 ulp per "
        "backward step. non-trivial = some cycle is late by more than one tock, or a backward "
        "step occurs, or the tock was changed after construction, or (float class) a tock that is not a whole number "
        "of clock quanta is paced for at least 16 cycles; distinct = canonical hash of the script")
ASSUMPTIONS = ["the harness clock replaces the time module inside hio.base.doing and hio.help.timing during a case; in ado mode asyncio.sleep (as seen by doing) advances the harness clock and AsyncTimer reads the harness clock as the loop time",
               "forward jumps of the system clock are excluded (documented as undetectable)",
               "enter of the doers takes no time, so the run starts when do() is called",
               "float class: time() is the exact system clock correctly rounded to a float; an early or late start is only "
               "reported beyond a fixed 4 ulp of the largest clock reading (+ 2 ulp per backward step of the script), "
               "independent of the cycle number"]

TOL_ULPS = 4      # float class: fixed tolerance, in ulps of the largest clock reading of the run
BACK_ULPS = 2     # float class: added once per backward step in the script


class Clock:
    """Harness clock: .true is real elapsed time, .off + .true is the system clock (both exact rationals);
    time() reports the system clock rounded to the nearest float."""

    def __init__(self, base, script):
        self.true = F(0)
        self.off = F(base)         # system clock minus true elapsed time
        self.sleeps = script       # list of [overshoot, stall] consumed per sleep call
        self.si = 0
        self.sleep_log = []
        self.nsleeps = 0
        self.maxr = 0.0            # largest magnitude reported by time()

    def time(self):
        r = float(self.off + self.true)
        if abs(r) > self.maxr:
            self.maxr = abs(r)
        return r

    def advance(self, d):
        self.true += F(d)

    def back(self, d):
        self.off -= F(d)

    def sleep(self, d):
        self.nsleeps += 1
        if self.nsleeps > 10000:
            raise RuntimeError("pacing loop does not terminate")
        o, s = (0.0, 0.0)
        if self.si < len(self.sleeps):
            o, s = self.sleeps[self.si]
            self.si += 1
        total = F(d) + F(o)
        s = min(F(s), total)
        self.true += total
        self.off -= s              # the system clock stands still for s of the sleep
        self.sleep_log.append((F(d), F(o), s))


class Worker(doing.Doer):
    def __init__(self, clock, cycles, log, **kwa):
        super().__init__(**kwa)
        self.clock, self.cycles, self.log = clock, cycles, log
        self.k = 0

    def recur(self, tyme):
        c = self.clock
        k = self.k
        start_true = c.true
        spec = self.cycles[k] if k < len(self.cycles) else {"work": 0.0, "back": None}
        w = F(spec["work"])
        if spec.get("back"):
            frac, b = spec["back"]
            c.advance(w * F(frac))
            c.back(b)
            c.advance(w - w * F(frac))
        else:
            c.advance(w)
        self.log.append({"k": k, "start": start_true, "end": c.true, "tyme": tyme, "sleeps_before": len(c.sleep_log)})
        self.k += 1
        return self.k >= len(self.cycles)


def expand(case):
    """Per-cycle specs of a case.  Float-class cases give the number of cycles "n" and only the disturbed cycles
    as "events" [[k, work, back]]; all other cycles do no work."""
    if "n" not in case:
        return case["cycles"]
    cycles = [{"work": 0.0, "back": None} for _ in range(case["n"])]
    for k, work, back in case.get("events", []):
        if 0 <= k < len(cycles):
            cycles[k] = {"work": work, "back": back}
    return cycles


def run_case(case):
    r = Result()
    tock = case["tock"]
    fl = bool(case.get("fl"))
    cycles = expand(case)
    clock = Clock(case["base"], [list(x) for x in case["sleeps"]])
    log = []
    sd, st_ = doing.time, timing.time
    doing.time = clock
    timing.time = clock
    sa = doing.asyncio
    ado = case.get("mode") == "ado"
    if ado:
        import asyncio as real_asyncio

        class Aio:
            """asyncio as seen by hio.base.doing: sleep() advances the harness clock instead of waiting."""

            def __getattr__(self, name):
                return getattr(real_asyncio, name)

            async def sleep(self, d):
                if d > 0:
                    clock.sleep(d)
                await real_asyncio.sleep(0)
        doing.asyncio = Aio()

        class LoopClock:
            def time(self):
                return clock.time()

        class AioTiming:
            """asyncio as seen by hio.help.timing (AsyncTimer reads asyncio.get_event_loop().time())."""

            def __getattr__(self, name):
                return getattr(real_asyncio, name)

            def get_event_loop(self):
                return LoopClock()
        st_aio = timing.asyncio
        timing.asyncio = AioTiming()
    try:
        ctock = case["ctor_tock"] if case["ctor_tock"] is not None else tock
        doist = doing.Doist(real=True, tock=ctock, tyme=case["tyme0"])
        if case["ctor_tock"] is not None:
            doist.tock = tock
        pre = case.get("pre")
        if pre:
            clock.advance(pre[0])
            clock.back(pre[1])
        worker = Worker(clock, cycles, log, tock=0.0)
        t0 = clock.true
        if ado:
            real_asyncio.run(doist.ado(doers=[worker]))
        else:
            doist.do(doers=[worker])
    finally:
        doing.time = sd
        timing.time = st_
        doing.asyncio = sa
        if ado:
            timing.asyncio = st_aio
    nback = int(bool(pre and pre[1] > 0)) + sum(1 for c in cycles if c.get("back") and c["back"][1] > 0)
    any_back = nback > 0
    any_stall = any(s > 0 for _d, _o, s in clock.sleep_log)
    changed = case["ctor_tock"] is not None and case["ctor_tock"] != tock
    ftock = F(tock)                      # the float value of the tock, exactly
    ulp = math.ulp(clock.maxr)
    # exact class: no tolerance.  float class: one fixed tolerance per case, independent of the cycle number
    tol = (TOL_ULPS + BACK_ULPS * nback) * F(ulp) if fl else F(0)
    late = False
    for i, ent in enumerate(log):
        k = ent["k"]
        el = ent["start"] - t0           # exact true elapsed time at the start of cycle k
        if k >= 1 and el < k * ftock - tol:
            if fl:
                sig = "C07/early"        # the sub-classes below are those of the exact class
            elif changed:
                sig = "C07/early-after-tock-change"
            elif pre and pre[1] > 0:
                sig = "C07/early-after-backstep-before-run"
            else:
                sig = "C07/early"
            r.fail(sig, "cycle %d began at true elapsed %r < %d * tock %r (ctor tock %r, pre %r)%s" % (
                k, float(el), k, tock, case["ctor_tock"], pre,
                "; early by %.3g s = %.1f ulp of the clock value %r (ulp %.3g s), tolerance %d ulp; cycle %d was "
                "early by %.1f ulp" % (
                    float(k * ftock - el), float((k * ftock - el) / F(ulp)), clock.maxr, ulp,
                    TOL_ULPS + BACK_ULPS * nback, k // 2,
                    float(((k // 2) * ftock - (log[i - k + k // 2]["start"] - t0)) / F(ulp))) if fl else ""))
            return r
        want = case["tyme0"] + k * tock
        if (abs(ent["tyme"] - want) > 1e-9 * max(1.0, abs(want))) if fl else (ent["tyme"] != want):
            # tyme advances by float additions; dyadic values make k * tock exact (exact class)
            r.fail("C07/virtual-tyme", "cycle %d tyme %r expected %r" % (k, ent["tyme"], want))
            return r
        if k >= 1 and el > (k + 1) * ftock:
            late = True
        if k >= 1 and not any_back and not any_stall:
            prev = log[i - 1]
            # sleeps of cycle k-1 are those logged between the two workers' recurs
            a = prev["sleeps_before"]
            b = ent["sleeps_before"]
            over = sum(o for _d, o, _s in clock.sleep_log[a:b])
            bound = max(k * ftock, prev["end"] - t0) + over
            if el > bound + tol:
                r.fail("C07/late-after-tock-change" if (changed and not fl)
                       else "C07/drift", "cycle %d began at %r, later than max(%d*tock=%r, previous work end %r) + overshoot %r%s" % (
                    k, float(el), k, float(k * ftock), float(prev["end"] - t0), float(over),
                    "; late by %.3g s = %.1f ulp of the clock value %r (ulp %.3g s), tolerance %d ulp" % (
                        float(el - bound), float((el - bound) / F(ulp)), clock.maxr, ulp, TOL_ULPS) if fl else ""))
                return r
    if len(log) != len(cycles):
        r.fail("C07/cycles", "ran %d cycles, script has %d" % (len(log), len(cycles)))
    # float class: is the tock a whole number of quanta of this clock?  (if not, every period is rounded)
    offgrid = fl and (ftock / F(ulp)).denominator != 1
    r.nontrivial = late or any_back or changed or (offgrid and len(cycles) >= 16)
    r.labels.append("mode:" + ("ado" if ado else "do"))
    if fl:
        r.labels.append("float-class")
        r.labels.append("clock:" + ("epoch" if clock.maxr >= 1e9 else "small"))
        if offgrid:
            r.labels.append("tock-off-clock-grid")
            if len(cycles) >= 16:
                r.labels.append("tock-off-clock-grid:>=16-cycles")
    if late:
        r.labels.append("late>1tock")
    if any_back:
        r.labels.append("backward-step")
    if any_stall:
        r.labels.append("stall")
    if changed:
        r.labels.append("tock-changed-after-ctor")
    if pre and pre[1] > 0:
        r.labels.append("backstep-before-run")
    return r


TOCKS = [1 / 32, 1 / 8, 0.25, 1.0]


@st.composite
def script(draw, tock_change=True, pre_back=True):
    tock = draw(st.sampled_from(TOCKS))
    unit = tock / 8          # dyadic
    dur = st.integers(0, 24).map(lambda n: n * unit)
    small = st.integers(0, 8).map(lambda n: n * unit)
    ncy = draw(st.integers(2, 8))
    cycles = []
    for _ in range(ncy):
        back = None
        if draw(st.integers(0, 4)) == 0:
            back = [draw(st.sampled_from([0.0, 0.5, 1.0])), draw(st.integers(1, 40).map(lambda n: n * unit))]
        cycles.append({"work": draw(dur), "back": back})
    sleeps = draw(st.lists(st.tuples(small, st.one_of(st.just(0.0), st.just(0.0), small)).map(list), max_size=12))
    ctor = None
    if tock_change and draw(st.integers(0, 3)) == 0:
        ctor = draw(st.sampled_from(TOCKS))
    pre = None
    if pre_back and draw(st.integers(0, 3)) == 0:
        pre = [draw(dur), draw(st.integers(0, 40).map(lambda n: n * unit))]
    return {"mode": draw(st.sampled_from(["do", "do", "ado"])),
            "tock": tock, "ctor_tock": ctor, "base": draw(st.integers(1 << 20, 1 << 22)),
            "tyme0": draw(st.sampled_from([0.0, 1.0, 16.5])), "cycles": cycles, "sleeps": sleeps, "pre": pre}


# float class: tocks a user writes (most are not a whole number of quanta of any float clock) and arbitrary floats
FTOCKS = [0.1, 0.01, 0.001, 0.0001, 0.05, 0.02, 0.005, 0.3, 1 / 3, 0.7, 1 / 32]


@st.composite
def script_fl(draw, maxn=64):
    tock = draw(st.one_of(st.sampled_from(FTOCKS), st.floats(1e-4, 1.0, allow_nan=False)))
    # system clock when the Doist is made: today's time.time() (epoch magnitude), the base of the exact class,
    # a small (monotonic-like) value
    base = draw(st.one_of(st.floats(1.5e9, 2.0e9, allow_nan=False), st.integers(1500000000, 2000000000),
                          st.integers(1 << 20, 1 << 22), st.floats(1e3, 1e6, allow_nan=False)))
    n = draw(st.integers(2, maxn))
    dur = st.one_of(st.integers(0, 24).map(lambda m: m * tock / 8), st.floats(0.0, 3 * tock, allow_nan=False))
    small = st.one_of(st.integers(0, 8).map(lambda m: m * tock / 8), st.floats(0.0, tock, allow_nan=False))
    step = st.one_of(st.integers(1, 40).map(lambda m: m * tock / 8), st.floats(0.0, 5 * tock, allow_nan=False))
    back = st.one_of(st.none(), st.none(), st.tuples(st.sampled_from([0.0, 0.5, 1.0]), step).map(list))
    events = draw(st.lists(st.tuples(st.integers(0, n - 1), dur, back).map(list), max_size=4))
    sleeps = draw(st.lists(st.tuples(small, st.one_of(st.just(0.0), st.just(0.0), small)).map(list), max_size=12))
    ctor = None
    if draw(st.integers(0, 5)) == 0:
        ctor = draw(st.sampled_from(FTOCKS))
    pre = None
    if draw(st.integers(0, 5)) == 0:
        pre = [draw(dur), draw(st.one_of(st.just(0.0), step))]
    # the statement quantifies over the blocking do() loop: the float class does not drive ado()
    return {"fl": True, "mode": "do", "tock": tock, "ctor_tock": ctor, "base": base,
            "tyme0": draw(st.sampled_from([0.0, 1.0, 16.5])), "n": n, "events": events, "sleeps": sleeps, "pre": pre}


def searches(tier):
    q = tier == "quick"
    return [("clock-scripts", script(), 2000 if q else 25000),
            ("float-clock", script_fl(64 if q else 200), 600 if q else 5000)]

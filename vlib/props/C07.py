"""C07 Real-time pacing never runs early and does not drift.

Doist(real=True).do() is run with the `time` module replaced, inside
hio.base.doing and hio.help.timing, by a harness clock that keeps the *true*
elapsed time separately from the (steppable) system clock.  A generated clock
script says, per cycle, how long the doers' work takes (possibly longer than a
tock), how much each sleep overshoots, whether the system clock stalls during a
sleep, and where it steps backwards (during work, between two timer readings,
between construction of the Doist and do()).  The tock is given at construction
or assigned to doist.tock before the run.

  P1 (all scripts)   cycle k (k >= 1) begins at true elapsed >= k * tock, where
                     tock is the scheduler's tock when do() was called.
  P2 (no backward steps, no stalls)
                     cycle k+1 begins no later than max(k+1 tocks, end of the work
                     of cycle k) + overshoot of the sleeps of cycle k: lateness is
                     not carried forward.
  P3                 the virtual tyme after k cycles is start + k * tock.
All durations are k/1024 and the clock base is an integer, so every comparison
is exact.
"""
from hypothesis import strategies as st

from hio.base import doing
from hio.help import timing
from vlib.core import Result, assert_in_tree

assert_in_tree(doing, timing)

PID = "C07"
RULE = ("cases: clock scripts for 2..8 cycles: per cycle work duration (0 .. 3 tocks), per-sleep overshoot, optional clock "
        "stall during a sleep, backward steps during work / before do(); tock from {1/32, 1/8, 1/4, 1} given at "
        "construction or changed before do(). non-trivial = some cycle is late by more than one tock, or a backward "
        "step occurs, or the tock was changed after construction; distinct = canonical hash of the script")
ASSUMPTIONS = ["the harness clock replaces the time module inside hio.base.doing and hio.help.timing during a case; in ado mode asyncio.sleep (as seen by doing) advances the harness clock and AsyncTimer reads the harness clock as the loop time",
               "forward jumps of the system clock are excluded (documented as undetectable)",
               "enter of the doers takes no time, so the run starts when do() is called"]


class Clock:
    """Harness clock: .true is real elapsed time, .sys is what time.time() reports."""

    def __init__(self, base, script):
        self.true = 0.0
        self.sys = float(base)
        self.sleeps = script       # list of [overshoot, stall] consumed per sleep call
        self.si = 0
        self.sleep_log = []
        self.nsleeps = 0

    def time(self):
        return self.sys

    def advance(self, d):
        self.true += d
        self.sys += d

    def back(self, d):
        self.sys -= d

    def sleep(self, d):
        self.nsleeps += 1
        if self.nsleeps > 10000:
            raise RuntimeError("pacing loop does not terminate")
        o, s = (0.0, 0.0)
        if self.si < len(self.sleeps):
            o, s = self.sleeps[self.si]
            self.si += 1
        total = d + o
        s = min(s, total)
        self.true += total
        self.sys += total - s
        self.sleep_log.append((d, o, s))


class Worker(doing.Doer):
    def __init__(self, clock, cycles, log, **kwa):
        super().__init__(**kwa)
        self.clock, self.cycles, self.log = clock, cycles, log
        self.k = 0

    def recur(self, tyme):
        c = self.clock
        k = self.k
        start_true = c.true
        spec = self.cycles[k] if k < len(self.cycles) else {"work": 0.0, "back": None}
        w = spec["work"]
        if spec.get("back"):
            frac, b = spec["back"]
            c.advance(w * frac)
            c.back(b)
            c.advance(w - w * frac)
        else:
            c.advance(w)
        self.log.append({"k": k, "start": start_true, "end": c.true, "tyme": tyme, "sleeps_before": len(c.sleep_log)})
        self.k += 1
        return self.k >= len(self.cycles)


def run_case(case):
    r = Result()
    tock = case["tock"]
    clock = Clock(case["base"], [list(x) for x in case["sleeps"]])
    log = []
    sd, st_ = doing.time, timing.time
    doing.time = clock
    timing.time = clock
    sa = doing.asyncio
    ado = case.get("mode") == "ado"
    if ado:
        import asyncio as real_asyncio

        class Aio:
            """asyncio as seen by hio.base.doing: sleep() advances the harness clock instead of waiting."""

            def __getattr__(self, name):
                return getattr(real_asyncio, name)

            async def sleep(self, d):
                if d > 0:
                    clock.sleep(d)
                await real_asyncio.sleep(0)
        doing.asyncio = Aio()

        class LoopClock:
            def time(self):
                return clock.time()

        class AioTiming:
            """asyncio as seen by hio.help.timing (AsyncTimer reads asyncio.get_event_loop().time())."""

            def __getattr__(self, name):
                return getattr(real_asyncio, name)

            def get_event_loop(self):
                return LoopClock()
        st_aio = timing.asyncio
        timing.asyncio = AioTiming()
    try:
        ctock = case["ctor_tock"] if case["ctor_tock"] is not None else tock
        doist = doing.Doist(real=True, tock=ctock, tyme=case["tyme0"])
        if case["ctor_tock"] is not None:
            doist.tock = tock
        pre = case.get("pre")
        if pre:
            clock.advance(pre[0])
            clock.back(pre[1])
        worker = Worker(clock, case["cycles"], log, tock=0.0)
        t0 = clock.true
        if ado:
            real_asyncio.run(doist.ado(doers=[worker]))
        else:
            doist.do(doers=[worker])
    finally:
        doing.time = sd
        timing.time = st_
        doing.asyncio = sa
        if ado:
            timing.asyncio = st_aio
    any_back = bool(pre and pre[1] > 0) or any(c.get("back") and c["back"][1] > 0 for c in case["cycles"])
    any_stall = any(s > 0 for _d, _o, s in clock.sleep_log)
    late = False
    for i, ent in enumerate(log):
        k = ent["k"]
        el = ent["start"] - t0
        if k >= 1 and el < k * tock:
            if case["ctor_tock"] is not None and case["ctor_tock"] != tock:
                sig = "C07/early-after-tock-change"
            elif pre and pre[1] > 0:
                sig = "C07/early-after-backstep-before-run"
            else:
                sig = "C07/early"
            r.fail(sig, "cycle %d began at true elapsed %r < %d * tock %r (ctor tock %r, pre %r)" % (
                k, el, k, tock, case["ctor_tock"], pre))
            return r
        if ent["tyme"] != case["tyme0"] + k * tock and True:
            # tyme advances by float additions; dyadic values make k * tock exact
            r.fail("C07/virtual-tyme", "cycle %d tyme %r expected %r" % (k, ent["tyme"], case["tyme0"] + k * tock))
            return r
        if k >= 1 and el > (k + 1) * tock:
            late = True
        if k >= 1 and not any_back and not any_stall:
            prev = log[i - 1]
            sl = clock.sleep_log[prev["sleeps_before"]:ent["sleeps_before"]] if False else None
            # sleeps of cycle k-1 are those logged between the two workers' recurs
            a = prev["sleeps_before"]
            b = ent["sleeps_before"]
            over = sum(o for _d, o, _s in clock.sleep_log[a:b])
            bound = max(k * tock, prev["end"] - t0) + over
            if el > bound:
                r.fail("C07/late-after-tock-change" if (case["ctor_tock"] is not None and case["ctor_tock"] != tock)
                       else "C07/drift", "cycle %d began at %r, later than max(%d*tock=%r, previous work end %r) + overshoot %r" % (
                    k, el, k, k * tock, prev["end"] - t0, over))
                return r
    if len(log) != len(case["cycles"]):
        r.fail("C07/cycles", "ran %d cycles, script has %d" % (len(log), len(case["cycles"])))
    r.nontrivial = late or any_back or (case["ctor_tock"] is not None and case["ctor_tock"] != tock)
    r.labels.append("mode:" + ("ado" if ado else "do"))
    if late:
        r.labels.append("late>1tock")
    if any_back:
        r.labels.append("backward-step")
    if any_stall:
        r.labels.append("stall")
    if case["ctor_tock"] is not None and case["ctor_tock"] != tock:
        r.labels.append("tock-changed-after-ctor")
    if pre and pre[1] > 0:
        r.labels.append("backstep-before-run")
    return r


TOCKS = [1 / 32, 1 / 8, 0.25, 1.0]


@st.composite
def script(draw, tock_change=True, pre_back=True):
    tock = draw(st.sampled_from(TOCKS))
    unit = tock / 8          # dyadic
    dur = st.integers(0, 24).map(lambda n: n * unit)
    small = st.integers(0, 8).map(lambda n: n * unit)
    ncy = draw(st.integers(2, 8))
    cycles = []
    for _ in range(ncy):
        back = None
        if draw(st.integers(0, 4)) == 0:
            back = [draw(st.sampled_from([0.0, 0.5, 1.0])), draw(st.integers(1, 40).map(lambda n: n * unit))]
        cycles.append({"work": draw(dur), "back": back})
    sleeps = draw(st.lists(st.tuples(small, st.one_of(st.just(0.0), st.just(0.0), small)).map(list), max_size=12))
    ctor = None
    if tock_change and draw(st.integers(0, 3)) == 0:
        ctor = draw(st.sampled_from(TOCKS))
    pre = None
    if pre_back and draw(st.integers(0, 3)) == 0:
        pre = [draw(dur), draw(st.integers(0, 40).map(lambda n: n * unit))]
    return {"mode": draw(st.sampled_from(["do", "do", "ado"])),
            "tock": tock, "ctor_tock": ctor, "base": draw(st.integers(1 << 20, 1 << 22)),
            "tyme0": draw(st.sampled_from([0.0, 1.0, 16.5])), "cycles": cycles, "sleeps": sleeps, "pre": pre}


def searches(tier):
    q = tier == "quick"
    return [("clock-scripts", script(), 2000 if q else 25000)]

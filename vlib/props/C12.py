"""C12 Idle HTTP connections time out after the configured tymeout (virtual time).

The real http.Server (WSGI) or BareServer runs in memory (vlib/memhttp.Rig: real tcp.Server
code with in-memory accepts) wound to a harness Tymist.  1-3 connections each follow an
activity schedule in virtual time:

  silent      connects and never sends
  dribble     sends pieces of a request that never completes, at generated cycles
  persistent  sends one complete HTTP/1.1 keep-alive request, gets its answer, then stays idle
  stalled     sends one complete non-persistent (HTTP/1.0) request and never reads: every send of
              the answer would-blocks, so no byte moves in either direction afterwards

Deadline model, evaluated at every service call (tyme t, tock dt): D = tyme of the service
call that last saw traffic on the connection (accept, bytes received or sent) + tymeout.
  not early   a connection closed by the call at tyme t requires t >= D           [closed-early]
  not late    a non-persistent connection that is still open after the call at tyme
              t >= D, with no new bytes offered to that call, is a violation  [not-closed]
              (tymes are dyadic, so "idle for exactly the tymeout" is an exact comparison)
  persistent  a connection whose request was persistent is never closed for idleness [persistent-closed]

https ("tls": true): the same schedules against the same servers built on the in-memory TLS servant (vlib/fakenet
FakeServantTls: real tcp.ServerTls / RemoterTls code, fake context whose handshake follows a script).  Each connection has
"hs": the number of service calls in which its TLS handshake would-blocks before the call in which it completes (0 = completes
in the accepting call, -1 = never completes).  A client cannot send HTTP bytes before its handshake is complete, so its
activity is shifted behind the handshake; a connection whose handshake never completes never sends.  While the handshake is
pending no byte moves, so the deadline stays accept + tymeout ("no traffic for the tymeout and not persistent => closed");
the call in which the handshake completes may or may not count as traffic (both readings accepted, as after a rewind).
Signatures of https cases carry the prefix C12/https/ .
"""
from hypothesis import strategies as st

from vlib import fakenet, memhttp
from vlib.core import Result

PID = "C12"
RULE = ("cases: server kind (WSGI Server / BareServer) x tymeout in {0.25 .. 8, default} x tock in {1/32 .. 1} (dyadic, at most 128 "
        "tocks per tymeout) x 1-3 connections with schedules silent / dribble (1-6 pieces at generated gaps, some shorter and "
        "some longer than the tymeout) / persistent request then idle / non-persistent request whose answer would-blocks for ever, connected at generated cycles, run for 3 tymeouts past the "
        "last scheduled activity, optionally with the server wound to another tymist (tyme 0, 5 or 1000) at a generated cycle; "
        "second search: the same x https (in-memory TLS servant) with a TLS handshake per connection that completes in the accepting "
        "call, after 1-70 further service calls (shorter or longer than the tymeout) or never; non-trivial = some connection has earlier traffic bursts (>= 2 pieces) and then a gap >= tymeout; "
        "distinct = canonical hash")
ASSUMPTIONS = [
    "virtual time only: the server is wound to a harness Tymist that advances one tock per service call",
    "traffic offered to a service call counts as seen by that call; the server checks expiry before it reads, so a connection "
    "whose deadline passes in the very call that would read new bytes may be closed or kept - both are accepted",
    "after a rewind to another tymist both readings of 'idle time' are accepted: carried over (earliest close) or started afresh (latest close)",
    "a connection is persistent once the server has parsed a complete keep-alive request on it (the side condition of the statement)",
    "https: the fake TLS layer moves no bytes of its own; a handshake that would-block is a call in which nothing arrived, the call in "
    "which it completes may or may not count as traffic (earliest close accept + tymeout, latest close completion + tymeout); a "
    "connection that is still handshaking is an HTTP server connection in the sense of the statement (it is closed when it has "
    "had no traffic for the tymeout)",
]

PERSIST_REQ = b"GET /p HTTP/1.1\r\nHost: x\r\nContent-Length: 0\r\n\r\n"
STALL_REQ = b"GET /s HTTP/1.0\r\nHost: x\r\n\r\n"


def app(environ, start_response):
    start_response("200 OK", [("Content-Type", "text/plain"), ("Content-Length", "2")])
    return [b"ok"]


class _TlsRig(memhttp.Rig):
    """memhttp.Rig on the in-memory TLS servant (real tcp.ServerTls / RemoterTls code): an https server."""

    def __init__(self, app=None, tymeout=None, tock=0.125, bare=False, bs=256, **kwa):
        from hio.base import tyming
        from hio.core.http import serving
        self.tymist = tyming.Tymist(tyme=0.0, tock=tock)
        skw = {"bs": bs}
        if tymeout is not None:
            skw["tymeout"] = tymeout
        self.servant = fakenet.FakeServantTls(**skw)
        if bare:
            self.server = serving.BareServer(servant=self.servant, **kwa)
        else:
            self.server = serving.Server(servant=self.servant, app=app, **kwa)
        if hasattr(self.server, 'wind'):
            self.server.wind(self.tymist.tymen())
        else:
            self.servant.wind(self.tymist.tymen())
        self.clients = {}
        self.rx = {}
        self.eof = {}
        self.nextport = 42000


def run_case(case):
    r = Result()
    tock = case["tock"]
    T = case["tymeout"]
    tls = bool(case.get("tls", False))
    pre = "C12/https/" if tls else "C12/"
    kw = {} if T is None else {"tymeout": T}
    rig = (_TlsRig if tls else memhttp.Rig)(app=app, tock=tock, bare=case["bare"], **kw)
    Teff = T if T is not None else rig.servant.tymeout
    conns = case["conns"]
    # absolute cycle numbers of the activity of each connection
    plans = []
    last = 0
    for c in conns:
        at = c["at"]
        ev = {}
        # https: service calls in which the handshake would-blocks before the one in which it completes; -1 = never completes
        hs = int(c.get("hs", 0) or 0) if tls else 0
        at0 = at + max(0, hs)            # the client can act once its handshake is complete
        if hs < 0:
            pass                         # handshake never completes: the client can never send anything
        elif c["kind"] == "dribble":
            t = at0
            for gap, n in c["pieces"]:
                t += max(1, gap)
                ev[t] = b"X" * max(1, n) if ev else b"GET /d HTTP/1.1\r\nHost: x\r\nX-Pad: "
        elif c["kind"] == "stalled":
            # a non-persistent request whose answer cannot be sent: the kernel would-blocks every send (dead reader)
            ev[at0 + max(1, c["pieces"][0][0] if c["pieces"] else 1)] = STALL_REQ
        elif c["kind"] == "persistent":
            ev[at0 + max(1, c["pieces"][0][0] if c["pieces"] else 1)] = PERSIST_REQ
        plans.append({"at": at, "ev": ev, "kind": c["kind"], "port": None, "D": None, "closed": None, "persist": False,
                      "sent": 0, "hs": hs, "hsdone": hs == 0})
        last = max([last, at0] + list(ev))
    horizon = last + int(3 * Teff / tock) + 4
    bursts_then_gap = False
    rewind = case.get("rewind")
    for cyc in range(horizon):
        if rewind and cyc == rewind["at"]:
            # the server is wound to another tymist while connections are open.  How long such a connection has been idle
            # "in virtual time" is then open to two readings, and both are accepted: the idle time so far carries over
            # (earliest close: what was left on the old clock), or the rewind counts as a fresh start (latest close)
            from hio.base import tyming as _tyming
            told = rig.tymist.tyme
            rig.tymist = _tyming.Tymist(tyme=rewind["tyme"], tock=tock)
            rig.server.wind(rig.tymist.tymen()) if hasattr(rig.server, "wind") else rig.servant.wind(rig.tymist.tymen())
            for p in plans:
                if p["D"] is not None:
                    p["Dearly"] = rig.tymist.tyme + max(0.0, p["D"] - told)
                    p["D"] = rig.tymist.tyme + Teff
                if p["port"] is not None and p["closed"] is None and not p["hsdone"]:
                    p["hs_pending_at_rewind"] = True     # discriminator only: names the input class in the signature
        t = rig.tymist.tyme
        fresh = {}
        for i, p in enumerate(plans):
            if cyc == p["at"]:
                p["port"] = rig.connect()
                fresh[i] = True            # the accept is traffic seen by this call
                if tls:
                    p["ss"] = rig.servant.pending[-1]      # server side socket: its handshake follows the script
                    p["ss"].hs_script = [["want"]] * (p["hs"] if p["hs"] >= 0 else horizon + 8)
            hs_now = False
            if tls and p["hs"] > 0 and cyc == p["at"] + p["hs"] and p["closed"] is None:
                hs_now = True              # the handshake completes in this call: the client's last flight arrived
                p["hsdone"] = True
                fresh[i] = True
            p["hs_now"] = hs_now
            if p["port"] is not None and cyc in p["ev"] and p["closed"] is None:
                rig.send(p["port"], p["ev"][cyc])
                p["sent"] += 1
                fresh[i] = True
        for p in plans:
            if p["kind"] == "stalled" and p["port"] is not None and not p.get("blocked"):
                ss = p["ss"] if tls else rig.ssock(p["port"])
                if ss is not None:
                    ss.send_script = [["block"]] * 100000       # every send of the server on this connection would-blocks
                    p["blocked"] = True
        before_rx = {i: len(rig.rx[p["port"]]) for i, p in enumerate(plans) if p["port"] is not None}
        try:
            rig.server.service()
        except Exception as ex:      # noqa: BLE001
            from vlib.core import exc_sig
            r.fail(exc_sig(ex, "C12/service-raised"), repr(ex))
            return r
        rig.drain()
        for i, p in enumerate(plans):
            if p["port"] is None or p["closed"] is not None:
                continue
            ca = ("127.0.0.1", p["port"])
            open_now = (ca in rig.servant.ixes or (tls and ca in getattr(rig.servant, "cxes", ()))) and not rig.eof[p["port"]]
            got_bytes = len(rig.rx[p["port"]]) > before_rx.get(i, 0)
            if p["kind"] == "persistent" and got_bytes:
                p["persist"] = True
            D = p["D"]
            if not open_now:
                p["closed"] = t
                if p["persist"]:
                    r.fail(pre + "persistent-closed", "connection %d answered a keep-alive request at an earlier cycle and was closed "
                           "at tyme %r (tymeout %r)" % (i, t, Teff))
                elif D is not None and t < p.get("Dearly", D) and not fresh.get(i):
                    r.fail(pre + "closed-early", "connection %d (%s) closed at tyme %r, last traffic + tymeout = %r" % (
                        i, p["kind"], t, D))
                continue
            if D is not None and not p["persist"] and not fresh.get(i) and not got_bytes and t >= D:
                sig = "not-closed(after earlier traffic)" if p["sent"] >= 1 else "not-closed(never sent anything)"
                if p.get("hs_pending_at_rewind"):
                    sig = "not-closed(handshake pending at rewind)"    # whether or not it completed afterwards
                elif not p["hsdone"]:
                    sig = "not-closed(handshake pending)"              # never completes, or not within the tymeout
                r.fail(pre + sig, "connection %d (%s) still open after the service call at tyme %r: last traffic at %r + tymeout %r = %r" % (
                    i, p["kind"], t, D - Teff, Teff, D))
                p["closed"] = "violation"
                continue
            if fresh.get(i) or got_bytes:
                if p["sent"] >= 2 and D is not None and False:
                    pass
                if p["hs_now"] and D is not None and not got_bytes and cyc not in p["ev"]:
                    # completing the handshake may or may not count as traffic: the earliest close stays where it was
                    p["Dearly"] = min(p.get("Dearly", D), D)
                else:
                    p.pop("Dearly", None)
                p["D"] = t + Teff
        rig.tymist.tick()
        if r.failures:
            break
    for c, p in zip(conns, plans):
        if c["kind"] == "dribble" and len(c["pieces"]) >= 2:
            bursts_then_gap = True          # the run always ends with a gap of 3 tymeouts after the last piece
    r.nontrivial = bursts_then_gap
    r.labels.append("bare" if case["bare"] else "wsgi")
    if tls:
        r.labels.append("https")
        for p in plans:
            r.labels.append("handshake:" + ("never completes" if p["hs"] < 0 else "in the accepting call" if p["hs"] == 0 else
                                            "pending >= tymeout" if p["hs"] * tock >= Teff else "pending < tymeout"))
            if p.get("hs_pending_at_rewind"):
                r.labels.append("handshake:pending at rewind")
    if rewind:
        r.labels.append("rewound-to-another-tymist")
    for c in conns:
        r.labels.append("conn:" + c["kind"])
    if any(c["kind"] == "dribble" and any(g * tock >= Teff for g, _n in c["pieces"][1:]) for c in conns):
        r.labels.append("gap>=tymeout-between-pieces")
    return r


def _strategy():
    def build(tock_i, ratio, bare, default_t, conns, rewind):
        tock = 1.0 / (1 << tock_i)            # 1, 1/2, ... 1/32
        T = None if default_t else tock * ratio
        return {"tock": tock, "tymeout": T, "bare": bare, "conns": conns, "rewind": rewind}
    piece = st.tuples(st.integers(1, 40), st.integers(1, 5)).map(list)
    conn = st.fixed_dictionaries({"kind": st.sampled_from(["silent", "dribble", "dribble", "persistent", "stalled"]),
                                  "at": st.integers(0, 6), "pieces": st.lists(piece, min_size=1, max_size=6)})
    return st.builds(build, st.integers(0, 5), st.sampled_from([1, 2, 3, 4, 8, 16, 32, 64]), st.booleans(),
                     st.sampled_from([False, False, False, False, True]), st.lists(conn, min_size=1, max_size=3),
                     st.one_of(st.none(), st.none(), st.fixed_dictionaries({"at": st.integers(1, 60),
                                                                            "tyme": st.sampled_from([0.0, 1000.0, 5.0])}))).filter(
        lambda c: (c["tymeout"] if c["tymeout"] is not None else 1.0) / c["tock"] <= 160)


def _strategy_tls():
    """The same schedules against an https server; every connection also has a handshake length (see module docstring)."""
    def build(tock_i, ratio, bare, default_t, conns, rewind):
        tock = 1.0 / (1 << tock_i)            # 1, 1/2, ... 1/32
        T = None if default_t else tock * ratio
        return {"tock": tock, "tymeout": T, "bare": bare, "conns": conns, "rewind": rewind, "tls": True}
    piece = st.tuples(st.integers(1, 40), st.integers(1, 5)).map(list)
    hs = st.one_of(st.just(0), st.just(0), st.integers(1, 6), st.integers(1, 70), st.just(-1))
    conn = st.fixed_dictionaries({"kind": st.sampled_from(["silent", "dribble", "dribble", "persistent", "stalled"]),
                                  "at": st.integers(0, 6), "pieces": st.lists(piece, min_size=1, max_size=6), "hs": hs})
    return st.builds(build, st.integers(0, 5), st.sampled_from([1, 2, 3, 4, 8, 16, 32, 64]), st.booleans(),
                     st.sampled_from([False, False, False, False, True]), st.lists(conn, min_size=1, max_size=3),
                     st.one_of(st.none(), st.none(), st.fixed_dictionaries({"at": st.integers(1, 60),
                                                                            "tyme": st.sampled_from([0.0, 1000.0, 5.0])}))).filter(
        lambda c: (c["tymeout"] if c["tymeout"] is not None else 1.0) / c["tock"] <= 160)


def searches(tier):
    return [("schedules", _strategy(), 3000 if tier == "quick" else 25000),
            ("https-schedules", _strategy_tls(), 2000 if tier == "quick" else 12000)]

"""C12 Idle HTTP connections time out after the configured tymeout (virtual time).

The real http.Server (WSGI) or BareServer runs in memory (vlib/memhttp.Rig: real tcp.Server
code with in-memory accepts) wound to a harness Tymist.  1-3 connections each follow an
activity schedule in virtual time:

  silent      connects and never sends
  dribble     sends pieces of a request that never completes, at generated cycles
  persistent  sends one complete HTTP/1.1 keep-alive request, gets its answer, then stays idle
  stalled     sends one complete non-persistent (HTTP/1.0) request and never reads: every send of
              the answer would-blocks, so no byte moves in either direction afterwards

Deadline model, evaluated at every service call (tyme t, tock dt): D = tyme of the service
call that last saw traffic on the connection (accept, bytes received or sent) + tymeout.
  not early   a connection closed by the call at tyme t requires t >= D           [closed-early]
  not late    a non-persistent connection that is still open after the call at tyme
              t >= D, with no new bytes offered to that call, is a violation  [not-closed]
              (tymes are dyadic, so "idle for exactly the tymeout" is an exact comparison)
  persistent  a connection whose request was persistent is never closed for idleness [persistent-closed]
"""
from hypothesis import strategies as st

from vlib import memhttp
from vlib.core import Result

PID = "C12"
RULE = ("cases: server kind (WSGI Server / BareServer) x tymeout in {0.25 .. 8, default} x tock in {1/32 .. 1} (dyadic, at most 128 "
        "tocks per tymeout) x 1-3 connections with schedules silent / dribble (1-6 pieces at generated gaps, some shorter and "
        "some longer than the tymeout) / persistent request then idle / non-persistent request whose answer would-blocks for ever, connected at generated cycles, run for 3 tymeouts past the "
        "last scheduled activity, optionally with the server wound to another tymist (tyme 0, 5 or 1000) at a generated cycle; non-trivial = some connection has earlier traffic bursts (>= 2 pieces) and then a gap >= tymeout; "
        "distinct = canonical hash")
ASSUMPTIONS = [
    "virtual time only: the server is wound to a harness Tymist that advances one tock per service call",
    "traffic offered to a service call counts as seen by that call; the server checks expiry before it reads, so a connection "
    "whose deadline passes in the very call that would read new bytes may be closed or kept - both are accepted",
    "after a rewind to another tymist both readings of 'idle time' are accepted: carried over (earliest close) or started afresh (latest close)",
    "a connection is persistent once the server has parsed a complete keep-alive request on it (the side condition of the statement)",
]

PERSIST_REQ = b"GET /p HTTP/1.1\r\nHost: x\r\nContent-Length: 0\r\n\r\n"
STALL_REQ = b"GET /s HTTP/1.0\r\nHost: x\r\n\r\n"


def app(environ, start_response):
    start_response("200 OK", [("Content-Type", "text/plain"), ("Content-Length", "2")])
    return [b"ok"]


def run_case(case):
    r = Result()
    tock = case["tock"]
    T = case["tymeout"]
    kw = {} if T is None else {"tymeout": T}
    rig = memhttp.Rig(app=app, tock=tock, bare=case["bare"], **kw)
    Teff = T if T is not None else rig.servant.tymeout
    conns = case["conns"]
    # absolute cycle numbers of the activity of each connection
    plans = []
    last = 0
    for c in conns:
        at = c["at"]
        ev = {}
        if c["kind"] == "dribble":
            t = at
            for gap, n in c["pieces"]:
                t += max(1, gap)
                ev[t] = b"X" * max(1, n) if ev else b"GET /d HTTP/1.1\r\nHost: x\r\nX-Pad: "
        elif c["kind"] == "stalled":
            # a non-persistent request whose answer cannot be sent: the kernel would-blocks every send (dead reader)
            ev[at + max(1, c["pieces"][0][0] if c["pieces"] else 1)] = STALL_REQ
        elif c["kind"] == "persistent":
            ev[at + max(1, c["pieces"][0][0] if c["pieces"] else 1)] = PERSIST_REQ
        plans.append({"at": at, "ev": ev, "kind": c["kind"], "port": None, "D": None, "closed": None, "persist": False,
                      "sent": 0})
        last = max([last, at] + list(ev))
    horizon = last + int(3 * Teff / tock) + 4
    bursts_then_gap = False
    rewind = case.get("rewind")
    for cyc in range(horizon):
        if rewind and cyc == rewind["at"]:
            # the server is wound to another tymist while connections are open.  How long such a connection has been idle
            # "in virtual time" is then open to two readings, and both are accepted: the idle time so far carries over
            # (earliest close: what was left on the old clock), or the rewind counts as a fresh start (latest close)
            from hio.base import tyming as _tyming
            told = rig.tymist.tyme
            rig.tymist = _tyming.Tymist(tyme=rewind["tyme"], tock=tock)
            rig.server.wind(rig.tymist.tymen()) if hasattr(rig.server, "wind") else rig.servant.wind(rig.tymist.tymen())
            for p in plans:
                if p["D"] is not None:
                    p["Dearly"] = rig.tymist.tyme + max(0.0, p["D"] - told)
                    p["D"] = rig.tymist.tyme + Teff
        t = rig.tymist.tyme
        fresh = {}
        for i, p in enumerate(plans):
            if cyc == p["at"]:
                p["port"] = rig.connect()
                fresh[i] = True            # the accept is traffic seen by this call
            if p["port"] is not None and cyc in p["ev"] and p["closed"] is None:
                rig.send(p["port"], p["ev"][cyc])
                p["sent"] += 1
                fresh[i] = True
        for p in plans:
            if p["kind"] == "stalled" and p["port"] is not None and not p.get("blocked"):
                ss = rig.ssock(p["port"])
                if ss is not None:
                    ss.send_script = [["block"]] * 100000       # every send of the server on this connection would-blocks
                    p["blocked"] = True
        before_rx = {i: len(rig.rx[p["port"]]) for i, p in enumerate(plans) if p["port"] is not None}
        try:
            rig.server.service()
        except Exception as ex:      # noqa: BLE001
            from vlib.core import exc_sig
            r.fail(exc_sig(ex, "C12/service-raised"), repr(ex))
            return r
        rig.drain()
        for i, p in enumerate(plans):
            if p["port"] is None or p["closed"] is not None:
                continue
            ca = ("127.0.0.1", p["port"])
            open_now = ca in rig.servant.ixes and not rig.eof[p["port"]]
            got_bytes = len(rig.rx[p["port"]]) > before_rx.get(i, 0)
            if p["kind"] == "persistent" and got_bytes:
                p["persist"] = True
            D = p["D"]
            if not open_now:
                p["closed"] = t
                if p["persist"]:
                    r.fail("C12/persistent-closed", "connection %d answered a keep-alive request at an earlier cycle and was closed "
                           "at tyme %r (tymeout %r)" % (i, t, Teff))
                elif D is not None and t < p.get("Dearly", D) and not fresh.get(i):
                    r.fail("C12/closed-early", "connection %d (%s) closed at tyme %r, last traffic + tymeout = %r" % (
                        i, p["kind"], t, D))
                continue
            if D is not None and not p["persist"] and not fresh.get(i) and not got_bytes and t >= D:
                sig = "C12/not-closed(after earlier traffic)" if p["sent"] >= 1 else "C12/not-closed(never sent anything)"
                r.fail(sig, "connection %d (%s) still open after the service call at tyme %r: last traffic at %r + tymeout %r = %r" % (
                    i, p["kind"], t, D - Teff, Teff, D))
                p["closed"] = "violation"
                continue
            if fresh.get(i) or got_bytes:
                if p["sent"] >= 2 and D is not None and False:
                    pass
                p["D"] = t + Teff
                p.pop("Dearly", None)
        rig.tymist.tick()
        if r.failures:
            break
    for c, p in zip(conns, plans):
        if c["kind"] == "dribble" and len(c["pieces"]) >= 2:
            bursts_then_gap = True          # the run always ends with a gap of 3 tymeouts after the last piece
    r.nontrivial = bursts_then_gap
    r.labels.append("bare" if case["bare"] else "wsgi")
    if rewind:
        r.labels.append("rewound-to-another-tymist")
    for c in conns:
        r.labels.append("conn:" + c["kind"])
    if any(c["kind"] == "dribble" and any(g * tock >= Teff for g, _n in c["pieces"][1:]) for c in conns):
        r.labels.append("gap>=tymeout-between-pieces")
    return r


def _strategy():
    def build(tock_i, ratio, bare, default_t, conns, rewind):
        tock = 1.0 / (1 << tock_i)            # 1, 1/2, ... 1/32
        T = None if default_t else tock * ratio
        return {"tock": tock, "tymeout": T, "bare": bare, "conns": conns, "rewind": rewind}
    piece = st.tuples(st.integers(1, 40), st.integers(1, 5)).map(list)
    conn = st.fixed_dictionaries({"kind": st.sampled_from(["silent", "dribble", "dribble", "persistent", "stalled"]),
                                  "at": st.integers(0, 6), "pieces": st.lists(piece, min_size=1, max_size=6)})
    return st.builds(build, st.integers(0, 5), st.sampled_from([1, 2, 3, 4, 8, 16, 32, 64]), st.booleans(),
                     st.sampled_from([False, False, False, False, True]), st.lists(conn, min_size=1, max_size=3),
                     st.one_of(st.none(), st.none(), st.fixed_dictionaries({"at": st.integers(1, 60),
                                                                            "tyme": st.sampled_from([0.0, 1000.0, 5.0])}))).filter(
        lambda c: (c["tymeout"] if c["tymeout"] is not None else 1.0) / c["tock"] <= 160)


def searches(tier):
    return [("schedules", _strategy(), 3000 if tier == "quick" else 25000)]

"""C19 Client requests are sent one at a time and answered in FIFO order.

The real http.Client runs on in-memory connectors (vlib/fakenet.FakeConnector[Tls]) against a
scripted harness server with two authorities.  A case is a list of operations (queue a
request / run one service cycle) plus one behaviour per request that reaches a server:
answer 200 (Content-Length or chunked, after a delay, in fragments, optionally closing the
connection afterwards, or framed by closing: no length, the end of the connection ends the body),
answer 300 without a Location header (a 3xx that cannot be followed), redirect (relative, absolute
same authority, other authority, https -> http), or close the connection at any point of the
response (nothing sent, inside the head, inside the body).  Requests use GET / POST / PUT / PATCH /
DELETE / OPTIONS / HEAD (a HEAD answer is a head with a Content-Length and no body) and may carry
caller data that is not sent (reply=..., an extra keyword), the documented way to associate
responses with requests.

Observed at the server, every cycle:
  * at most one request is unanswered at any time (one at a time);
  * requests arrive in the order predicted from the queue order and the redirect chain.
Observed at the client, every cycle:
  * .responses only grows at the end, entry k answers queued request k: its originating
    request (first redirect hop if redirected, else the entry's own 'request') has the
    queued method and path, the body is the one the final target sent for that request,
    'redirects' holds exactly the hops taken;
  * the entry's 'request' holds the caller data queued with request k, also over a redirect;
  * a redirect from https to http is refused: the entry is marked errored, and no byte
    reaches the http target.
Finally there is exactly one entry per queued request.  A request whose answer the server cut off by
closing the connection must still produce its entry (nothing is demanded of its status, body or
error mark); requests queued behind a closed connection are the separate, listed open finding.
"""
from hypothesis import strategies as st

from hio.core.http import clienting
from vlib import fakenet
from vlib.core import Result, assert_in_tree, exc_sig

assert_in_tree(clienting)

PID = "C19"
RULE = ("cases: 1-6 queued requests (GET/POST/PUT/PATCH/DELETE/OPTIONS/HEAD, unique paths, bodies, optional caller data reply= / extra "
        "keyword) interleaved with service cycles x per-arrival server "
        "behaviour (200, or 201 with a Location header that must not be followed, or 300 without Location, with Content-Length or "
        "chunked or framed by closing, delay 0-4 cycles, fragment size, close after answering; redirect 301/302/"
        "303/307 relative / absolute / to the other authority, chains up to 3 hops; https->http redirect on a TLS flavoured "
        "client, followed by answers with a Location header; any answer cut off by closing the connection after 0-99.9% of its "
        "bytes); non-trivial = >= 3 queued requests with a delayed answer or a redirect among them; distinct = canonical hash")
ASSUMPTIONS = [
    "a server that closes the connection before its answer is complete is generated: the request must still produce its one "
    "entry (the client's own design: PrematureClosure -> errored entry); status, body and error mark of that entry are not judged",
    "requests queued behind a connection the server closed are attributed to the listed open finding (no reconnect), not to the "
    "request whose answer was cut off",
    "bodies of queued entries are compared when the entry is appended; later aliasing of body buffers is recorded as a label only",
    "after a redirect to another authority later queued requests go to that authority (documented as future work in the client); the "
    "harness answers a request wherever it arrives and does not judge the authority of non-redirected requests",
    "method and body of the follow-up request of a redirect are not judged (the statement does not say what a 303 does to a POST)",
    "a HEAD request is answered with Content-Length (or with no length and a close), never with Transfer-Encoding: chunked",
    "caller data (reply=, extra keyword) is looked for in the entry's own 'request', where a caller that does not know about "
    "redirects reads it ('followed transparently'); method and path are accepted from the first redirect hop, because "
    "'request' documents the request that was finally answered",
]

A = ("127.0.0.1", 8080)
B = ("127.0.0.1", 8081)


class Patch:
    def __enter__(self):
        self.saved = (clienting.tcp.Client, clienting.tcp.ClientTls)
        clienting.tcp.Client = fakenet.FakeConnector
        clienting.tcp.ClientTls = fakenet.FakeConnectorTls
        fakenet.FakeConnector.registry = {}
        fakenet.FakeConnector.opened_to = []
        return self

    def __exit__(self, *a):
        clienting.tcp.Client, clienting.tcp.ClientTls = self.saved


class Srv:
    """Scripted two-authority server on the harness side of the fake sockets."""

    def __init__(self, behaviours, r):
        self.socks = {A: [], B: []}
        self.bufs = {}
        self.behaviours = behaviours
        self.arrivals = []            # dict(auth, method, target, body, cycle, beh)
        self.pending = []             # responses in transmission: [sock, bytes left, wait, frag, arrival index, close_after]
        self.answered = 0
        self.r = r
        self.cycle = 0
        self.bytes_to_b = 0
        self.on_arrival = None
        for auth in (A, B):
            fakenet.FakeConnector.registry[auth] = self.maker(auth)

    def maker(self, auth):
        def make():
            a, b = fakenet.pipe(a_addr=("127.0.0.1", 43000 + len(self.socks[A]) + len(self.socks[B])), b_addr=auth)
            self.socks[auth].append(b)
            self.bufs[id(b)] = bytearray()
            return a
        return make

    def step(self):
        self.cycle += 1
        for auth in (A, B):
            for b in self.socks[auth]:
                if b.closed:
                    continue
                while True:
                    try:
                        d = b.recv(65536)
                    except OSError:
                        break
                    if not d:
                        break
                    self.bufs[id(b)].extend(d)
                    if auth == B:
                        self.bytes_to_b += len(d)
                self.parse(auth, b)
        outstanding = len(self.arrivals) - self.answered
        if outstanding > 1:
            self.r.fail("C19/more-than-one-request-on-the-wire", "%d unanswered requests at the servers at cycle %d: %r" % (
                outstanding, self.cycle, [(a["method"], a["target"]) for a in self.arrivals[self.answered:]]))
        for p in list(self.pending):
            if p[2] > 0:
                p[2] -= 1
                continue
            sock, data = p[0], p[1]
            n = max(1, p[3])
            if data and not sock.closed:
                sock.send(bytes(data[:n]))
            del data[:n]
            if not data:
                self.pending.remove(p)
                self.answered += 1        # the server is done with this request (also when it cut its answer short)
                self.arrivals[p[4]]["sent"] = True
                if p[5]:
                    self.arrivals[p[4]]["closing"] = True
                    sock.close()

    def parse(self, auth, b):
        buf = self.bufs[id(b)]
        while True:
            he = buf.find(b"\r\n\r\n")
            if he < 0:
                return
            head = bytes(buf[:he]).split(b"\r\n")
            parts = head[0].split(b" ")
            cl = 0
            for ln in head[1:]:
                k, _s, v = ln.partition(b":")
                if k.strip().lower() == b"content-length":
                    cl = int(v.strip() or b"0")
            if len(buf) < he + 4 + cl:
                return
            body = bytes(buf[he + 4:he + 4 + cl])
            del buf[:he + 4 + cl]
            idx = len(self.arrivals)
            beh = self.behaviours[idx % len(self.behaviours)] if self.behaviours else {"kind": "ok"}
            if idx >= 40:
                beh = {"kind": "ok"}
            arr = {"auth": auth, "method": parts[0].decode("latin-1"), "target": parts[1].decode("latin-1") if len(parts) > 1 else "",
                   "body": body, "cycle": self.cycle, "beh": beh, "idx": idx}
            self.arrivals.append(arr)
            if self.on_arrival is not None:
                self.on_arrival(arr)
            resp = self.response(arr)
            cut = beh.get("cut")
            if cut is not None:
                # the server closes the connection before the answer is complete: 0 <= cut <= 999 permille of its bytes are sent
                resp = resp[:len(resp) * max(0, min(999, int(cut))) // 1000]
                arr["cut"] = True
            self.pending.append([b, bytearray(resp), int(beh.get("delay", 0)), int(beh.get("frag", 4096)), idx,
                                 bool(beh.get("close")) or bool(arr.get("eof")) or cut is not None])

    def response(self, arr):
        beh = arr["beh"]
        k = beh["kind"]
        if k == "ok" or arr.get("force_ok"):
            body = ("answer-%d:%s:%s" % (arr["idx"], arr["method"], arr["target"])).encode() + arr["body"][:20]
            head_only = arr["method"] == "HEAD"      # the answer to HEAD is the head of the GET answer, without the body
            arr["answer"] = b"" if head_only else body
            conn = b"Connection: close\r\n" if beh.get("close") else b""
            status = b"200 OK"
            arr["status"] = 200
            if beh.get("noloc3"):
                # a 3xx that cannot be followed (300 Multiple Choices without a preferred Location): it is the answer
                status = b"300 Multiple Choices"
                arr["status"] = 300
            elif beh.get("loc"):
                # a success answer that carries a Location header (201 Created): it is an answer, not a redirect
                status = b"201 Created"
                arr["status"] = 201
                arr["created"] = "/created/%d" % arr["idx"]
                conn += b"Location: " + arr["created"].encode() + b"\r\n"
            if beh.get("eof"):
                # no length at all: the body ends where the server closes the connection
                arr["eof"] = True
                return b"HTTP/1.1 " + status + b"\r\n" + conn + b"\r\n" + (b"" if head_only else body)
            if beh.get("chunked") and not head_only:
                half = len(body) // 2
                out = b"HTTP/1.1 " + status + b"\r\nTransfer-Encoding: chunked\r\n" + conn + b"\r\n"
                for piece in (body[:half], body[half:]):
                    if piece:
                        out += b"%x\r\n" % len(piece) + piece + b"\r\n"
                return out + b"0\r\n\r\n"
            return b"HTTP/1.1 " + status + b"\r\nContent-Length: %d\r\n" % len(body) + conn + b"\r\n" + (b"" if head_only else body)
        # redirects
        hop = "/r%d" % arr["idx"]
        if k == "redir-rel":
            loc = hop
        elif k == "redir-abs":
            loc = "http://%s:%d%s" % (arr["auth"][0], arr["auth"][1], hop)
        elif k == "redir-other":
            other = B if arr["auth"] == A else A
            loc = "http://%s:%d%s" % (other[0], other[1], hop)
        elif k == "redir-downgrade":
            # to the other authority, or (same) to the very host and port the https client is connected to
            tgt = arr["auth"] if beh.get("same") else B
            loc = "http://%s:%d%s" % (tgt[0], tgt[1], hop)
        else:
            raise ValueError(k)
        arr["location"] = loc
        return ("HTTP/1.1 %d Moved\r\nLocation: %s\r\nContent-Length: 0\r\n\r\n" % (beh.get("code", 302), loc)).encode()


def run_case(case):
    r = Result()
    tls = case["tls"]
    issued = []           # (method, path, body)
    extras = []           # per queued request: caller data that is not sent, {"reply": ..., "ticket": ...} (keys only when given)
    with Patch():
        srv = Srv(case["behaviours"], r)
        cls = fakenet.FakeConnectorTls if tls else fakenet.FakeConnector
        conn = cls(ha=A)
        conn.reopen()
        client = clienting.Client(connector=conn, hostname=A[0], port=A[1], scheme="https" if tls else "http")
        seen = 0

        def observe():
            nonlocal seen
            resp = list(client.responses)
            if len(resp) < seen:
                r.fail("C19/responses-shrank", "%d -> %d entries" % (seen, len(resp)))
                return
            for k in range(seen, len(resp)):
                e = resp[k]
                if k >= len(issued):
                    r.fail("C19/more-responses-than-requests", "entry %d but only %d requests were queued" % (k, len(issued)))
                    return
                method, path, body = issued[k]
                hops = e.get("redirects") or []
                first = (hops[0] if hops else e)["request"]
                if first.get("method") != method or first.get("path") != path:
                    r.fail("C19/entry-does-not-carry-its-originating-request", "entry %d originates from %r %r, queued request %d "
                           "was %r %r" % (k, first.get("method"), first.get("path"), k, method, path))
                    return
                # the chain of arrivals that belongs to queued request k
                chain = [a for a in srv.arrivals if a.get("owner") == k]
                final = chain[-1] if chain else None
                # caller data queued with request k: the documented way to associate an entry with its request
                req = e.get("request") or {}
                lost = [x for x in ("reply", "ticket") if req.get(x) != extras[k].get(x)]
                down = final is not None and final["beh"]["kind"] == "redir-downgrade" and tls and "answer" not in final
                if down:
                    if not e.get("errored"):
                        r.fail("C19/https-to-http-redirect-not-refused", "entry %d: %r" % (k, {x: e.get(x) for x in ("status", "errored", "error")}))
                    elif lost:
                        r.fail("C19/entry-lost-the-caller-data-of-its-originating-request", "entry %d (refused redirect): 'request' has %r, "
                               "queued with %r" % (k, {x: req.get(x) for x in lost}, extras[k]))
                    continue
                if final is not None and final.get("cut"):
                    # the server closed the connection inside this answer: the entry exists, nothing else is demanded of it
                    if lost:
                        r.fail("C19/entry-lost-the-caller-data-of-its-originating-request", "entry %d (answer cut off): 'request' has %r, "
                               "queued with %r" % (k, {x: req.get(x) for x in lost}, extras[k]))
                    continue
                if final is None or "answer" not in final:
                    r.fail("C19/entry-without-final-answer", "entry %d (status %r) appeared before the final target answered; chain %r" % (
                        k, e.get("status"), [(a["method"], a["target"], a["beh"]["kind"]) for a in chain]))
                    return
                if e.get("errored") or e.get("status") != final.get("status", 200) or bytes(e.get("body") or b"") != final["answer"]:
                    r.fail("C19/wrong-answer-for-entry" + ("(redirected HEAD)" if method == "HEAD" and len(chain) > 1 else ""),
                           "entry %d: status %r errored %r error %r body %r; the final target answered %r %r" % (
                               k, e.get("status"), e.get("errored"), e.get("error"), bytes(e.get("body") or b"")[:60],
                               final.get("status", 200), final["answer"][:60]))
                    return
                nh = len(chain) - 1
                if len(hops) != nh:
                    r.fail("C19/redirect-history", "entry %d took %d redirect hops, 'redirects' holds %d" % (k, nh, len(hops)))
                    return
                if lost:
                    r.fail("C19/entry-lost-the-caller-data-of-its-originating-request", "entry %d (%d redirect hops): 'request' has %r, "
                           "request %d was queued with %r" % (k, nh, {x: req.get(x) for x in lost}, k, extras[k]))
                    return
            seen = len(resp)

        state = {"owner": -1, "follow": False}

        def on_arrival(a):
            if state["follow"]:
                a["owner"] = state["owner"]
                prev = [x for x in srv.arrivals if x.get("owner") == state["owner"] and x is not a][-1]
                want = prev.get("location", "")
                tgt = want[want.index("/", 8):] if want.startswith("http") else want
                if a["target"] != tgt:
                    r.fail("C19/redirect-target", "follow-up of request %d went to %r, Location was %r" % (
                        state["owner"], a["target"], want))
            else:
                state["owner"] += 1
                own = a["owner"] = state["owner"]
                prev = srv.arrivals[-2] if len(srv.arrivals) > 1 else None
                if prev is not None and prev.get("created") and a["target"] == prev["created"]:
                    # nobody queued this request: it goes to the Location header of the previous, non-redirect, answer
                    r.fail("C19/answer-with-a-Location-header-followed-as-a-redirect", "arrival %d %r %r follows the Location of the %d "
                           "answer to arrival %d %r %r; the arrival before that was answered %r" % (
                               a["idx"], a["method"], a["target"], prev.get("status", 0), prev["idx"], prev["method"], prev["target"],
                               (srv.arrivals[-3].get("status") or srv.arrivals[-3]["beh"]["kind"]) if len(srv.arrivals) > 2 else None))
                elif own < len(issued):
                    m, p, bd = issued[own]
                    if a["method"] != m or a["target"].split("?")[0] != p or a["body"] != bd:
                        r.fail("C19/request-order-on-the-wire", "arrival %d is %r %r, queued request %d is %r %r" % (
                            a["idx"], a["method"], a["target"], own, m, p))
                else:
                    r.fail("C19/unqueued-request-on-the-wire", "arrival %d %r %r" % (a["idx"], a["method"], a["target"]))
            kind = a["beh"]["kind"]
            hops = len([x for x in srv.arrivals if x.get("owner") == a["owner"]])
            if kind.startswith("redir") and hops > 3:
                a["force_ok"] = True          # bound the chain: the 4th arrival of a request is answered
            if kind == "redir-downgrade" and not tls:
                a["force_ok"] = True          # a downgrade only exists for an https client
            state["follow"] = (kind.startswith("redir") and not a.get("force_ok") and kind != "redir-downgrade"
                               and a["beh"].get("cut") is None)      # a redirect answer that was cut off cannot be followed

        srv.on_arrival = on_arrival

        idle = 0
        try:
            for op in case["ops"]:
                if r.failures:
                    break
                if op[0] == "req":
                    n = len(issued)
                    method, path, body = op[1], "/p%d" % n, (op[2] if op[1] in ("POST", "PUT", "PATCH") else b"")
                    issued.append((method, path, body))
                    ex = int(op[3]) if len(op) > 3 and op[3] else 0
                    kw = {}
                    if ex >= 1:
                        kw["reply"] = {"rid": n}
                    if ex >= 2:
                        kw["ticket"] = "t%d" % n
                    extras.append(dict(kw))
                    client.request(method=method, path=path, body=body, **kw)
                else:
                    client.service()
                    srv.step()
                    observe()
            for _ in range(4000):      # one byte per cycle answers need many cycles; ends as soon as everything is answered
                if r.failures:
                    break
                client.service()
                srv.step()
                observe()
                if len(client.responses) >= len(issued) and not srv.pending:
                    break
                idle = idle + 1 if (not srv.pending and not client.connector.txbs) else 0
                if idle > 30:          # nothing in flight on either side for 30 cycles: no further progress is possible
                    break
        except Exception as ex:      # noqa: BLE001
            from vlib.core import hio_frame
            if hio_frame(ex) is None:
                raise
            r.fail(exc_sig(ex, "C19/client-raised"), repr(ex))
            return r
        if not r.failures:
            down_seen = any(a["beh"]["kind"] == "redir-downgrade" and tls for a in srv.arrivals)
            if len(client.responses) < len(issued):
                # attribute the first request without an entry
                k = len(client.responses)
                chain = [a for a in srv.arrivals if a.get("owner") == k]
                final = chain[-1] if chain else None
                what = "%d queued requests, %d entries after the servers were done (arrivals %d, answered %d); request %d %r %r: " % (
                    len(issued), len(client.responses), len(srv.arrivals), srv.answered, k, issued[k][0], issued[k][1])
                if final is not None and final.get("cut"):
                    # it reached a server on a live connection, the server closed inside its answer: its entry is due all the same
                    r.fail("C19/no-entry-for-a-request-whose-answer-the-server-cut-off", what + "arrival %d got %d of the answer's bytes "
                           "per mille (%s), then the connection was closed; client.waited=%r" % (
                               final["idx"], int(final["beh"]["cut"]), final["beh"]["kind"], client.waited))
                elif final is not None and final.get("sent") and not (final["beh"]["kind"].startswith("redir") and "answer" not in final):
                    # it reached a server and was answered completely (a close afterwards does not take the answer back)
                    r.fail("C19/not-one-entry-per-request" + ("(redirected HEAD)" if issued[k][0] == "HEAD" and len(chain) > 1 else
                                                              "(complete answer with a Location header)" if final.get("created") else ""),
                           what + "its final arrival %d (%s %s after %d redirect hops) was answered completely with status %r; "
                           "client.waited=%r" % (final["idx"], final["method"], final["target"], len(chain) - 1, final.get("status"),
                                                 client.waited))
                elif final is None and any(a.get("closing") for a in srv.arrivals):
                    # never reached a server: it was written to a connection a server had closed (the listed open finding)
                    r.fail("C19/not-one-entry-per-request(after a server closed the connection behind its answer)", what + "never arrived")
                else:
                    r.fail("C19/not-one-entry-per-request", what + "chain %r" % (
                        [(a["method"], a["target"], a["beh"]["kind"], bool(a.get("sent"))) for a in chain],))
            elif len(client.responses) > len(issued):
                r.fail("C19/more-responses-than-requests", "%d entries, %d requests were queued" % (len(client.responses), len(issued)))
            if tls and down_seen and srv.bytes_to_b:
                r.fail("C19/bytes-reached-http-target-after-https", "%d bytes" % srv.bytes_to_b)
    delayed = any(a["beh"].get("delay", 0) > 0 for a in srv.arrivals)
    redir = any(a["beh"]["kind"].startswith("redir") for a in srv.arrivals)
    r.nontrivial = len(issued) >= 3 and (delayed or redir)
    r.labels.append("tls" if tls else "plain")
    if redir:
        r.labels.append("redirect")
    if delayed:
        r.labels.append("delayed-answer")
    if any(a["beh"].get("close") for a in srv.arrivals):
        r.labels.append("close-after-answer")
    if any(a.get("eof") for a in srv.arrivals):
        r.labels.append("answer-framed-by-closing")
    if any(a.get("cut") for a in srv.arrivals):
        r.labels.append("answer-cut-off-by-closing")
    if any(a.get("status") == 300 for a in srv.arrivals):
        r.labels.append("3xx-without-Location")
    if any(a["method"] == "HEAD" for a in srv.arrivals):
        r.labels.append("HEAD")
    if any(a["method"] == "HEAD" and a["beh"]["kind"].startswith("redir") for a in srv.arrivals):
        r.labels.append("HEAD-redirected")
    if any(extras):
        r.labels.append("caller-data")
    if len(issued) >= 3:
        r.labels.append(">=3 requests")
    return r


METHODS = ["GET", "GET", "POST", "PUT", "HEAD", "HEAD", "DELETE", "PATCH", "OPTIONS"]
CUTS = [0, 1, 15, 120, 300, 450, 600, 750, 900, 999]


def _strategy():
    req = st.tuples(st.just("req"), st.sampled_from(METHODS), st.binary(max_size=12), st.sampled_from([0, 0, 1, 2])).map(list)
    svc = st.just(["svc"])
    nocut = st.none()
    cut = st.one_of(st.sampled_from(CUTS), st.integers(0, 999))

    def ok(closing):
        return st.fixed_dictionaries({"kind": st.just("ok"), "delay": st.sampled_from([0, 0, 1, 2, 4]),
                                      "frag": st.sampled_from([4096, 4096, 7, 1, 30]), "chunked": st.booleans(),
                                      "close": st.sampled_from([False, False, False, True]),
                                      "loc": st.sampled_from([False, False, True]),
                                      "noloc3": st.sampled_from([False, False, False, False, True]),
                                      "eof": st.sampled_from([False, False, False, True]) if closing else st.just(False),
                                      "cut": st.one_of(nocut, nocut, cut) if closing else nocut})

    def redir(closing):
        return st.fixed_dictionaries({"kind": st.sampled_from(["redir-rel", "redir-abs", "redir-other"]),
                                      "code": st.sampled_from([301, 302, 303, 307]), "delay": st.sampled_from([0, 1, 3]),
                                      "frag": st.sampled_from([4096, 9]),
                                      "cut": st.one_of(nocut, nocut, nocut, cut) if closing else nocut})

    def hist(closing):
        return st.fixed_dictionaries({"tls": st.just(False),
                                      "ops": st.lists(st.one_of(req, req, svc, svc, svc), min_size=1, max_size=24),
                                      "behaviours": st.lists(st.one_of(ok(closing), ok(closing), redir(closing)), min_size=1, max_size=8)})

    plain = hist(False)       # servers that answer completely (and may close behind the answer)
    closing = hist(True)      # servers that also close inside an answer, or frame the body by closing
    down = st.fixed_dictionaries({"kind": st.just("redir-downgrade"), "code": st.sampled_from([301, 302, 307]),
                                  "delay": st.just(0), "frag": st.just(4096), "same": st.booleans()})
    ok_open = st.fixed_dictionaries({"kind": st.just("ok"), "delay": st.sampled_from([0, 1]), "frag": st.just(4096),
                                     "chunked": st.booleans(), "close": st.just(False),
                                     "loc": st.sampled_from([False, True])})
    tls = st.fixed_dictionaries({"tls": st.just(True),
                                 "ops": st.lists(st.one_of(req, svc, svc), min_size=1, max_size=12),
                                 "behaviours": st.lists(st.one_of(ok_open, ok_open, down), min_size=1, max_size=5)})
    return st.one_of(plain, plain, plain, closing, tls)


def searches(tier):
    return [("histories", _strategy(), 1200 if tier == "quick" else 10000)]

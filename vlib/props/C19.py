"""C19 Client requests are sent one at a time and answered in FIFO order.

The real http.Client runs on in-memory connectors (vlib/fakenet.FakeConnector[Tls]) against a
scripted harness server with two authorities.  A case is a list of operations (queue a
request / run one service cycle) plus one behaviour per request that reaches a server:
answer 200 (Content-Length or chunked, after a delay, in fragments, optionally closing the
connection afterwards), or redirect (relative, absolute same authority, other authority,
https -> http).

Observed at the server, every cycle:
  * at most one request is unanswered at any time (one at a time);
  * requests arrive in the order predicted from the queue order and the redirect chain.
Observed at the client, every cycle:
  * .responses only grows at the end, entry k answers queued request k: its originating
    request (first redirect hop if redirected, else the entry's own 'request') has the
    queued method and path, the body is the one the final target sent for that request,
    'redirects' holds exactly the hops taken;
  * a redirect from https to http is refused: the entry is marked errored, and no byte
    reaches the http target.
Finally, with healthy servers, there is exactly one entry per queued request.
"""
from hypothesis import strategies as st

from hio.core.http import clienting
from vlib import fakenet
from vlib.core import Result, assert_in_tree, exc_sig

assert_in_tree(clienting)

PID = "C19"
RULE = ("cases: 1-6 queued requests (GET/POST/PUT, unique paths, bodies) interleaved with service cycles x per-arrival server "
        "behaviour (200, or 201 with a Location header that must not be followed, with Content-Length or chunked, delay 0-4 cycles, fragment size, close after answering; redirect 301/302/"
        "303/307 relative / absolute / to the other authority, chains up to 3 hops; https->http redirect on a TLS flavoured "
        "client); non-trivial = >= 3 queued requests with a delayed answer or a redirect among them; distinct = canonical hash")
ASSUMPTIONS = [
    "servers answer every request completely (a server that closes instead of answering is not generated: the outcome is not defined by the statement)",
    "bodies of queued entries are compared when the entry is appended; later aliasing of body buffers is recorded as a label only",
    "after a redirect to another authority later queued requests go to that authority (documented as future work in the client); the "
    "harness answers a request wherever it arrives and does not judge the authority of non-redirected requests",
]

A = ("127.0.0.1", 8080)
B = ("127.0.0.1", 8081)


class Patch:
    def __enter__(self):
        self.saved = (clienting.tcp.Client, clienting.tcp.ClientTls)
        clienting.tcp.Client = fakenet.FakeConnector
        clienting.tcp.ClientTls = fakenet.FakeConnectorTls
        fakenet.FakeConnector.registry = {}
        fakenet.FakeConnector.opened_to = []
        return self

    def __exit__(self, *a):
        clienting.tcp.Client, clienting.tcp.ClientTls = self.saved


class Srv:
    """Scripted two-authority server on the harness side of the fake sockets."""

    def __init__(self, behaviours, r):
        self.socks = {A: [], B: []}
        self.bufs = {}
        self.behaviours = behaviours
        self.arrivals = []            # dict(auth, method, target, body, cycle, beh)
        self.pending = []             # responses in transmission: [sock, bytes left, wait, frag, arrival index, close_after]
        self.answered = 0
        self.r = r
        self.cycle = 0
        self.bytes_to_b = 0
        self.on_arrival = None
        for auth in (A, B):
            fakenet.FakeConnector.registry[auth] = self.maker(auth)

    def maker(self, auth):
        def make():
            a, b = fakenet.pipe(a_addr=("127.0.0.1", 43000 + len(self.socks[A]) + len(self.socks[B])), b_addr=auth)
            self.socks[auth].append(b)
            self.bufs[id(b)] = bytearray()
            return a
        return make

    def step(self):
        self.cycle += 1
        for auth in (A, B):
            for b in self.socks[auth]:
                if b.closed:
                    continue
                while True:
                    try:
                        d = b.recv(65536)
                    except OSError:
                        break
                    if not d:
                        break
                    self.bufs[id(b)].extend(d)
                    if auth == B:
                        self.bytes_to_b += len(d)
                self.parse(auth, b)
        outstanding = len(self.arrivals) - self.answered
        if outstanding > 1:
            self.r.fail("C19/more-than-one-request-on-the-wire", "%d unanswered requests at the servers at cycle %d: %r" % (
                outstanding, self.cycle, [(a["method"], a["target"]) for a in self.arrivals[self.answered:]]))
        for p in list(self.pending):
            if p[2] > 0:
                p[2] -= 1
                continue
            sock, data = p[0], p[1]
            n = max(1, p[3])
            if not sock.closed:
                sock.send(bytes(data[:n]))
            del data[:n]
            if not data:
                self.pending.remove(p)
                self.answered += 1
                if p[5]:
                    sock.close()

    def parse(self, auth, b):
        buf = self.bufs[id(b)]
        while True:
            he = buf.find(b"\r\n\r\n")
            if he < 0:
                return
            head = bytes(buf[:he]).split(b"\r\n")
            parts = head[0].split(b" ")
            cl = 0
            for ln in head[1:]:
                k, _s, v = ln.partition(b":")
                if k.strip().lower() == b"content-length":
                    cl = int(v.strip() or b"0")
            if len(buf) < he + 4 + cl:
                return
            body = bytes(buf[he + 4:he + 4 + cl])
            del buf[:he + 4 + cl]
            idx = len(self.arrivals)
            beh = self.behaviours[idx % len(self.behaviours)] if self.behaviours else {"kind": "ok"}
            if idx >= 40:
                beh = {"kind": "ok"}
            arr = {"auth": auth, "method": parts[0].decode("latin-1"), "target": parts[1].decode("latin-1") if len(parts) > 1 else "",
                   "body": body, "cycle": self.cycle, "beh": beh, "idx": idx}
            self.arrivals.append(arr)
            if self.on_arrival is not None:
                self.on_arrival(arr)
            self.pending.append([b, bytearray(self.response(arr)), int(beh.get("delay", 0)), int(beh.get("frag", 4096)), idx,
                                 bool(beh.get("close"))])

    def response(self, arr):
        beh = arr["beh"]
        k = beh["kind"]
        if k == "ok" or arr.get("force_ok"):
            body = ("answer-%d:%s:%s" % (arr["idx"], arr["method"], arr["target"])).encode() + arr["body"][:20]
            arr["answer"] = body
            conn = b"Connection: close\r\n" if beh.get("close") else b""
            status = b"200 OK"
            arr["status"] = 200
            if beh.get("loc"):
                # a success answer that carries a Location header (201 Created): it is an answer, not a redirect
                status = b"201 Created"
                arr["status"] = 201
                conn += b"Location: /created/%d\r\n" % arr["idx"]
            if beh.get("chunked"):
                half = len(body) // 2
                out = b"HTTP/1.1 " + status + b"\r\nTransfer-Encoding: chunked\r\n" + conn + b"\r\n"
                for piece in (body[:half], body[half:]):
                    if piece:
                        out += b"%x\r\n" % len(piece) + piece + b"\r\n"
                return out + b"0\r\n\r\n"
            return b"HTTP/1.1 " + status + b"\r\nContent-Length: %d\r\n" % len(body) + conn + b"\r\n" + body
        # redirects
        hop = "/r%d" % arr["idx"]
        if k == "redir-rel":
            loc = hop
        elif k == "redir-abs":
            loc = "http://%s:%d%s" % (arr["auth"][0], arr["auth"][1], hop)
        elif k == "redir-other":
            other = B if arr["auth"] == A else A
            loc = "http://%s:%d%s" % (other[0], other[1], hop)
        elif k == "redir-downgrade":
            # to the other authority, or (same) to the very host and port the https client is connected to
            tgt = arr["auth"] if beh.get("same") else B
            loc = "http://%s:%d%s" % (tgt[0], tgt[1], hop)
        else:
            raise ValueError(k)
        arr["location"] = loc
        return ("HTTP/1.1 %d Moved\r\nLocation: %s\r\nContent-Length: 0\r\n\r\n" % (beh.get("code", 302), loc)).encode()


def run_case(case):
    r = Result()
    tls = case["tls"]
    issued = []           # (method, path, body)
    with Patch():
        srv = Srv(case["behaviours"], r)
        cls = fakenet.FakeConnectorTls if tls else fakenet.FakeConnector
        conn = cls(ha=A)
        conn.reopen()
        client = clienting.Client(connector=conn, hostname=A[0], port=A[1], scheme="https" if tls else "http")
        seen = 0

        def observe():
            nonlocal seen
            resp = list(client.responses)
            if len(resp) < seen:
                r.fail("C19/responses-shrank", "%d -> %d entries" % (seen, len(resp)))
                return
            for k in range(seen, len(resp)):
                e = resp[k]
                if k >= len(issued):
                    r.fail("C19/more-responses-than-requests", "entry %d but only %d requests were queued" % (k, len(issued)))
                    return
                method, path, body = issued[k]
                hops = e.get("redirects") or []
                first = (hops[0] if hops else e)["request"]
                if first.get("method") != method or first.get("path") != path:
                    r.fail("C19/entry-does-not-carry-its-originating-request", "entry %d originates from %r %r, queued request %d "
                           "was %r %r" % (k, first.get("method"), first.get("path"), k, method, path))
                    return
                # the chain of arrivals that belongs to queued request k
                chain = [a for a in srv.arrivals if a.get("owner") == k]
                final = chain[-1] if chain else None
                down = final is not None and final["beh"]["kind"] == "redir-downgrade" and tls and "answer" not in final
                if down:
                    if not e.get("errored"):
                        r.fail("C19/https-to-http-redirect-not-refused", "entry %d: %r" % (k, {x: e.get(x) for x in ("status", "errored", "error")}))
                    continue
                if final is None or "answer" not in final:
                    r.fail("C19/entry-without-final-answer", "entry %d (status %r) appeared before the final target answered; chain %r" % (
                        k, e.get("status"), [(a["method"], a["target"], a["beh"]["kind"]) for a in chain]))
                    return
                if e.get("errored") or e.get("status") != final.get("status", 200) or bytes(e.get("body") or b"") != final["answer"]:
                    r.fail("C19/wrong-answer-for-entry", "entry %d: status %r errored %r body %r; the final target answered %r" % (
                        k, e.get("status"), e.get("errored"), bytes(e.get("body") or b"")[:60], final["answer"][:60]))
                    return
                nh = len(chain) - 1
                if len(hops) != nh:
                    r.fail("C19/redirect-history", "entry %d took %d redirect hops, 'redirects' holds %d" % (k, nh, len(hops)))
                    return
            seen = len(resp)

        state = {"owner": -1, "follow": False}

        def on_arrival(a):
            if state["follow"]:
                a["owner"] = state["owner"]
                prev = [x for x in srv.arrivals if x.get("owner") == state["owner"] and x is not a][-1]
                want = prev.get("location", "")
                tgt = want[want.index("/", 8):] if want.startswith("http") else want
                if a["target"] != tgt:
                    r.fail("C19/redirect-target", "follow-up of request %d went to %r, Location was %r" % (
                        state["owner"], a["target"], want))
            else:
                state["owner"] += 1
                own = a["owner"] = state["owner"]
                if own < len(issued):
                    m, p, bd = issued[own]
                    if a["method"] != m or a["target"].split("?")[0] != p or a["body"] != bd:
                        r.fail("C19/request-order-on-the-wire", "arrival %d is %r %r, queued request %d is %r %r" % (
                            a["idx"], a["method"], a["target"], own, m, p))
                else:
                    r.fail("C19/unqueued-request-on-the-wire", "arrival %d %r %r" % (a["idx"], a["method"], a["target"]))
            kind = a["beh"]["kind"]
            hops = len([x for x in srv.arrivals if x.get("owner") == a["owner"]])
            if kind.startswith("redir") and hops > 3:
                a["force_ok"] = True          # bound the chain: the 4th arrival of a request is answered
            if kind == "redir-downgrade" and not tls:
                a["force_ok"] = True          # a downgrade only exists for an https client
            state["follow"] = kind.startswith("redir") and not a.get("force_ok") and kind != "redir-downgrade"

        srv.on_arrival = on_arrival

        idle = 0
        try:
            for op in case["ops"]:
                if r.failures:
                    break
                if op[0] == "req":
                    n = len(issued)
                    method, path, body = op[1], "/p%d" % n, (op[2] if op[1] != "GET" else b"")
                    issued.append((method, path, body))
                    client.request(method=method, path=path, body=body)
                else:
                    client.service()
                    srv.step()
                    observe()
            for _ in range(4000):      # one byte per cycle answers need many cycles; ends as soon as everything is answered
                if r.failures:
                    break
                client.service()
                srv.step()
                observe()
                if len(client.responses) >= len(issued) and not srv.pending:
                    break
                idle = idle + 1 if (not srv.pending and not client.connector.txbs) else 0
                if idle > 30:          # nothing in flight on either side for 30 cycles: no further progress is possible
                    break
        except Exception as ex:      # noqa: BLE001
            from vlib.core import hio_frame
            if hio_frame(ex) is None:
                raise
            r.fail(exc_sig(ex, "C19/client-raised"), repr(ex))
            return r
        if not r.failures:
            down_seen = any(a["beh"]["kind"] == "redir-downgrade" and tls for a in srv.arrivals)
            closed = any(a["beh"].get("close") and a["beh"]["kind"] == "ok" for a in srv.arrivals)
            if len(client.responses) != len(issued) and not down_seen:
                r.fail("C19/not-one-entry-per-request" + ("(after a server closed the connection behind its answer)" if closed else ""),
                       "%d queued requests, %d entries after the servers answered everything "
                       "(arrivals %d, answered %d)" % (len(issued), len(client.responses), len(srv.arrivals), srv.answered))
            if tls and down_seen and srv.bytes_to_b:
                r.fail("C19/bytes-reached-http-target-after-https", "%d bytes" % srv.bytes_to_b)
    delayed = any(a["beh"].get("delay", 0) > 0 for a in srv.arrivals)
    redir = any(a["beh"]["kind"].startswith("redir") for a in srv.arrivals)
    r.nontrivial = len(issued) >= 3 and (delayed or redir)
    r.labels.append("tls" if tls else "plain")
    if redir:
        r.labels.append("redirect")
    if delayed:
        r.labels.append("delayed-answer")
    if any(a["beh"].get("close") for a in srv.arrivals):
        r.labels.append("close-after-answer")
    if len(issued) >= 3:
        r.labels.append(">=3 requests")
    return r


def _strategy():
    req = st.tuples(st.just("req"), st.sampled_from(["GET", "POST", "PUT"]), st.binary(max_size=12)).map(list)
    svc = st.just(["svc"])
    ok = st.fixed_dictionaries({"kind": st.just("ok"), "delay": st.sampled_from([0, 0, 1, 2, 4]),
                                "frag": st.sampled_from([4096, 4096, 7, 1, 30]), "chunked": st.booleans(),
                                "close": st.sampled_from([False, False, False, True]),
                                "loc": st.sampled_from([False, False, True])})
    redir = st.fixed_dictionaries({"kind": st.sampled_from(["redir-rel", "redir-abs", "redir-other"]),
                                   "code": st.sampled_from([301, 302, 303, 307]), "delay": st.sampled_from([0, 1, 3]),
                                   "frag": st.sampled_from([4096, 9])})
    plain = st.fixed_dictionaries({"tls": st.just(False),
                                   "ops": st.lists(st.one_of(req, req, svc, svc, svc), min_size=1, max_size=24),
                                   "behaviours": st.lists(st.one_of(ok, ok, redir), min_size=1, max_size=8)})
    down = st.fixed_dictionaries({"kind": st.just("redir-downgrade"), "code": st.sampled_from([301, 302, 307]),
                                  "delay": st.just(0), "frag": st.just(4096), "same": st.booleans()})
    ok_open = st.fixed_dictionaries({"kind": st.just("ok"), "delay": st.sampled_from([0, 1]), "frag": st.just(4096),
                                     "chunked": st.booleans(), "close": st.just(False)})
    tls = st.fixed_dictionaries({"tls": st.just(True),
                                 "ops": st.lists(st.one_of(req, svc, svc), min_size=1, max_size=12),
                                 "behaviours": st.lists(st.one_of(ok_open, ok_open, down), min_size=1, max_size=5)})
    return st.one_of(plain, plain, plain, tls)


def searches(tier):
    return [("histories", _strategy(), 1200 if tier == "quick" else 10000)]

"""C27 Name/address registry stays a one-to-one bijection.

History = optional bulk initial entries + list of operations over a small
name/address domain (with '' and None).  After every operation:
  * addrByName and nameByAddr are exact inverses (bijection invariant);
  * an operation that raised NamerError or returned False left both unchanged;
  * whether the operation took effect (True) or not (False / NamerError, taken as
    one class) and the resulting mapping equal a dict model written from the
    docstrings;
  * getAddr/getName/countNameAddr agree with the mappings.
"""
from hypothesis import strategies as st

from hio import hioing
from hio.help import naming
from vlib.core import Result, assert_in_tree

assert_in_tree(naming)

PID = "C27"
RULE = ("cases: histories of <= 30 operations (add, rem by name/addr/both, changeAddrAtName, changeNameAtAddr, "
        "clear) over 4 names x 4 addrs plus '', None and an unhashable list value, optionally after a bulk init from a (name, addr) pair list; "
        "non-trivial = a rejected (raise / False) operation occurs when >= 2 entries are present and some change* "
        "operation succeeded; distinct = canonical hash of the history")
ASSUMPTIONS = ["names and addresses are hashable non-container values (str here); a value that cannot be a dictionary key (a "
               "list) is an invalid argument: the operation must be rejected, by any exception or False, and leave both mappings "
               "unchanged (what the unchanged tree does for every operation)"]

NAMES = ["a", "b", "c", "d"]
ADDRS = ["w", "x", "y", "z"]


class Model:
    def __init__(self):
        self.m = {}

    def inv(self):
        return {v: k for k, v in self.m.items()}

    def add(self, name, addr):
        if not name or not addr:
            return "raise"
        if name in self.m:
            return False if self.m[name] == addr else "raise"
        if addr in self.inv():
            return "raise"
        self.m[name] = addr
        return True

    def rem(self, name, addr):
        if name:
            if name not in self.m:
                return False
            if addr and self.m[name] != addr:
                return False
            del self.m[name]
            return True
        if addr:
            inv = self.inv()
            if addr not in inv:
                return False
            del self.m[inv[addr]]
            return True
        return False

    def chaddr(self, name, addr):
        if not name or not addr:
            return "raise"
        if name not in self.m:
            return False
        if self.m[name] == addr:
            return False
        if addr in self.inv():
            return "raise"
        self.m[name] = addr
        return True

    def chname(self, addr, name):
        if not name or not addr:
            return "raise"
        inv = self.inv()
        if addr not in inv:
            return False
        if inv[addr] == name:
            return False
        if name in self.m:
            return "raise"
        old = inv[addr]
        # model keeps insertion order irrelevant (dict equality ignores order)
        del self.m[old]
        self.m[name] = addr
        return True


def check_state(r, nm, model, step):
    a, n = nm.addrByName, nm.nameByAddr
    if {v: k for k, v in a.items()} != n or {v: k for k, v in n.items()} != a or len(a) != len(n):
        r.fail("C27/not-inverse", "after step %d: addrByName=%r nameByAddr=%r" % (step, a, n))
        return False
    if a != model.m:
        r.fail("C27/model-state", "after step %d: addrByName=%r model=%r" % (step, a, model.m))
        return False
    if nm.countNameAddr != len(a):
        r.fail("C27/count", "after step %d count=%r" % (step, nm.countNameAddr))
    for k, v in a.items():
        if nm.getAddr(k) != v or nm.getName(v) != k:
            r.fail("C27/getters", "after step %d getters disagree for %r" % (step, (k, v)))
    return True


def run_case(case):
    r = Result()
    model = Model()
    init = case.get("init")
    try:
        if init is None:
            nm = naming.Namer()
        else:
            pairs = [tuple(p) for p in init["pairs"]]
            ok = True
            for n_, a_ in pairs:
                if model.add(n_, a_) == "raise":
                    ok = False
                    break
            if not ok:
                # a conflicting bulk init must raise NamerError, nothing else to observe
                try:
                    naming.Namer(entries=dict(pairs) if init["as"] == "dict" and len(dict(pairs)) == len(pairs) else pairs)
                except hioing.NamerError:
                    return r
                if init["as"] == "dict":
                    return r  # dict() already collapsed duplicate names; not judged
                r.fail("C27/init-conflict-accepted", "entries=%r" % (pairs,))
                return r
            if init["as"] == "dict":
                nm = naming.Namer(entries=dict(pairs))
            else:
                nm = naming.Namer(entries=pairs)
    except hioing.NamerError as ex:
        r.fail("C27/init-raised", repr(ex))
        return r
    if not check_state(r, nm, model, -1):
        return r
    rejected_with_two = False
    changed = False
    for i, op in enumerate(case["ops"]):
        kind = op[0]
        before_a, before_n = nm.addrByName, nm.nameByAddr
        size_before = len(before_a)
        got = None
        unhashable = any(isinstance(x, list) for x in op[1:])
        if unhashable:
            # an argument that cannot be a dictionary key is an invalid argument: however it is rejected (any exception, or
            # False), both mappings must be left as they were
            try:
                if kind == "add":
                    res = nm.addNameAddr(op[1], op[2])
                elif kind == "rem":
                    res = nm.remNameAddr(name=op[1], addr=op[2])
                elif kind == "chaddr":
                    res = nm.changeAddrAtName(name=op[1], addr=op[2])
                else:
                    res = nm.changeNameAtAddr(addr=op[1], name=op[2])
            except Exception:      # noqa: BLE001 - the kind of rejection is not judged
                res = "raise"
            r.labels.append("unhashable-argument")
            if not isinstance(res, str) and res:
                r.fail("C27/unhashable-accepted", "step %d %r reported a change: %r" % (i, op, res))
                return r
            if (nm.addrByName, nm.nameByAddr) != (before_a, before_n):
                r.fail("C27/rejected-op-changed-state", "step %d %r -> %r changed %r / %r to %r / %r" % (
                    i, op, res, before_a, before_n, nm.addrByName, nm.nameByAddr))
                return r
            if not check_state(r, nm, model, i):
                return r
            continue
        try:
            if kind == "add":
                exp = model.add(op[1], op[2])
                got = nm.addNameAddr(op[1], op[2])
            elif kind == "rem":
                exp = model.rem(op[1], op[2])
                got = nm.remNameAddr(name=op[1], addr=op[2])
            elif kind == "chaddr":
                exp = model.chaddr(op[1], op[2])
                got = nm.changeAddrAtName(name=op[1], addr=op[2])
            elif kind == "chname":
                exp = model.chname(op[1], op[2])
                got = nm.changeNameAtAddr(addr=op[1], name=op[2])
            elif kind == "clear":
                model.m = {}
                exp = None
                got = nm.clearAllNameAddr()
            else:
                raise ValueError(kind)
        except hioing.NamerError:
            got = "raise"
        # "reports no change" is read as a falsy return (False today; None would do), "took effect" as a truthy one
        noeffect = kind != "clear" and (isinstance(got, str) and got == "raise" or not got)
        if noeffect:
            if (nm.addrByName, nm.nameByAddr) != (before_a, before_n):
                r.fail("C27/rejected-op-changed-state", "step %d %r -> %r changed %r to %r" % (
                    i, op, got, before_a, nm.addrByName))
                return r
            if size_before >= 2:
                rejected_with_two = True
        # The statement distinguishes an operation that takes effect from one that "is rejected or reports no change";
        # WHICH of the two non-effect outcomes (False or NamerError) an implementation picks for a given input is not part
        # of it, so they are compared as one class.  (clear returns nothing.)
        if kind != "clear" and (not noeffect) != (exp is True):
            r.fail("C27/return-model", "step %d %r returned %r, model %r (state %r)" % (i, op, got, exp, before_a))
            return r
        if not noeffect and kind in ("chaddr", "chname"):
            changed = True
        if not check_state(r, nm, model, i):
            return r
    r.nontrivial = rejected_with_two and changed
    if rejected_with_two:
        r.labels.append("rejected-with>=2")
    if changed:
        r.labels.append("change-succeeded")
    return r


def _strategy():
    name = st.sampled_from(NAMES + ["", None])
    addr = st.sampled_from(ADDRS + ["", None])
    nm = st.one_of(st.sampled_from(NAMES), name)
    ad = st.one_of(st.sampled_from(ADDRS), addr)
    op = st.one_of(
        st.tuples(st.just("add"), nm, ad),
        st.tuples(st.just("add"), nm, ad),
        st.tuples(st.just("rem"), name, addr),
        st.tuples(st.just("chaddr"), nm, ad),
        st.tuples(st.just("chname"), ad, nm),
        st.tuples(st.just("rem"), nm, st.none()),
        st.tuples(st.just("chaddr"), nm, ad),
        st.tuples(st.just("chname"), ad, nm),
        st.tuples(st.just("add"), nm, ad),
        st.tuples(st.just("clear")),
        # a value that cannot be a key (a [host, port] list as decoded from JSON) in either position
        st.tuples(st.sampled_from(["add", "rem", "chaddr"]), nm, st.just(["h", 1])),
        st.tuples(st.sampled_from(["add", "rem", "chaddr"]), st.just(["n"]), ad),
        st.tuples(st.just("chname"), ad, st.just(["n"])),
        st.tuples(st.just("chname"), st.just(["h", 1]), nm),
    ).map(list)
    init = st.one_of(
        st.none(), st.none(),
        st.fixed_dictionaries({"as": st.just("pairs"),
                               "pairs": st.lists(st.tuples(st.sampled_from(NAMES), st.sampled_from(ADDRS)).map(list),
                                                 max_size=4)}))
    return st.fixed_dictionaries({"init": init, "ops": st.one_of(st.lists(op, max_size=30), st.lists(op, min_size=8, max_size=30))})


def searches(tier):
    return [("history", _strategy(), 3000 if tier == "quick" else 25000)]

"""C26 Base64 integer and code conversions are exact inverses.

Oracles (all independent of the code under test):
  int:   b64ToInt(intToB64(i, l)) == i, len >= l, only Base64url chars, left padded
         with 'A' when shorter than l, and equal to an independent digit expansion;
         the bytes variant agrees.
  code:  codeB2ToB64(codeB64ToB2(s), len(s)) == s and the binary form equals the
         bit-string reference (6 bits per char, left aligned, zero padded).
  nab:   nabSextets(b, l) equals the first 6*l bits of b, zero padded to whole bytes.
"""
import itertools

from hypothesis import strategies as st

from hio.help import helping
from vlib.core import Result, assert_in_tree

assert_in_tree(helping)

PID = "C26"
RULE = ("cases: (int i < 2**300, min length l in 0..50) / Base64url strings of length 1..64 / "
        "(bytes, sextet count l with enough bytes); non-trivial = the value needs more chars than l, "
        "or l exceeds the needed chars (padding), or len(s) % 4 != 0 (pad bits), or l % 4 != 0 for nab; "
        "distinct = canonical hash of the case. Exhaustive sub-domains: all i < 2**14 x l in 0..4 (quick) "
        "/ i < 2**18 (thorough), all code strings of length <= 2 (quick) / <= 3 (thorough).")
ASSUMPTIONS = ["intToB64(0, 0) == '' is the documented empty form and is outside the round-trip domain",
               "Base64url alphabet A-Za-z0-9-_ in RFC 4648 order is the reference",
               "empty code strings are outside the domain (b64ToInt documents them as undefined)"]

ALPHA = "ABCDEFGHIJKLMNOPQRSTUVWXYZabcdefghijklmnopqrstuvwxyz0123456789-_"
IDX = {c: i for i, c in enumerate(ALPHA)}


def ref_digits(i):
    out = []
    while True:
        out.append(ALPHA[i % 64])
        i //= 64
        if not i:
            break
    return "".join(reversed(out))


def bits_of_bytes(b):
    return "".join(format(x, "08b") for x in b)


def run_case(case):
    r = Result()
    k = case["k"]
    if k == "int":
        i, l = case["i"], case["l"]
        need = len(ref_digits(i))
        r.nontrivial = need != l and i > 0
        r.labels.append("int:need>l" if need > l else ("int:need<l" if need < l else "int:need=l"))
        if l == 0:
            r.labels.append("int:l=0")
        s = helping.intToB64(i, l)
        sb = helping.intToB64b(i, l)
        if i == 0 and l == 0 and s == "":
            # zero with zero minimum digits is the documented empty form (the tree's
            # own test pins it, and b64ToInt documents "" as undefined): not judged.
            r.labels.append("int:zero-l0-empty(not judged)")
            r.nontrivial = False
            return r
        if not isinstance(s, str) or any(c not in IDX for c in s):
            r.fail("C26/int-alphabet", "intToB64(%d,%d)=%r" % (i, l, s))
            return r
        if len(s) < l:
            r.fail("C26/int-minlen", "intToB64(%d,%d)=%r shorter than l" % (i, l, s))
        exp = ref_digits(i)
        exp = "A" * (l - len(exp)) + exp
        if s != exp:
            sig = "C26/int-l0-empty" if (l == 0 and s == "") else "C26/int-digits"
            r.fail(sig, "intToB64(%d,%d)=%r expected %r" % (i, l, s, exp))
        if sb != s.encode():
            r.fail("C26/int-bytes-variant", "intToB64b(%d,%d)=%r vs %r" % (i, l, sb, s))
        if s != "":
            back = helping.b64ToInt(s)
            if back != i:
                r.fail("C26/int-roundtrip", "b64ToInt(intToB64(%d,%d)=%r)=%r" % (i, l, s, back))
            if helping.b64ToInt(s.encode()) != i:
                r.fail("C26/int-roundtrip-bytes", "b64ToInt(bytes) differs for %r" % s)
        # the inverse direction on the reference string
        if helping.b64ToInt(exp) != i:
            r.fail("C26/b64toint", "b64ToInt(%r) != %d" % (exp, i))
    elif k == "code":
        s = case["s"]
        r.nontrivial = len(s) % 4 != 0 and len(s) > 1
        r.labels.append("code:len%%4=%d" % (len(s) % 4))
        b = helping.codeB64ToB2(s)
        bits = "".join(format(IDX[c], "06b") for c in s)
        nbytes = -(-len(bits) // 8)
        refbits = bits + "0" * (nbytes * 8 - len(bits))
        if not isinstance(b, bytes) or bits_of_bytes(b) != refbits:
            r.fail("C26/code-b2", "codeB64ToB2(%r)=%r expected bits %s" % (s, b, refbits))
            return r
        back = helping.codeB2ToB64(b, len(s))
        if back != s:
            r.fail("C26/code-roundtrip", "codeB2ToB64(codeB64ToB2(%r))=%r" % (s, back))
        if helping.codeB64ToB2(s.encode()) != b:
            r.fail("C26/code-bytes-variant", "bytes input differs for %r" % s)
        # extra trailing bytes must not matter: only the first l sextets are converted
        tail = case.get("tail", b"")
        if tail and helping.codeB2ToB64(b + tail, len(s)) != s and len(s) % 4 == 0:
            r.fail("C26/code-tail", "codeB2ToB64 with trailing bytes changed result for %r" % s)
    elif k == "nab":
        b, l = case["b"], case["l"]
        r.nontrivial = l % 4 != 0 and l > 0
        r.labels.append("nab:l%%4=%d" % (l % 4))
        out = helping.nabSextets(b, l)
        allbits = bits_of_bytes(b)
        lead = allbits[:6 * l]
        nbytes = -(-len(lead) // 8)
        refbits = lead + "0" * (nbytes * 8 - len(lead))
        if not isinstance(out, bytes) or bits_of_bytes(out) != refbits or len(out) != nbytes:
            r.fail("C26/nab-leading-bits", "nabSextets(%r,%d)=%r expected bits %s" % (b, l, out, refbits))
        # and codeB2ToB64 on the same bytes gives the chars of those leading bits
        if l > 0:
            chars = "".join(ALPHA[int(lead[j:j + 6], 2)] for j in range(0, len(lead), 6))
            got = helping.codeB2ToB64(b, l)
            if got != chars:
                r.fail("C26/code-from-b2", "codeB2ToB64(%r,%d)=%r expected %r" % (b, l, got, chars))
    else:
        raise ValueError(k)
    return r


def _ints():
    return st.one_of(
        st.integers(0, 2 ** 300),
        st.integers(0, 50).flatmap(lambda e: st.integers(max(0, 64 ** e - 2), 64 ** e + 2)),
        st.integers(0, 64 ** 4),
    )


def _nab():
    def mk(l):
        n = -(-(l * 6) // 8)
        return st.binary(min_size=n, max_size=n + 4).map(lambda b: {"k": "nab", "b": b, "l": l})
    return st.integers(0, 48).flatmap(mk)


def searches(tier):
    n = 2500 if tier == "quick" else 40000
    return [
        ("int", st.fixed_dictionaries({"k": st.just("int"), "i": _ints(), "l": st.integers(0, 50)}), n),
        ("code", st.fixed_dictionaries({"k": st.just("code"),
                                        "s": st.text(alphabet=ALPHA, min_size=1, max_size=64),
                                        "tail": st.binary(max_size=3)}), n),
        ("nab", _nab(), n),
    ]


def enumerate_cases(tier, shard, nshards):
    top = 2 ** 14 if tier == "quick" else 2 ** 18
    maxlen = 2 if tier == "quick" else 3

    def ints():
        for i in range(shard, top, nshards):
            for l in range(0, 5):
                yield {"k": "int", "i": i, "l": l}

    def codes():
        n = 0
        for ln in range(1, maxlen + 1):
            for t in itertools.product(ALPHA, repeat=ln):
                if n % nshards == shard:
                    yield {"k": "code", "s": "".join(t)}
                n += 1

    return [("int-exhaustive<%d x l<=4" % top, ints(), True),
            ("code-exhaustive len<=%d" % maxlen, codes(), True)]

"""Data classes of the C28 zoo that are declared the way hio's own data-object modules are
(doming.py, bagging.py, canning.py): under `from __future__ import annotations`, so every
field annotation is a string.  Fields typed by another data class name it directly.

ZFInner / ZFIceInner are deliberately ALSO the names of unrelated classes in vlib/props/C28.py
(which subclasses ZFReg there): a name in a string annotation means what it means in the module
of the class that wrote the annotation.
"""
from __future__ import annotations

from dataclasses import dataclass, field
from typing import Any

from hio.help.doming import (IceRawDom, IceRegDom, RawDom, RegDom, TymeDom, namify, registerify)
from hio.base.hier.bagging import Bag
from hio.base.hier.canning import CanDom


@dataclass
class ZFInner(RawDom):
    a: int = 0
    s: str = ""
    v: Any = None


@dataclass(frozen=True)
class ZFIceInner(IceRawDom):
    a: int = 0
    s: str = ""


@registerify
@dataclass
class ZFReg(RegDom):
    inner: ZFInner = field(default_factory=ZFInner)
    ice: ZFIceInner = field(default_factory=ZFIceInner)
    bag: Bag = field(default_factory=Bag)          # a class of another module, imported here
    n: int = 0
    x: Any = None

    def __hash__(self):
        return hash((self.__class__.__name__,))


@registerify
@dataclass(frozen=True)
class ZFIceReg(IceRegDom):
    inner: ZFIceInner = field(default_factory=ZFIceInner)
    v: Any = None


@namify
@registerify
@dataclass
class ZFTyme(TymeDom):
    reg: ZFReg = field(default_factory=ZFReg)       # two levels of string-annotated nesting
    inner: ZFInner = field(default_factory=lambda: ZFInner(a=7, s="seven"))
    text: str = ""

    def __hash__(self):
        return hash((self.__class__.__name__,))


@namify
@registerify
@dataclass
class ZFCan(CanDom):
    """like hio's own Can: a subclass of CanDom, whose own (non-field) annotations name a class that is imported
    under TYPE_CHECKING only, so the annotations of the class as a whole cannot all be evaluated"""
    inner: ZFInner = field(default_factory=ZFInner)
    value: Any = None

    def __hash__(self):
        return hash((self.__class__.__name__,))

"""C29 File resources stay inside their directory; closing with clear removes them and nothing else.

Every case runs a Filer subclass whose HeadDirPath / AltHeadDirPath / TempHeadDir
point into a per-process sandbox ("box") under /verif/.work, populated with
canary files inside and outside the head directories.  A snapshot of the whole
box is taken around every Filer call (constructor+open, reopen, close) and the
difference is judged:

  * every entry created, deleted or modified by a call lies inside the Filer's head
    directory (head or alt head; TempHeadDir when temp)          [created/deleted-outside-head]
  * a call that rejects its arguments (FilerError) changes nothing  [rejected-but-changed]
  * close(clear=True): .path is gone afterwards                     [clear-left-path]
  * close(clear=...): everything it deleted lies at/below the Filer's own path
    (for temp Filers: or inside the temporary directory the Filer made itself) [close-removed-outside-own-path]
  * close never creates anything                                    [close-created]
  * temp Filer closed with clear at every close: the temporary directory it made is gone [temp-left-behind]
  * a Filer reopened (any number of times, with or without clear / reuse / clean / temp changes) and then closed with
    clear - by close(clear=True) or by the closing half of reopen(clear=True): no temporary directory the Filer made
    before that close is left.  Not judged: a temporary directory whose path the caller turned into a persistent one
    (reopen(temp=False, reuse=True) keeps the path), and histories in which a reopen failed [temp-left-behind-after-reopen]
"""
import os
import shutil

from hypothesis import strategies as st

from hio import hioing
from hio.base import filing
from vlib import fsbox
from vlib.core import WORK, Result, assert_in_tree

assert_in_tree(filing)

PID = "C29"
RULE = ("cases: flag combination temp x clean x filed x extensioned x reuse x clear (all 64, enumerated) x relative name x "
        "relative base (plain, nested, dotted: a.b, .hidden, ./x, x/../y, ../x, ../../x, ../../../x) x optional pre-existing "
        "file / directory at the target path x 0-3 reopen(clear, reuse, clean[, temp]) calls (temp may switch the Filer between temporary and persistent) x final close(clear), "
        "plus 288 fixed reopen histories (plain reopen() once / twice, temp switched either way, reuse, clearing or clean reopen "
        "in between) x temp x clean x filed x extensioned ending in close(clear=True); non-trivial = name "
        "or base has a dotted segment ('.', '..' or a dot inside a segment) or clean meets a pre-existing path; distinct = "
        "canonical hash of the case")
ASSUMPTIONS = [
    "head directory = the headDirPath given to the Filer (or the class' alternate head when the code falls back to it); for temp "
    "Filers the lenient reading 'inside TempHeadDir' is used for creations",
    "a FilerError for a name / base is a clean rejection (allowed) provided nothing was created or deleted",
    "intermediate directories left behind by a persistent (non-temp) Filer are not judged; removal of sibling entries by clean "
    "inside the head directory is not judged (the statement only bounds clean to the head directory)",
    "runs as the sandbox user; permission-denied fallbacks are exercised by blocking the tail path with a file instead",
    "'what it created' of a clearing close includes the temporary directories the same Filer made at earlier (re)opens: after "
    "the clearing close none of them is left, unless the caller kept its path as a persistent one (reopen(temp=False, "
    "reuse=True)); which of them a non-clearing reopen keeps using is not judged",
]

# The sandbox sits several levels below .work so that a few '..' segments stay inside the harness' own scratch
# area, and - more important - every destructive or creating call the filing module can make goes through the
# guard below, which refuses (and reports) any path outside the box instead of executing it.
TOP = os.path.join(WORK, "C29.%d" % os.getpid())
BOX = os.path.join(TOP, "l1", "l2", "l3", "l4", "l5", "l6", "l7", "l8", "box")


from vlib.fsbox import EscapeAttempt, inside as _inside_box       # noqa: E402
fsbox.install(BOX)


class BoxFiler(filing.Filer):
    HeadDirPath = os.path.join(BOX, "head")
    AltHeadDirPath = os.path.join(BOX, "alt")
    TempHeadDir = os.path.join(BOX, "tmp")


CANARIES = ["canary.txt", "outside/keep.txt", "head/keep.txt", "head/hio/other/keep.txt", "head/hio/clean/other/keep.txt",
            "tmp/other_app/keep.txt", "alt/keep.txt", "head_evil/keep.txt"]


def reset_box():
    if not BOX.startswith(WORK + os.sep):
        raise AssertionError("sandbox misplaced: %r" % BOX)
    shutil.rmtree(BOX, ignore_errors=True)
    for d in ("head", "alt", "tmp", "outside"):
        os.makedirs(os.path.join(BOX, d))
    for c in CANARIES:
        p = os.path.join(BOX, c)
        os.makedirs(os.path.dirname(p), exist_ok=True)
        with open(p, "w") as f:
            f.write("canary " + c)


def snapshot():
    snap = {}
    for root, dirs, files in os.walk(BOX, followlinks=False):
        rel = os.path.relpath(root, BOX)
        if rel != ".":
            snap[rel] = "d"
        for fn in files:
            p = os.path.join(root, fn)
            try:
                with open(p, "rb") as f:
                    snap[os.path.relpath(p, BOX)] = "f:" + f.read(64).hex()
            except OSError:
                snap[os.path.relpath(p, BOX)] = "f:?"
    return snap


def diff(a, b):
    created = sorted(k for k in b if k not in a)
    deleted = sorted(k for k in a if k not in b)
    modified = sorted(k for k in a if k in b and a[k] != b[k])
    return created, deleted, modified


def under(rel, top):
    return rel == top or rel.startswith(top + os.sep)


def has_dotdot(case):
    return any(seg == ".." for s in (case["name"], case["base"]) for seg in s.split("/"))


def dotted(case):
    for s in (case["name"], case["base"]):
        for seg in s.split("/"):
            if "." in seg:
                return True
    return False


def run_case(case):
    r = Result()
    reset_box()
    temp = case["temp"]
    disc = "(name or base with '..')" if has_dotdot(case) else "(no '..')"
    regions = ["tmp"] if temp else ["head", "alt"]
    if any(ro.get("temp") is not None and bool(ro["temp"]) != temp for ro in case.get("reopens", [])):
        regions = ["tmp", "head", "alt"]      # the Filer is switched between temporary and persistent
    labels = ["%s%s%s%s" % ("T" if temp else "-", "C" if case["clean"] else "-", "F" if case["filed"] else "-",
                            "X" if case["ext"] else "-")]
    if has_dotdot(case):
        labels.append("dotdot")
    elif dotted(case):
        labels.append("dotted")

    # pre-existing entry at the would-be path (placed only when that path is inside the head directory)
    pre = case.get("pre", "none")
    pre_hit = False
    if pre != "none" and not temp:
        nm = case["name"]
        if case["filed"] or case["ext"]:
            if not os.path.splitext(nm)[1]:
                nm = "%s.%s" % (nm, case.get("fext") or "text")
        tail = os.path.join("hio", "clean") if case["clean"] else "hio"
        tgt = os.path.normpath(os.path.join(BOX, "head", tail, case["base"], nm))
        if under(os.path.relpath(tgt, BOX), "head") and not os.path.exists(tgt):
            try:
                if pre == "file":
                    os.makedirs(os.path.dirname(tgt), exist_ok=True)
                    with open(tgt, "w") as f:
                        f.write("old")
                else:
                    os.makedirs(tgt, exist_ok=True)
                    if pre == "dirfull":
                        with open(os.path.join(tgt, "old.txt"), "w") as f:
                            f.write("old")
                pre_hit = True
                labels.append("pre-" + pre)
            except OSError:
                pass
    if case.get("blockhead") and not temp:
        # the tail directory name is taken by a file: creating below it fails and the code falls back to the alt head
        tp = os.path.join(BOX, "head", "hio")
        if not os.path.lexists(tp) or (os.path.isdir(tp) and not pre_hit):
            shutil.rmtree(tp, ignore_errors=True)
            with open(tp, "w") as f:
                f.write("blocker")
            labels.append("tail-blocked")

    def judge_call(what, before, after, rejected):
        created, deleted, modified = diff(before, after)
        if rejected and (created or deleted or modified):
            r.fail("C29/rejected-but-changed" + disc, "%s raised FilerError yet created=%r deleted=%r modified=%r" % (
                what, created[:5], deleted[:5], modified[:5]))
        bad_c = [p for p in created if not any(under(p, reg) for reg in regions)]
        bad_d = [p for p in deleted + modified if not any(under(p, reg) for reg in regions)]
        if bad_c:
            r.fail("C29/created-outside-head" + disc, "%s created %r (allowed: %r)" % (what, bad_c[:5], regions))
        if bad_d:
            r.fail("C29/deleted-outside-head" + disc, "%s deleted/modified %r (allowed: %r)" % (what, bad_d[:5], regions))
        return created, deleted, modified

    filer = None
    s0 = snapshot()
    own_temp = set()          # temporary head directories this Filer made (rel paths tmp/hio_*_test)
    try:
        try:
            filer = BoxFiler(name=case["name"], base=case["base"], temp=temp, headDirPath=os.path.join(BOX, "head"),
                             reopen=True, clear=False, reuse=case["reuse"], clean=case["clean"], filed=case["filed"],
                             extensioned=case["ext"], fext=case.get("fext"))
            rejected = False
        except EscapeAttempt as ex:
            r.fail("C29/escape-attempt-outside-sandbox" + disc, "open: %s on %r (blocked by the harness)" % (ex.op, ex.path))
            r.labels = labels + ["escape-blocked"]
            r.nontrivial = True
            return r
        except hioing.FilerError:
            rejected = True
        except OSError as ex:
            rejected = False
            labels.append("open-oserror:" + type(ex).__name__)
        s1 = snapshot()
        created, _d, _m = judge_call("open", s0, s1, rejected)
        if rejected:
            labels.append("rejected")
        if filer is None or not filer.path:
            r.labels = labels
            r.nontrivial = dotted(case) or has_dotdot(case) or (case["clean"] and pre_hit)
            return r
        for p in created:
            if os.path.dirname(p) == "tmp" and os.path.basename(p).startswith("hio_"):
                own_temp.add(p)
        if not temp and under(os.path.relpath(filer.path, BOX), "alt"):
            labels.append("alt-used")
        all_clear = True
        adopted = set()       # temporary directories whose path was kept as a persistent one (reopen(temp=False, reuse=True))
        faulted = False       # a reopen failed (FilerError / OSError): what it left half done is not judged as 'left behind'
        prev = s1
        if case.get("touch") and not case["filed"] and filer.path and _inside_box(filer.path):
            # the harness plays the subclass that owns the resource at .path: a file at an extensioned path
            # (uxd socket, single-file database) or a file inside a directory path (database directory)
            try:
                if case["ext"]:
                    if not os.path.lexists(filer.path):
                        with open(filer.path, "w") as f:
                            f.write("resource")
                        labels.append("touched-file")
                elif os.path.isdir(filer.path):
                    with open(os.path.join(filer.path, "data.mdb"), "w") as f:
                        f.write("resource")
                    labels.append("touched-dir")
            except OSError:
                pass
            prev = snapshot()
        live_temp = sorted(own_temp)[-1] if (temp and own_temp) else None   # temp dir made by the latest open, if any
        for ro in case.get("reopens", []):
            old_path_rel = os.path.relpath(filer.path, BOX) if filer.path else None
            try:
                if ro.get("temp") is None:
                    filer.reopen(clear=ro["clear"], reuse=ro["reuse"], clean=ro["clean"])
                else:
                    filer.reopen(temp=ro["temp"], clear=ro["clear"], reuse=ro["reuse"], clean=ro["clean"])
                    labels.append("reopen-temp-switch" if bool(ro["temp"]) != temp else "reopen-temp-same")
                rej = False
            except EscapeAttempt as ex:
                r.fail("C29/escape-attempt-outside-sandbox" + disc, "reopen: %s on %r (blocked by the harness)" % (ex.op, ex.path))
                r.labels = labels + ["escape-blocked"]
                r.nontrivial = True
                return r
            except hioing.FilerError:
                rej = True
                faulted = True
            except OSError as ex:
                rej = False
                faulted = True
                labels.append("reopen-oserror:" + type(ex).__name__)
            cur = snapshot()
            created, deleted_ro, modified_ro = judge_call("reopen(%r)" % (ro,), prev, cur, rej)
            if ro["clear"] and not all_clear and not faulted:
                # the closing half of this reopen was a close with clear: temporary directories made earlier are gone
                # (one that holds the resource just opened is in use again, not left behind)
                now_rel = os.path.relpath(filer.path, BOX) if filer.path else ""
                left = [p for p in sorted(own_temp) if p in cur and p not in adopted and not under(now_rel, p)]
                if left:
                    r.fail("C29/temp-left-behind-after-reopen", "reopen(%r) closed with clear, yet temporary directories the "
                           "Filer made at earlier (re)opens remain: %r (contents: %r)" % (
                               ro, left, [k for k in sorted(cur) if any(under(k, p) for p in left)][:8]))
            new_temp = None
            for p in created:
                if os.path.dirname(p) == "tmp" and os.path.basename(p).startswith("hio_"):
                    own_temp.add(p)
                    new_temp = p
            # what a reopen may remove: the old resource (with clear), the old temporary directory, and - clean only -
            # whatever sat at / next to the new target path
            new_path_rel = os.path.relpath(filer.path, BOX) if filer.path else None
            allowed = [x for x in (old_path_rel, live_temp) if x]
            if ro["clean"] and new_path_rel:
                allowed.append(os.path.dirname(new_path_rel))
            if old_path_rel and live_temp and under(old_path_rel, live_temp):
                pass
            bad = [p for p in deleted_ro + modified_ro if not any(under(p, a) for a in allowed)]
            if bad and not rej:
                r.fail("C29/reopen-removed-outside-own-path" + disc, "reopen(%r) of path %r (new path %r) removed %r" % (
                    ro, old_path_rel, new_path_rel, bad[:6]))
            if ro["clear"] and not rej and live_temp and live_temp in cur and all_clear:
                r.fail("C29/temp-left-behind", "reopen(%r): the temporary directory %r of the cleared resource remains" % (
                    ro, live_temp))
            if new_temp is not None:
                live_temp = new_temp
            elif not rej and (filer.path is None or not under(os.path.relpath(filer.path, BOX), "tmp")):
                live_temp = None
            if not ro["clear"]:
                all_clear = False
            if not faulted and not filer.temp and filer.path:
                for p in own_temp:
                    if under(os.path.relpath(filer.path, BOX), p):
                        adopted.add(p)
                        labels.append("temp-path-kept-persistent")
            prev = cur
            labels.append("reopen")
            if own_temp and not ro["clear"] and not ro["reuse"]:
                labels.append("temp-remade-without-clear")
        path_rel = os.path.relpath(filer.path, BOX)
        existed = os.path.lexists(filer.path)
        try:
            filer.close(clear=case["clear"])
            crej = False
        except EscapeAttempt as ex:
            r.fail("C29/escape-attempt-outside-sandbox" + disc, "close: %s on %r (blocked by the harness)" % (ex.op, ex.path))
            r.labels = labels + ["escape-blocked"]
            r.nontrivial = True
            return r
        except hioing.FilerError:
            crej = True
        except OSError as ex:
            crej = False
            labels.append("close-oserror:" + type(ex).__name__)
        s2 = snapshot()
        created, deleted, modified = judge_call("close(clear=%r)" % case["clear"], prev, s2, crej)
        if created:
            r.fail("C29/close-created", "close created %r" % (created[:5],))
        own = [path_rel] + (sorted(own_temp) if (temp or filer.temp) else [])
        bad = [p for p in deleted + modified if not any(under(p, o) for o in own)]
        if bad:
            r.fail("C29/close-removed-outside-own-path" + disc, "close(clear=%r) of path %r removed %r" % (
                case["clear"], path_rel, bad[:6]))
        if not case["clear"] and (deleted or modified):
            r.fail("C29/close-without-clear-removed", "deleted=%r modified=%r" % (deleted[:5], modified[:5]))
        if case["clear"] and existed and path_rel not in s0 and os.path.lexists(filer.path):
            r.fail("C29/clear-left-path", "path %r still exists after close(clear=True)" % path_rel)
        if (temp or filer.temp) and case["clear"] and all_clear:
            left = [p for p in sorted(own_temp) if p in s2]
            if left:
                r.fail("C29/temp-left-behind", "temporary directories made by the Filer remain after close(clear=True): %r "
                       "(contents: %r)" % (left, [k for k in s2 if any(under(k, p) for p in left)][:6]))
        if case["clear"] and not all_clear and not faulted:
            # reopened without clear at least once: whatever temporary directories the Filer made on the way, the final
            # clearing close leaves none of them behind
            left = [p for p in sorted(own_temp) if p in s2 and p not in adopted]
            if left:
                r.fail("C29/temp-left-behind-after-reopen", "after %d reopen(s) and close(clear=True) temporary directories "
                       "the Filer made remain: %r (contents: %r)" % (
                           len(case.get("reopens", [])), left, [k for k in sorted(s2) if any(under(k, p) for p in left)][:8]))
    finally:
        if filer is not None and getattr(filer, "file", None):
            try:
                filer.file.close()
            except Exception:      # noqa: BLE001
                pass
    r.labels = labels
    r.nontrivial = dotted(case) or has_dotdot(case) or (case["clean"] and pre_hit)
    return r


NAMES = ["main", "a/b", "a.b", ".hidden", "./x", "x/../y", "../x", "../../x", "../../../x", "x.text", "a/../../b", "", "a/",
         "../hio/z", "..", "a b", "x.y/z"]
BASES = ["", "b", "..", "b/c", "../..", "./", "b.d", "../b", "b/.."]


def _mk(t, c, f, x, ru, cl, name, base, pre="none", reopens=(), blockhead=False, fext=None, touch=False):
    return {"temp": t, "clean": c, "filed": f, "ext": x, "reuse": ru, "clear": cl, "name": name, "base": base,
            "pre": pre, "reopens": list(reopens), "blockhead": blockhead, "fext": fext, "touch": touch}


def enumerate_cases(tier, shard, nshards):
    names = NAMES if tier == "thorough" else NAMES[:13]
    bases = BASES if tier == "thorough" else BASES[:3]

    def gen():
        i = 0
        for t in (False, True):
            for c in (False, True):
                for f in (False, True):
                    for x in (False, True):
                        for ru in (False, True):
                            for cl in (False, True):
                                for nm in names:
                                    for bs in bases:
                                        i += 1
                                        if i % nshards == shard:
                                            yield _mk(t, c, f, x, ru, cl, nm, bs, touch=(i % 2 == 0))
    def _ro(clear=False, reuse=False, clean=False, temp=None):
        return {"clear": clear, "reuse": reuse, "clean": clean, "temp": temp}

    # reopen histories that end in close(clear=True): the plain reopen() of Hog.cycle / the doers' re-enter, repeated, with a
    # temp switch either way, with reuse, with a clearing reopen in between, with a clean reopen
    histories = [[_ro()], [_ro(), _ro()], [_ro(temp=False)], [_ro(temp=True)], [_ro(reuse=True), _ro()],
                 [_ro(), _ro(clear=True)], [_ro(clean=True), _ro()], [_ro(temp=False, reuse=True), _ro()],
                 [_ro(temp=True), _ro(), _ro(temp=False)]]

    def gen_reopen():
        i = 0
        for t in (True, False):
            for c in (False, True):
                for f in (False, True):
                    for x in (False, True):
                        for nm in ("main", "a.b/c"):
                            for h in histories:
                                i += 1
                                if i % nshards == shard:
                                    yield _mk(t, c, f, x, False, True, nm, "", reopens=h, touch=(i % 2 == 0))
    return [("flag-matrix x names x bases", gen(), True),
            ("temp x clean x filed x extensioned x reopen histories x close(clear)", gen_reopen(), False)]


def _strategy():
    seg = st.sampled_from(["a", "b", "main", "a.b", ".hidden", "..", ".", "x.text", "c.d.e", "z", "..", "a b", "hio", "clean"])
    rel = st.one_of(st.sampled_from(NAMES), st.lists(seg, min_size=1, max_size=4).map("/".join))
    base = st.one_of(st.sampled_from(BASES), st.lists(seg, min_size=0, max_size=3).map("/".join))
    ro = st.fixed_dictionaries({"clear": st.booleans(), "reuse": st.booleans(), "clean": st.booleans(),
                                "temp": st.sampled_from([None, None, True, False])})
    return st.builds(_mk, st.booleans(), st.booleans(), st.booleans(), st.booleans(), st.booleans(), st.booleans(),
                     rel, base, st.sampled_from(["none", "none", "file", "dir", "dirfull"]),
                     st.lists(ro, max_size=3), st.sampled_from([False, False, False, True]),
                     st.sampled_from([None, None, "txt", "d.e"]), st.booleans())


def searches(tier):
    return [("sequences", _strategy(), 1500 if tier == "quick" else 12000)]


def extra(ck):
    if TOP.startswith(WORK + os.sep):
        shutil.rmtree(TOP, ignore_errors=True)

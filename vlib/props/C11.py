"""C11 Closing a TCP endpoint releases every socket it opened.

Real loopback sockets.  Descriptor accounting through /proc/self/fd: the set of socket
descriptors of the process, minus the harness' own, must be back at the baseline
  * after server.close(), for the listen socket, every accepted connection, TLS connections
    whose handshake is still pending, and connections replaced by a newer one from the same
    source address;
  * after every reopen() / close() of a hio client: at most one descriptor belongs to the
    client after reopen, none after close.
An application normally keeps handles on the connections it serves (hio.core.http keeps Requestant(remoter=ix)); a
case says whether the harness plays such an application ("hold": keep every Remoter seen in server.ixes, and with hold=2
also those seen in server.cxes).  Without a handle CPython's reference counting closes a socket the server merely
dropped, which hides that the server itself never closed it; with a handle the descriptor is still open after
server.close().  The verdict is always read from the descriptor table, never from the handles.
No wall-clock signal is used: TCP on loopback completes connects and deliveries synchronously
enough that a bounded number of service calls settles every step; a step that does not settle
within the bound is counted as inconclusive and judges nothing.
"""
import gc
import os
import socket
import ssl
import struct

from hypothesis import strategies as st

from hio.core import tcp
from hio.core.tcp import clienting as tcpc
from hio.core.tcp import serving as tcps
from vlib import netns
from vlib.core import Result, assert_in_tree, exc_sig

assert_in_tree(tcpc, tcps)
ISOLATED = netns.isolate()       # own loopback: no other process can hold or take a port of a case

PID = "C11"
RULE = ("cases: server kind (plain / TLS) x <= 14 operations (raw client connect, TLS hello leaving the handshake pending, finish "
        "handshake, send, client close, client reset, reconnect from the same source address = replacement - before or after the server "
        "noticed the reset, the newcomer optionally completing its TLS handshake so that it replaces an established connection -, "
        "a peer that is only accepted (serviceAccepts) and not yet serviced, server service) x the application keeping handles on the "
        "Remoters it saw in .ixes (/.cxes) or not, "
        "optionally ending with a batch of 2-5 peers that connect back to back, some giving up (RST / FIN) before one single service pass, ended by server.close(), optionally after a first open() that fails because the port is busy; and hio client histories (plain / TLS client, reopen / connect / close in any order against a "
        "harness listener); non-trivial = the server is closed with a handshake pending, or after a replacement, or with >= 2 "
        "accepted connections, or with an accepted connection not yet serviced; for clients: a reopen while connected; distinct = canonical hash")
ASSUMPTIONS = [
    "Linux loopback; descriptors are read from /proc/self/fd; CPython reference counting closes sockets nobody references, so only "
    "descriptors still referenced by the endpoint, by the application (cases with hold >= 1: the harness keeps the Remoter objects "
    "it saw in the public server.ixes, hold = 2 also server.cxes, as an application serving those connections does) or leaked into "
    "a cycle are observable; the handles only keep objects alive, the verdict is the descriptor table",
    "Acceptor.serviceAccepts() is a public method a caller may call on its own (it is the whole service interface of a bare "
    "Acceptor); sockets it queued in .axes count as accepted by the server",
    "a step that does not settle within 200 service calls is recorded as inconclusive, never as a violation",
    "the check process moves itself into a private network namespace (own loopback) when it may, so that ports cannot be taken "
    "by other processes; otherwise a port the harness itself cannot bind makes the case inconclusive",
]

CERTS = "/repo/tests/core/tcp/certs"


def sock_fds():
    out = {}
    for fd in os.listdir("/proc/self/fd"):
        try:
            ln = os.readlink("/proc/self/fd/" + fd)
        except OSError:
            continue
        if ln.startswith("socket:"):
            out[int(fd)] = ln
    return out


def free_port():
    s = socket.socket(socket.AF_INET, socket.SOCK_STREAM)
    s.bind(("127.0.0.1", 0))
    p = s.getsockname()[1]
    s.close()
    return p


def client_ctx():
    ctx = ssl.SSLContext(ssl.PROTOCOL_TLS_CLIENT)
    ctx.check_hostname = False
    ctx.verify_mode = ssl.CERT_NONE
    return ctx


def rst_close(s):
    try:
        s.setsockopt(socket.SOL_SOCKET, socket.SO_LINGER, struct.pack("ii", 1, 0))
    except OSError:
        pass
    s.close()


def run_server_case(case, r):
    tls = case["tls"]
    gc.collect()
    base = set(sock_fds())
    port = free_port()
    if tls:
        server = tcps.ServerTls(host="127.0.0.1", port=port, bufsize=16192, certify=ssl.CERT_NONE,
                                keypath=os.path.join(CERTS, "server_key.pem"), certpath=os.path.join(CERTS, "server_cert.pem"),
                                cafilepath=os.path.join(CERTS, "client.pem"))
    else:
        server = tcps.Server(host="127.0.0.1", port=port, bufsize=16192)
    clients = []        # dict(raw, tls, state, addr)
    labels = []
    inconclusive = 0
    pending_hs = replaced = False
    queued = 0
    hold = case.get("hold", 0)      # 0: the application keeps no handle on a connection, 1: on those in .ixes, 2: also .cxes
    handles = []                    # Remoters the application still refers to (only keeps them alive, judges nothing)

    def keep():
        if hold:
            for rm in list(server.ixes.values()) + (list(server.cxes.values()) if tls and hold >= 2 else []):
                if not any(rm is h for h in handles):
                    handles.append(rm)
    try:
        if case.get("busy_first"):
            # another listener owns the port: the first open fails; what open() created must be released again, by
            # the failed open itself or at the latest by close()
            blocker = socket.socket(socket.AF_INET, socket.SOCK_STREAM)
            try:
                blocker.bind(("127.0.0.1", port))
                blocker.listen(1)
            except OSError:
                blocker.close()
                r.notes = "harness could not take the port (shared network namespace)"
                return
            try:
                opened = server.reopen()
                if not opened:
                    labels.append("open-failed-port-busy")
                    server.close()
                    left0 = {fd: ln for fd, ln in sock_fds().items() if fd not in base and fd != blocker.fileno()}
                    if left0:
                        r.fail("C11/failed-open-left-socket-open", "%d socket descriptors open after a failed open() and "
                               "close(): %r" % (len(left0), sorted(left0.values())))
                        return
            finally:
                blocker.close()
        if not server.reopen():
            r.notes = "server did not open"
            return
        ctx = client_ctx() if tls else None

        def svc(n=3):
            for _ in range(n):
                server.serviceConnects()
                keep()
                server.serviceReceivesAllIx()

        def handshake_full(c):
            nonlocal inconclusive
            c["tls"] = ctx.wrap_socket(c["raw"], server_hostname="localhost", do_handshake_on_connect=False)
            for _ in range(200):
                try:
                    c["tls"].do_handshake()
                    c["state"] = "secured"
                    break
                except (ssl.SSLWantReadError, ssl.SSLWantWriteError):
                    svc(1)
                except OSError:
                    c["state"] = "broken"
                    break
            else:
                inconclusive += 1
            svc()

        def connect(bind=None):
            s = socket.socket(socket.AF_INET, socket.SOCK_STREAM)
            s.setsockopt(socket.SOL_SOCKET, socket.SO_REUSEADDR, 1)
            if bind:
                try:
                    s.bind(bind)
                except OSError:
                    s.close()
                    return None
            s.settimeout(2.0)
            try:
                s.connect(("127.0.0.1", port))
            except OSError:
                s.close()
                return None
            s.setblocking(False)
            c = {"raw": s, "tls": None, "state": "connected", "addr": s.getsockname()}
            clients.append(c)
            return c

        for op in case["ops"]:
            k = op[0]
            live = [c for c in clients if c["state"] != "closed"]
            if k == "conn":
                connect()
                svc()
            elif k == "secure":
                # macro: a connection that is fully established (TLS: handshake completed) in one step
                c = connect()
                svc()
                if c is not None and tls:
                    handshake_full(c)
            elif k == "svc":
                svc(2)
            elif k == "queue":
                # a peer connects and the server only accepts it (public Acceptor.serviceAccepts()): the connection
                # waits in .axes until the next serviceConnects() - or until the server is closed
                connect()
                server.serviceAccepts()
            elif not live:
                continue
            else:
                c = live[op[1] % len(live)]
                if k == "hello" and tls and c["tls"] is None:
                    c["tls"] = ctx.wrap_socket(c["raw"], server_hostname="localhost", do_handshake_on_connect=False)
                    try:
                        c["tls"].do_handshake()
                        c["state"] = "secured"
                    except (ssl.SSLWantReadError, ssl.SSLWantWriteError):
                        c["state"] = "handshaking"
                    except OSError:
                        c["state"] = "broken"
                    server.serviceAccepts() if False else None
                elif k == "finish" and tls and c["tls"] is not None and c["state"] == "handshaking":
                    for _ in range(200):
                        svc(1)
                        try:
                            c["tls"].do_handshake()
                            c["state"] = "secured"
                            break
                        except (ssl.SSLWantReadError, ssl.SSLWantWriteError):
                            continue
                        except OSError:
                            c["state"] = "broken"
                            break
                    else:
                        inconclusive += 1
                    svc()
                elif k == "send":
                    try:
                        if tls and c["state"] == "secured":
                            c["tls"].send(b"x" * op[2])
                        elif not tls:
                            c["raw"].send(b"x" * op[2])
                    except (OSError, ssl.SSLError):
                        pass
                    svc()
                elif k == "close":
                    (c["tls"] or c["raw"]).close()
                    c["state"] = "closed"
                    svc()
                elif k == "rst":
                    rst_close(c["tls"] or c["raw"])
                    c["state"] = "closed"
                    svc()
                elif k == "replace":
                    addr = c["addr"]
                    was = c["state"]
                    rst_close(c["tls"] or c["raw"])
                    c["state"] = "closed"
                    if op[2]:
                        svc()          # the server may or may not have noticed the reset before the newcomer arrives
                    n = connect(bind=addr)
                    if n is not None:
                        replaced = True
                        labels.append("replacement")
                        if tls:
                            labels.append("replacement-of-" + ("established" if was == "secured" else "handshaking"))
                    svc()
                    if n is not None and tls and len(op) > 3 and op[3]:
                        handshake_full(n)        # the newcomer completes its handshake: it takes the place in .ixes
                        if n["state"] == "secured":
                            labels.append("replacement-secured")
        fb = case.get("final_batch")
        if fb:
            # several peers connect back to back, some give up (RST / FIN) before the server has serviced its accepts;
            # exactly one service pass, then the server is closed
            for kind in fb:
                c = connect()
                if c is None:
                    continue
                if kind == "rst":
                    rst_close(c["raw"])
                    c["state"] = "closed"
                elif kind == "fin":
                    c["raw"].close()
                    c["state"] = "closed"
            import time as _time
            _time.sleep(0.002)          # let loopback deliver the resets before the accept pass (not a correctness signal)
            server.serviceConnects()
            keep()
            labels.append("accept-batch-with-gone-peers")
        if tls and getattr(server, "cxes", None):
            pending_hs = True
            labels.append("handshake-pending-at-close")
        queued = len(server.axes)
        if queued:
            labels.append("accepted-not-yet-serviced-at-close")
        naccepted = len(server.ixes)
        server.close()
    except Exception as ex:      # noqa: BLE001
        from vlib.core import hio_frame
        if hio_frame(ex) is None:
            raise
        # servicing errors are C10's business; still close and account
        labels.append("service-raised:" + type(ex).__name__)
        try:
            server.close()
        except Exception:      # noqa: BLE001
            pass
        naccepted = 0
    mine = set()
    for c in clients:
        for s in (c["tls"], c["raw"]):
            if s is not None:
                try:
                    fd = s.fileno()
                except (OSError, ValueError):
                    fd = -1
                if fd >= 0:
                    mine.add(fd)
    left = {fd: ln for fd, ln in sock_fds().items() if fd not in base and fd not in mine}
    if left:
        # attribute every leftover descriptor to its holder (diagnostics and signature only; the verdict is `left`)
        def fd_of(sock):
            try:
                return sock.fileno() if sock is not None else -1
            except (OSError, ValueError):
                return -1

        groups = {}          # signature suffix -> [description]
        seen = set()

        def put(suffix, fd, text):
            if fd in left and fd not in seen:
                seen.add(fd)
                groups.setdefault(suffix, []).append(text)

        current = []
        for name in ("ixes", "cxes"):
            for ca, rm in getattr(server, name, {}).items():
                current.append(rm)
                put("(TLS connections with a pending handshake)" if name == "cxes" else "", fd_of(rm.cs), "%s[%r]" % (name, ca))
        put("", fd_of(server.ss), "listen socket")
        for cs, ca in list(server.axes):
            put("(accepted connections not yet serviced)", fd_of(cs), "axes: %r accepted by serviceAccepts(), never serviced" % (ca,))
        for rm in handles:
            if not any(rm is x for x in current):
                if not replaced:
                    sfx = ""        # dropped from the tables for another reason than a replacement
                elif not tls:
                    sfx = "(connection replaced by a newer one from the same address)"
                elif getattr(rm, "connected", False):
                    sfx = "(established TLS connection replaced by a newer one from the same address)"
                else:
                    sfx = "(handshaking TLS connection replaced by a newer one from the same address)"
                put(sfx, fd_of(rm.cs), "connection from %r no longer in .ixes/.cxes, the application still holds its Remoter" % (rm.ca,))
        for fd in left:
            put("", fd, "unattributed %s" % left[fd])
        for sfx in sorted(groups):
            r.fail("C11/server-close-left-sockets-open" + sfx, "%d socket descriptors still open after %s.close() (all leftovers: %r): %r" % (
                len(groups[sfx]), type(server).__name__, sorted(left.values()), groups[sfx]))
    for rm in handles:          # the application lets go of its handles
        try:
            if rm.cs is not None:
                rm.cs.close()
        except OSError:
            pass
    for cs, _ca in list(server.axes):
        try:
            cs.close()
        except OSError:
            pass
    for c in clients:
        for s in (c["tls"], c["raw"]):
            if s is not None:
                try:
                    s.close()
                except OSError:
                    pass
    r.nontrivial = pending_hs or replaced or naccepted >= 2 or queued > 0
    r.labels.extend(sorted(set(labels)) + ["server-tls" if tls else "server-plain"])
    r.labels.append("app-holds-handles:%d" % hold)
    if naccepted >= 2:
        r.labels.append(">=2 accepted")
    if inconclusive:
        r.labels.append("inconclusive-step")


def run_client_case(case, r):
    tls = case["tls"]
    gc.collect()
    lst = socket.socket(socket.AF_INET, socket.SOCK_STREAM)
    lst.setsockopt(socket.SOL_SOCKET, socket.SO_REUSEADDR, 1)
    lst.bind(("127.0.0.1", 0))
    lst.listen(16)
    lst.setblocking(False)
    port = lst.getsockname()[1]
    accepted = []
    base = set(sock_fds())
    if tls:
        client = tcpc.ClientTls(host="127.0.0.1", port=port, bufsize=16192, certify=ssl.CERT_NONE, hostify=False,
                                certedhost="localhost")
    else:
        client = tcpc.Client(host="127.0.0.1", port=port, bufsize=16192)
    reopen_while_connected = False
    try:
        for op in case["ops"]:
            if op == "reopen":
                if client.accepted:
                    reopen_while_connected = True
                client.reopen()
            elif op == "connect":
                for _ in range(20):
                    if client.cs is None:
                        break
                    try:
                        client.accept() if not client.accepted else None
                    except OSError:
                        break
                    try:
                        s, _a = lst.accept()
                        accepted.append(s)
                    except OSError:
                        pass
                    if client.accepted:
                        break
            elif op == "close":
                client.close()
            mine = {s.fileno() for s in accepted if s.fileno() >= 0} | {lst.fileno()}
            extra = {fd: ln for fd, ln in sock_fds().items() if fd not in base and fd not in mine}
            limit = 0 if op == "close" else 1
            if len(extra) > limit:
                r.fail("C11/client-left-earlier-socket-open(%s)" % op, "after %s() the client owns %d open socket descriptors %r "
                       "(history %r)" % (op, len(extra), sorted(extra.values()), case["ops"]))
                break
        client.close()
        mine = {s.fileno() for s in accepted if s.fileno() >= 0} | {lst.fileno()}
        extra = {fd: ln for fd, ln in sock_fds().items() if fd not in base and fd not in mine}
        if extra and not r.failures:
            r.fail("C11/client-close-left-sockets-open", "%r" % sorted(extra.values()))
    except Exception as ex:      # noqa: BLE001
        from vlib.core import hio_frame
        if hio_frame(ex) is None:
            raise
        r.fail(exc_sig(ex, "C11/client-raised"), repr(ex))
    finally:
        try:
            client.close()
        except Exception:      # noqa: BLE001
            pass
        for s in accepted:
            s.close()
        lst.close()
    r.nontrivial = reopen_while_connected
    r.labels.append("client-tls" if tls else "client-plain")
    if reopen_while_connected:
        r.labels.append("reopen-while-connected")


def run_case(case):
    r = Result()
    if case["kind"] == "server":
        run_server_case(case, r)
    else:
        run_client_case(case, r)
    return r


def _server_strategy(focus=False):
    idx = st.integers(0, 5)
    replace = st.tuples(st.just("replace"), idx, st.booleans(), st.booleans()).map(list)
    if focus:
        # short histories around replacement: connections in every stage (accepted only, handshake pending, established)
        # whose peer comes back from the same source address, the application keeping handles on what it serves
        setup = st.lists(st.sampled_from([[["conn"]], [["secure"]], [["conn"], ["hello", 5]]]), min_size=1, max_size=3)
        tail = st.lists(st.one_of(st.just(["conn"]), st.just(["secure"]), st.tuples(st.just("hello"), idx).map(list),
                                  st.tuples(st.just("finish"), idx).map(list), replace, st.just(["svc"]), st.just(["queue"]),
                                  st.tuples(st.just("send"), idx, st.integers(1, 2000)).map(list)), max_size=3)
        ops = st.tuples(setup, replace, tail).map(lambda t: [o for grp in t[0] for o in grp] + [t[1]] + t[2])
        return st.fixed_dictionaries({"kind": st.just("server"), "tls": st.sampled_from([False, True, True]),
                                      "ops": ops, "hold": st.sampled_from([0, 1, 1, 2, 2]),
                                      "busy_first": st.just(False), "final_batch": st.none()})
    op = st.one_of(st.just(["conn"]), st.just(["conn"]), st.just(["svc"]), st.just(["secure"]), st.just(["secure"]),
                   st.tuples(st.just("hello"), idx).map(list), st.tuples(st.just("hello"), idx).map(list),
                   st.tuples(st.just("finish"), idx).map(list),
                   st.tuples(st.just("send"), idx, st.integers(1, 2000)).map(list),
                   st.tuples(st.just("close"), idx).map(list), st.tuples(st.just("rst"), idx).map(list),
                   replace, replace, st.just(["queue"]))
    return st.fixed_dictionaries({"kind": st.just("server"), "tls": st.booleans(), "ops": st.lists(op, min_size=1, max_size=14),
                                  "hold": st.sampled_from([0, 1, 2, 2]),
                                  "busy_first": st.sampled_from([False, False, False, True]),
                                  "final_batch": st.one_of(st.none(), st.none(),
                                                           st.lists(st.sampled_from(["live", "live", "rst", "fin"]), min_size=2, max_size=5))})


def _client_strategy():
    return st.fixed_dictionaries({"kind": st.just("client"), "tls": st.booleans(),
                                  "ops": st.lists(st.sampled_from(["reopen", "connect", "connect", "close"]), min_size=1, max_size=10)})


def searches(tier):
    q = tier == "quick"
    return [("server-histories", _server_strategy(), 500 if q else 2500),
            ("server-replacements", _server_strategy(focus=True), 200 if q else 1000),
            ("client-histories", _client_strategy(), 300 if q else 1500)]

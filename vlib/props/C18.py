"""C18 WSGI responses are framed and pipelined requests answered in order.

The real http.Server runs in memory (real tcp.Server code on harness accepts)
with a generated application table: per request a status, headers (with or
without Content-Length, possibly smaller than the body), body pieces (including
empty "not ready" yields) returned as a list, a generator, or a generator with a
return value.  A generated sequence of 1-4 requests (HTTP/1.0 and 1.1,
keep-alive / close, pipelined in one write or spaced over cycles) is sent on one
connection under a kernel script of partial sends.

Oracle: the bytes the peer received are parsed by an independent strict response
parser (vlib/memhttp.py).  While the connection stays open every response must
be delimited (Content-Length or chunked); responses come in request order; each
equals the application's status, headers (subset) and b"".join(pieces),
truncated to a declared Content-Length; the server closes the connection after a
response exactly when that request was not persistent.
"""
from hypothesis import strategies as st

from vlib import httpgen, memhttp
from vlib.core import Result

PID = "C18"
RULE = ("cases: 1-4 requests on one connection (HTTP/1.0 / 1.1, Connection close / keep-alive / none, GET or POST with body, "
        "one write or spaced over cycles) x application behaviour per request (status, headers, Content-Length none / exact "
        "/ smaller than body, 0-4 body pieces incl. empty ones, list / generator / generator-with-return) x server-side "
        "partial-send script. non-trivial = >= 2 requests answered on the connection and at least one response without "
        "Content-Length; distinct = canonical hash of the case")
ASSUMPTIONS = ["persistence per RFC 7230 as the server documents it: HTTP/1.1 persistent unless 'close', HTTP/1.0 only with "
               "keep-alive", "applications never declare a Content-Length larger than the body they produce",
               "HEAD requests are not generated"]


def make_app(table):
    def app(environ, start_response):
        k = int(environ.get("HTTP_X_REQ", "0"))
        spec = table[k]
        hdrs = [(n, v) for n, v in spec["headers"]]
        body = b"".join(spec["pieces"]) + (spec["ret"] if spec["shape"] == "genret" else b"")
        if spec["cl"] == "exact":
            hdrs.append(("Content-Length", str(len(body))))
        elif isinstance(spec["cl"], int):
            hdrs.append(("Content-Length", str(max(0, len(body) - spec["cl"]))))
        start_response(spec["status"], hdrs)
        if spec["shape"] == "list":
            return list(spec["pieces"])

        def gen():
            for p in spec["pieces"]:
                yield p
            if spec["shape"] == "genret":
                return spec["ret"]
        return gen()
    return app


def persistent(req):
    conn = (req["conn"] or "").lower()
    if req["ver"] == "1.1":
        return "close" not in conn
    return "keep-alive" in conn


def build_request(k, req):
    lines = ["%s /r%d HTTP/%s" % (req["method"], k, req["ver"]), "Host: x", "X-Req: %d" % k]
    if req["conn"]:
        lines.append("Connection: %s" % req["conn"])
    body = req["body"] if req["method"] == "POST" else b""
    if body:
        lines.append("Content-Length: %d" % len(body))
    return ("\r\n".join(lines) + "\r\n\r\n").encode("latin-1") + body


def run_case(case):
    r = Result()
    reqs = case["reqs"]
    table = [q["app"] for q in reqs]
    rig = memhttp.Rig(app=make_app(table), bs=64, tymeout=100000.0)   # idle timeouts are C12's business, keep them out of reach
    port = rig.connect()
    rig.cycle()
    ss = rig.ssock(port)
    if ss is not None:
        ss.send_script = [list(t) for t in case["script"]]
    wire = [build_request(k, q) for k, q in enumerate(reqs)]
    try:
        if case["delivery"] == "one-write":
            rig.send(port, b"".join(wire))
            rig.cycle()
        else:
            for k, w in enumerate(wire):
                if rig.eof[port]:
                    break
                rig.send(port, w)
                for _ in range(1 + case["gaps"][k % len(case["gaps"])]):
                    rig.cycle()
        for _ in range(60):
            rig.cycle()
    except Exception as ex:      # noqa: BLE001
        r.fail("C18/service-raised", "%s: %s" % (type(ex).__name__, ex))
        return fin(r, case, 0)
    data = bytes(rig.rx[port])
    eof = rig.eof[port]
    resps, left, problem = memhttp.parse_responses(data, eof)
    # expected number of answers: up to and including the first non-persistent request
    cut = next((i for i, q in enumerate(reqs) if not persistent(q)), None)
    nexp = len(reqs) if cut is None else cut + 1
    if problem:
        k = len(resps) - 1 if problem.startswith("undelimited") else len(resps)
        q = reqs[min(k, len(reqs) - 1)]
        sig = "C18/undelimited-response-on-open-connection" if problem.startswith("undelimited") else "C18/unparsable-response-stream"
        if problem.startswith("undelimited"):
            if q["ver"] == "1.0":
                sig += "(HTTP/1.0 keep-alive without Content-Length)"
            elif k >= 1:
                sig += "(second or later response on the connection)"
        r.fail(sig, "%s; response #%d of %d expected, eof=%r, request %r" % (problem, k, nexp, eof, {a: q[a] for a in ("ver", "conn")}))
        return fin(r, case, len(resps))
    for k, resp in enumerate(resps[:len(reqs)]):
        if resp["framing"] == "close" and persistent(reqs[k]):
            q = reqs[k]
            sig = "C18/undelimited-response-on-open-connection"
            if q["ver"] == "1.0":
                sig += "(HTTP/1.0 keep-alive without Content-Length)"
            elif k >= 1:
                sig += "(second or later response on the connection)"
            r.fail(sig, "response %d has neither Content-Length nor chunked coding although request %r keeps the connection open" % (
                k, {a: q[a] for a in ("ver", "conn")}))
            return fin(r, case, len(resps))
    if len(resps) != nexp:
        r.fail("C18/response-count", "%d responses for %d answerable requests (eof=%r, leftover %r)" % (len(resps), nexp, eof, left[:40]))
        return fin(r, case, len(resps))
    for k, (resp, q) in enumerate(zip(resps, reqs)):
        spec = q["app"]
        want_status = int(spec["status"].split()[0])
        body = b"".join(spec["pieces"]) + (spec["ret"] if spec["shape"] == "genret" else b"")
        if isinstance(spec["cl"], int):
            body = body[:max(0, len(body) - spec["cl"])]
        if resp["status"] != want_status:
            r.fail("C18/status", "response %d status %d, application said %d (responses out of order?)" % (k, resp["status"], want_status))
            break
        hd = dict(resp["headers"])
        miss = [(n, v) for n, v in spec["headers"] if hd.get(n.lower()) != v]
        if miss:
            r.fail("C18/headers", "response %d lacks application headers %r (got %r)" % (k, miss[:3], resp["headers"][:6]))
            break
        if resp["body"] != body:
            sig = "C18/body-exceeds-content-length" if len(resp["body"]) > len(body) and isinstance(spec["cl"], int) else "C18/body"
            r.fail(sig, "response %d body %r, application produced %r (framing %s)" % (k, resp["body"][:60], body[:60], resp["framing"]))
            break
        last = k == len(resps) - 1
        if resp["framing"] == "close" and not last:
            r.fail("C18/undelimited-response-on-open-connection", "response %d" % k)
            break
    if not r.failures:
        if cut is None and eof:
            r.fail("C18/closed-after-persistent-request", "all %d requests persistent but the server closed the connection" % len(reqs))
        elif cut is not None and not eof:
            r.fail("C18/not-closed-after-non-persistent-request", "request %d was not persistent (%r) but the connection is still open" % (
                cut, {a: reqs[cut][a] for a in ("ver", "conn")}))
    return fin(r, case, len(resps))


def fin(r, case, nresp):
    nocl = any(q["app"]["cl"] is None for q in case["reqs"][:max(nresp, 1)])
    r.nontrivial = nresp >= 2 and nocl
    r.labels.append("responses=%d" % min(nresp, 4))
    r.labels.append("delivery:" + case["delivery"])
    if nocl:
        r.labels.append("response-without-content-length")
    if any(q["ver"] == "1.0" and persistent(q) for q in case["reqs"]):
        r.labels.append("http1.0-keep-alive")
    return r


def app_spec(clean=False):
    cl = st.sampled_from(["exact", "exact", None, None, 1, 3]) if not clean else st.sampled_from(["exact", "exact", 1, 2])
    return st.fixed_dictionaries({
        "status": st.sampled_from(["200 OK", "201 Created", "404 Not Found", "500 Internal Server Error"]),
        "headers": st.lists(st.tuples(httpgen.header_name().map(lambda n: "X-" + n),
                                      st.text(alphabet="abcdefghijklmnopqrstuvwxyz0123456789 ;=/", max_size=12).map(str.strip))
                            .map(list), max_size=3, unique_by=lambda h: h[0].lower()),
        "cl": cl,
        "pieces": st.lists(st.one_of(st.just(b""), st.binary(min_size=1, max_size=40)), max_size=4),
        "shape": st.sampled_from(["list", "gen", "genret"]),
        "ret": st.binary(max_size=10)})


def case_strategy(clean=False):
    req = st.fixed_dictionaries({
        "ver": st.sampled_from(["1.1", "1.1", "1.1", "1.0"]),
        "conn": st.sampled_from([None, None, None, "keep-alive", "Keep-Alive", "keep-alive", "close"]),
        "method": st.sampled_from(["GET", "POST"]), "body": st.binary(max_size=30),
        "app": app_spec(clean)})
    tok = st.one_of(st.tuples(st.just("accept"), st.integers(1, 50)), st.tuples(st.just("block"))).map(list)
    return st.fixed_dictionaries({"reqs": st.one_of(st.lists(req, min_size=1, max_size=4), st.lists(req, min_size=2, max_size=4)),
                                  "delivery": st.sampled_from(["one-write", "spaced"]),
                                  "gaps": st.lists(st.integers(0, 3), min_size=1, max_size=4),
                                  "script": st.lists(tok, max_size=10)})


def searches(tier):
    q = tier == "quick"
    return [("apps", case_strategy(), 1500 if q else 12000),
            # every response declares a Content-Length: explores ordering / closing behind the framing findings
            ("apps-with-content-length", case_strategy(clean=True), 700 if q else 6000)]

"""C18 WSGI responses are framed and pipelined requests answered in order.

The real http.Server runs in memory (real tcp.Server code on harness accepts)
with a generated application table: per request a status, headers (with or
without Content-Length, possibly smaller than the body), body pieces (including
empty "not ready" yields) returned as a list, a generator, or a generator with a
return value.  A generated sequence of 1-4 requests (HTTP/1.0 and 1.1,
keep-alive / close, pipelined in one write or spaced over cycles) is sent on one
connection under a kernel script of partial sends.

Also generated: the request byte stream cut into segments anywhere (inside a
head, between head and body, inside a body, at request boundaries) with service
cycles in between; chunked request bodies; HEAD requests and 204 / 304 statuses
(the applications give those no body); body pieces handed to the write() callable
that start_response returns (PEP 3333) instead of being yielded; and a
start_response call that is replaced by a second one with exc_info before
anything was handed over (PEP 3333: the application's output is then the second
status / headers).

Oracle: the bytes the peer received are parsed by an independent strict response
parser (parse_stream below: the parser of vlib/memhttp.py made aware of the
request methods, because RFC 7230 3.3.3 makes every client treat a response to
HEAD and a 1xx / 204 / 304 response as having no body whatever its header fields
say).  While the connection stays open every response must be delimited
(Content-Length or chunked); responses come in request order; each equals the
application's status, headers (subset; none of a replaced start_response call)
and b"".join(pieces), truncated to a declared Content-Length; the server closes
the connection after a response exactly when that request was not persistent.
"""
import sys

from hypothesis import strategies as st

from vlib import httpgen, memhttp
from vlib.core import Result

PID = "C18"
RULE = ("cases: 1-4 requests on one connection (HTTP/1.0 / 1.1, Connection close / keep-alive / none, GET, HEAD or POST with body "
        "(Content-Length or chunked), one write / spaced over cycles / byte stream cut into segments inside heads and bodies) x "
        "application behaviour per request (status incl. 204 / 304, headers, Content-Length none / exact "
        "/ smaller than body, 0-4 body pieces incl. empty ones, list / generator / generator-with-return, pieces yielded or "
        "given to the write() callable, optional replaced start_response(exc_info)) x server-side "
        "partial-send script. non-trivial = >= 2 requests answered on the connection and at least one response without "
        "Content-Length; distinct = canonical hash of the case")
ASSUMPTIONS = ["persistence per RFC 7230 as the server documents it: HTTP/1.1 persistent unless 'close', HTTP/1.0 only with "
               "keep-alive", "applications never declare a Content-Length larger than the body they produce",
               "applications produce no body bytes for HEAD requests and 204 / 304 statuses (and no Content-Length with 204)",
               "bytes after a bodiless (HEAD / 204 / 304) response are only judged while the connection stays open",
               "start_response is called a second time only with exc_info and only before any body piece was handed over"]

BODILESS_STATUS = (204, 304)


def status_code(spec):
    return int(spec["status"].split()[0])


def bodiless(req):
    """Responses that by definition have no body: to HEAD, and 1xx / 204 / 304."""
    code = status_code(req["app"])
    return req["method"] == "HEAD" or code in BODILESS_STATUS or 100 <= code < 200


def via_of(spec):
    via = list(spec.get("via") or [])
    return via + [0] * (len(spec["pieces"]) - len(via))


def produced_body(spec):
    """The bytes the application hands over, in the order it hands them over."""
    pairs = list(zip(spec["pieces"], via_of(spec)))
    if spec["shape"] == "list":       # written pieces go out while the application runs, the list is iterated afterwards
        body = b"".join(p for p, w in pairs if w) + b"".join(p for p, w in pairs if not w)
    else:
        body = b"".join(spec["pieces"])
    return body + (spec["ret"] if spec["shape"] == "genret" else b"")


def expected_body(spec):
    body = produced_body(spec)
    if isinstance(spec["cl"], int):
        body = body[:max(0, len(body) - spec["cl"])]
    return body


def make_app(table):
    def app(environ, start_response):
        k = int(environ.get("HTTP_X_REQ", "0"))
        spec = table[k]
        hdrs = [(n, v) for n, v in spec["headers"]]
        body = produced_body(spec)
        if spec["cl"] == "exact":
            hdrs.append(("Content-Length", str(len(body))))
        elif isinstance(spec["cl"], int):
            hdrs.append(("Content-Length", str(max(0, len(body) - spec["cl"]))))
        first = spec.get("restart")
        if first:
            # PEP 3333: start_response may be called again, with exc_info, as long as no headers went out;
            # the application's output is then what the last call said
            fh = [(n, v) for n, v in first["headers"]]
            if first.get("cl") is not None:
                fh.append(("Content-Length", str(first["cl"])))
            start_response(first["status"], fh)
            try:
                raise RuntimeError("application changes its mind")
            except RuntimeError:
                write = start_response(spec["status"], hdrs, sys.exc_info())
        else:
            write = start_response(spec["status"], hdrs)
        pairs = list(zip(spec["pieces"], via_of(spec)))
        if spec["shape"] == "list":
            out = []
            for p, w in pairs:
                if w:
                    write(p)
                else:
                    out.append(p)
            return out

        def gen():
            for p, w in pairs:
                if w:
                    write(p)
                else:
                    yield p
            if spec["shape"] == "genret":
                return spec["ret"]
        return gen()
    return app


def persistent(req):
    conn = (req["conn"] or "").lower()
    if req["ver"] == "1.1":
        return "close" not in conn
    return "keep-alive" in conn


def chunked_request(req):
    return bool(req.get("chunked")) and req["method"] == "POST" and req["ver"] == "1.1"


def build_request(k, req):
    """-> (wire bytes, length of the head)."""
    lines = ["%s /r%d HTTP/%s" % (req["method"], k, req["ver"]), "Host: x", "X-Req: %d" % k]
    if req["conn"]:
        lines.append("Connection: %s" % req["conn"])
    body = req["body"] if req["method"] == "POST" else b""
    if chunked_request(req):
        lines.append("Transfer-Encoding: chunked")
        n = max(1, int(req.get("csize", 8)))
        body = b"".join(b"%x\r\n%s\r\n" % (len(body[i:i + n]), body[i:i + n]) for i in range(0, len(body), n)) + b"0\r\n\r\n"
    elif body:
        lines.append("Content-Length: %d" % len(body))
    head = ("\r\n".join(lines) + "\r\n\r\n").encode("latin-1")
    return head + body, len(head)


def plan(case, built):
    """The client's sends: [(bytes, service cycles afterwards)]."""
    wire = [w for w, _h in built]
    gaps = case["gaps"]
    if case["delivery"] == "one-write":
        return [(b"".join(wire), 1)]
    if case["delivery"] == "spaced":
        return [(w, 1 + gaps[k % len(gaps)]) for k, w in enumerate(wire)]
    # "segmented": the byte stream of all requests, cut where the requests say (offsets relative to the end of their head)
    cuts = set()
    pos = 0
    for q, (w, hl) in zip(case["reqs"], built):
        if q.get("sep") and pos:
            cuts.add(pos)
        for off in q.get("cut") or []:
            c = pos + hl + off
            if pos < c < pos + len(w):
                cuts.add(c)
        pos += len(w)
    stream = b"".join(wire)
    edges = [0] + sorted(cuts) + [len(stream)]
    return [(stream[a:b], 1 + gaps[i % len(gaps)]) for i, (a, b) in enumerate(zip(edges, edges[1:]))]


def parse_stream(data, eof, methods):
    """Strictly parse a byte stream of HTTP/1.x responses the way a client that knows the methods of its requests has
    to (memhttp.parse_responses plus RFC 7230 3.3.3 rule 1: a response to HEAD and a 1xx / 204 / 304 response end with
    their head whatever their header fields say).
    Returns (responses, leftover, problem). Each response: dict(status, reason, headers(list), body, framing).
    framing in {"length", "chunked", "close", "none"}; "none" = no body by definition; a close-delimited response
    consumes everything and needs eof."""
    out = []
    pos = 0
    n = len(data)
    while pos < n:
        he = data.find(b"\r\n\r\n", pos)
        if he < 0:
            if out and out[-1]["framing"] == "none":
                return out, bytes(data[pos:]), "bytes after bodiless response: %r" % bytes(data[pos:pos + 40])
            return out, bytes(data[pos:]), "incomplete head"
        head = bytes(data[pos:he]).split(b"\r\n")
        sl = head[0].split(b" ", 2)
        if len(sl) < 2 or not sl[0].startswith(b"HTTP/1.") or not sl[1].isdigit() or len(sl[1]) != 3:
            if out and out[-1]["framing"] == "none":
                return out, bytes(data[pos:]), "bytes after bodiless response: %r" % bytes(data[pos:pos + 40])
            return out, bytes(data[pos:]), "bad status line %r" % head[0][:60]
        hdrs = []
        for ln in head[1:]:
            if b":" not in ln:
                return out, bytes(data[pos:]), "bad header line %r" % ln[:60]
            k, v = ln.split(b":", 1)
            hdrs.append((k.decode("latin-1").strip().lower(), v.decode("latin-1").strip()))
        hd = dict(hdrs)
        body_start = he + 4
        resp = {"status": int(sl[1]), "reason": sl[2].decode("latin-1") if len(sl) > 2 else "", "headers": hdrs}
        method = methods[len(out)] if len(out) < len(methods) else "GET"
        if method == "HEAD" or resp["status"] in BODILESS_STATUS or 100 <= resp["status"] < 200:
            resp["body"] = b""
            resp["framing"] = "none"
            pos = body_start
        elif hd.get("transfer-encoding", "").lower() == "chunked":
            p = body_start
            body = bytearray()
            while True:
                le = data.find(b"\r\n", p)
                if le < 0:
                    return out, bytes(data[pos:]), "incomplete chunk size"
                size_s = bytes(data[p:le]).split(b";")[0]
                if not size_s or any(c not in b"0123456789abcdefABCDEF" for c in size_s):
                    return out, bytes(data[pos:]), "bad chunk size %r" % size_s[:20]
                size = int(size_s, 16)
                p = le + 2
                if size == 0:
                    # trailers until blank line
                    while True:
                        te = data.find(b"\r\n", p)
                        if te < 0:
                            return out, bytes(data[pos:]), "incomplete trailer"
                        line = data[p:te]
                        p = te + 2
                        if not line:
                            break
                    break
                if p + size + 2 > n:
                    return out, bytes(data[pos:]), "incomplete chunk"
                body.extend(data[p:p + size])
                if data[p + size:p + size + 2] != b"\r\n":
                    return out, bytes(data[pos:]), "chunk not terminated by CRLF"
                p += size + 2
            resp["body"] = bytes(body)
            resp["framing"] = "chunked"
            pos = p
        elif "content-length" in hd:
            try:
                ln = int(hd["content-length"])
            except ValueError:
                return out, bytes(data[pos:]), "bad content-length"
            if body_start + ln > n:
                return out, bytes(data[pos:]), "incomplete body (%d of %d)" % (n - body_start, ln)
            resp["body"] = bytes(data[body_start:body_start + ln])
            resp["framing"] = "length"
            pos = body_start + ln
        else:
            resp["body"] = bytes(data[body_start:])
            resp["framing"] = "close"
            pos = n
            out.append(resp)
            if not eof:
                return out, b"", "undelimited response on an open connection"
            return out, b"", None
        out.append(resp)
    return out, b"", None


def run_case(case):
    r = Result()
    reqs = case["reqs"]
    for q in reqs:       # outside the quantified domain (see ASSUMPTIONS): nothing to judge
        if bodiless(q) and (produced_body(q["app"]) or (status_code(q["app"]) == 204 and q["app"]["cl"] is not None)):
            r.labels.append("out-of-domain")
            return r
    table = [q["app"] for q in reqs]
    rig = memhttp.Rig(app=make_app(table), bs=64, tymeout=100000.0)   # idle timeouts are C12's business, keep them out of reach
    port = rig.connect()
    rig.cycle()
    ss = rig.ssock(port)
    if ss is not None:
        ss.send_script = [list(t) for t in case["script"]]
    built = [build_request(k, q) for k, q in enumerate(reqs)]
    try:
        for seg, cycles in plan(case, built):
            if rig.eof[port]:
                break
            rig.send(port, seg)
            for _ in range(cycles):
                rig.cycle()
        for _ in range(60):
            rig.cycle()
    except Exception as ex:      # noqa: BLE001
        r.fail("C18/service-raised", "%s: %s" % (type(ex).__name__, ex))
        return fin(r, case, 0)
    data = bytes(rig.rx[port])
    eof = rig.eof[port]
    resps, left, problem = parse_stream(data, eof, [q["method"] for q in reqs])
    # expected number of answers: up to and including the first non-persistent request
    cut = next((i for i, q in enumerate(reqs) if not persistent(q)), None)
    nexp = len(reqs) if cut is None else cut + 1
    if problem and problem.startswith("bytes after bodiless"):
        k = len(resps) - 1
        q = reqs[min(k, len(reqs) - 1)]
        if eof and k == nexp - 1 and not persistent(q):
            problem = None       # after the last response of a connection the server closed: no later response to confuse
            r.labels.append("bytes-after-last-bodiless-response-then-close")
        else:
            r.fail("C18/bytes-after-bodiless-response(HEAD/204/304)",
                   "response #%d (%s request, status %d) has no body by definition but is followed by %s; %d responses "
                   "expected, eof=%r" % (k, q["method"], resps[k]["status"], problem.split(": ", 1)[1], nexp, eof))
            return fin(r, case, len(resps))
    if problem:
        k = len(resps) - 1 if problem.startswith("undelimited") else len(resps)
        q = reqs[min(k, len(reqs) - 1)]
        sig = "C18/undelimited-response-on-open-connection" if problem.startswith("undelimited") else "C18/unparsable-response-stream"
        if problem.startswith("undelimited"):
            sig += undelimited_kind(q, k)
        elif resps and resps[-1]["framing"] == "chunked" and uses_write_empty(reqs[min(len(resps) - 1, len(reqs) - 1)]["app"]):
            sig += "(after a chunked response with an empty piece given to write())"
        r.fail(sig, "%s; response #%d of %d expected, eof=%r, request %r" % (problem, k, nexp, eof, {a: q[a] for a in ("ver", "conn")}))
        return fin(r, case, len(resps))
    for k, resp in enumerate(resps[:len(reqs)]):
        if resp["framing"] == "close" and persistent(reqs[k]):
            q = reqs[k]
            sig = "C18/undelimited-response-on-open-connection" + undelimited_kind(q, k)
            r.fail(sig, "response %d has neither Content-Length nor chunked coding although request %r keeps the connection open" % (
                k, {a: q[a] for a in ("ver", "conn")}))
            return fin(r, case, len(resps))
    if len(resps) != nexp:
        if eof and 1 <= len(resps) < nexp:
            k = len(resps) - 1
            r.fail("C18/closed-before-answering-next-request",
                   "request %d was persistent (%r) and %d requests were to be answered, but the server closed the connection "
                   "after response %d (leftover %r)" % (k, {a: reqs[k][a] for a in ("ver", "conn")}, nexp, k, left[:40]))
        else:
            r.fail("C18/response-count", "%d responses for %d answerable requests (eof=%r, leftover %r)" % (
                len(resps), nexp, eof, left[:40]))
        return fin(r, case, len(resps))
    for k, (resp, q) in enumerate(zip(resps, reqs)):
        spec = q["app"]
        want_status = status_code(spec)
        body = b"" if bodiless(q) else expected_body(spec)
        if resp["status"] != want_status:
            r.fail("C18/status", "response %d status %d, application said %d (responses out of order?)" % (k, resp["status"], want_status))
            break
        hd = dict(resp["headers"])
        miss = [(n, v) for n, v in spec["headers"] if hd.get(n.lower()) != v]
        if miss:
            r.fail("C18/headers", "response %d lacks application headers %r (got %r)" % (k, miss[:3], resp["headers"][:6]))
            break
        if spec.get("restart"):
            mine = {n.lower() for n, _v in spec["headers"]}
            stale = [n for n, _v in spec["restart"]["headers"] if n.lower() in hd and n.lower() not in mine]
            if stale:
                r.fail("C18/headers-of-replaced-start_response",
                       "response %d carries %r of the start_response call the application replaced" % (k, stale[:3]))
                break
        if resp["body"] != body:
            sig = "C18/body-exceeds-content-length" if len(resp["body"]) > len(body) and isinstance(spec["cl"], int) else "C18/body"
            r.fail(sig, "response %d body %r, application produced %r (framing %s)" % (k, resp["body"][:60], body[:60], resp["framing"]))
            break
        last = k == len(resps) - 1
        if resp["framing"] == "close" and not last:
            r.fail("C18/undelimited-response-on-open-connection", "response %d" % k)
            break
    if not r.failures:
        if cut is None and eof:
            r.fail("C18/closed-after-persistent-request", "all %d requests persistent but the server closed the connection" % len(reqs))
        elif cut is not None and not eof:
            r.fail("C18/not-closed-after-non-persistent-request", "request %d was not persistent (%r) but the connection is still open" % (
                cut, {a: reqs[cut][a] for a in ("ver", "conn")}))
    return fin(r, case, len(resps))


def uses_write_empty(spec):
    return any(w and not p for p, w in zip(spec["pieces"], via_of(spec)))


def undelimited_kind(q, k):
    if q["ver"] == "1.0":
        return "(HTTP/1.0 keep-alive without Content-Length)"
    if q["app"].get("restart"):
        return "(start_response replaced by a second call with exc_info)"
    if k >= 1:
        return "(second or later response on the connection)"
    return ""


def fin(r, case, nresp):
    reqs = case["reqs"]
    nocl = any(q["app"]["cl"] is None for q in reqs[:max(nresp, 1)])
    r.nontrivial = nresp >= 2 and nocl
    r.labels.append("responses=%d" % min(nresp, 4))
    r.labels.append("delivery:" + case["delivery"])
    if nocl:
        r.labels.append("response-without-content-length")
    if any(q["ver"] == "1.0" and persistent(q) for q in reqs):
        r.labels.append("http1.0-keep-alive")
    if any(bodiless(q) for q in reqs):
        r.labels.append("bodiless-response(HEAD/204/304)")
    if any(any(via_of(q["app"])) for q in reqs):
        r.labels.append("write-callable")
    if any(uses_write_empty(q["app"]) for q in reqs):
        r.labels.append("write-callable-empty-piece")
    if any(q["app"].get("restart") for q in reqs):
        r.labels.append("start_response-replaced")
    if any(chunked_request(q) for q in reqs):
        r.labels.append("chunked-request-body")
    if case["delivery"] == "segmented":
        built = [build_request(k, q) for k, q in enumerate(reqs)]
        if len(plan(case, built)) > 1:
            r.labels.append("request-stream-cut")
        if any(0 <= off < len(w) - hl for q, (w, hl) in zip(reqs, built) for off in q.get("cut") or []):
            r.labels.append("request-cut-between-head-and-end-of-body")
    return r


# ------------------------------------------------------------------ generation

HEADER = st.tuples(httpgen.header_name().map(lambda n: "X-" + n),
                   st.text(alphabet="abcdefghijklmnopqrstuvwxyz0123456789 ;=/", max_size=12).map(str.strip)).map(list)


def app_spec(clean=False):
    cl = st.sampled_from(["exact", "exact", None, None, 1, 3]) if not clean else st.sampled_from(["exact", "exact", 1, 2])
    restart = st.fixed_dictionaries({
        "status": st.sampled_from(["200 OK", "202 Accepted"]),
        "headers": st.lists(HEADER.map(lambda h: ["X-Old-" + h[0][2:], h[1]]), max_size=2, unique_by=lambda h: h[0].lower()),
        "cl": st.one_of(st.none(), st.integers(0, 40))})
    return st.fixed_dictionaries({
        "status": st.sampled_from(["200 OK", "200 OK", "201 Created", "404 Not Found", "500 Internal Server Error",
                                   "200 OK", "204 No Content", "304 Not Modified"]),
        "headers": st.lists(HEADER, max_size=3, unique_by=lambda h: h[0].lower()),
        "cl": cl,
        "pieces": st.lists(st.one_of(st.just(b""), st.binary(min_size=1, max_size=40)), max_size=4),
        "shape": st.sampled_from(["list", "gen", "genret"]),
        "ret": st.binary(max_size=10),
        "via": st.one_of(st.just([]), st.just([]), st.lists(st.integers(0, 1), max_size=4)),
        "restart": st.one_of(st.none(), st.none(), st.none(), restart)})


def in_domain(req):
    """Applications give HEAD requests and 204 / 304 statuses no body (their pieces become empty ones)."""
    if bodiless(req):
        app = dict(req["app"])
        app["pieces"] = [b"" for _p in app["pieces"]]
        app["ret"] = b""
        if app["cl"] != "exact" or status_code(app) == 204:
            app["cl"] = None
        req = dict(req, app=app)
    return req


def case_strategy(clean=False, segmented=False):
    req = st.fixed_dictionaries({
        "ver": st.sampled_from(["1.1", "1.1", "1.1", "1.0"]),
        "conn": st.sampled_from([None, None, None, "keep-alive", "Keep-Alive", "keep-alive", "close"]),
        "method": st.sampled_from(["GET", "POST", "GET", "POST", "GET", "POST", "HEAD"]), "body": st.binary(max_size=30),
        "app": app_spec(clean),
        "chunked": st.sampled_from([False, False, True]), "csize": st.integers(1, 12),
        # where the client's byte stream is cut, relative to the end of this request's head (< 0: inside the head)
        "cut": st.lists(st.one_of(st.integers(0, 12), st.integers(-60, 60)), max_size=2),
        "sep": st.booleans()}).map(in_domain)
    tok = st.one_of(st.tuples(st.just("accept"), st.integers(1, 50)), st.tuples(st.just("block"))).map(list)
    delivery = st.just("segmented") if segmented else st.sampled_from(["one-write", "spaced", "segmented"])
    return st.fixed_dictionaries({"reqs": st.one_of(st.lists(req, min_size=1, max_size=4), st.lists(req, min_size=2, max_size=4)),
                                  "delivery": delivery,
                                  "gaps": st.lists(st.integers(0, 3), min_size=1, max_size=4),
                                  "script": st.lists(tok, max_size=10)})


def searches(tier):
    q = tier == "quick"
    return [("apps", case_strategy(), 1500 if q else 12000),
            # every response declares a Content-Length: explores ordering / closing behind the framing findings
            ("apps-with-content-length", case_strategy(clean=True), 700 if q else 6000),
            # requests arriving piecemeal: what the server decides between the segments of one request
            ("segmented-requests", case_strategy(clean=True, segmented=True), 500 if q else 4000)]

"""C08 Timers measure elapsed tyme exactly and restart losslessly.

Two harnesses, both driven by generated operation lists:

tymer:  a Tymer on a harness-owned Tymist.  After every operation the model
        (start, stop as exact dyadic rationals held in floats) predicts
        elapsed == now - start, remaining == stop - now, expired == (now >= stop),
        duration == stop - start; restart() begins the next period at the previous
        stop and keeps the duration unless one is given; wind() restarts at the new
        tymist's tyme with the same duration.

mono:   a MonoTimer whose time module is a harness clock that can stall and step
        backwards.  Within one period (between start/restart calls) successive
        elapsed readings never decrease and expired never reverts from True to
        False.  For scripts with no backward step it must also be exact
        (elapsed == now - start), otherwise a timer that never advances would pass.

All generated values are k/1024 with bounded k, so every sum and difference is
exact in binary floating point and the oracles compare with ==.  A separate
'float' class uses arbitrary finite floats with a stated relative tolerance.
"""
import math

from hypothesis import strategies as st

from hio.base import tyming
from hio.help import timing
from vlib.core import Result, assert_in_tree

assert_in_tree(tyming, timing)

PID = "C08"
RULE = ("cases: operation lists (<= 40 ops) over a Tymer (advance / rewind tyme, start(duration?, start?), "
        "restart(duration?), wind to another tymist, readings) and over a MonoTimer on a harness clock "
        "(advance, stall, step back, start, restart, readings); values k/1024 (exact) or arbitrary floats "
        "(tolerance 16 ulp of the largest clock magnitude). non-trivial = tymer history with a restart before expiry and one after "
        "expiry, or mono history with a backward step after a reading followed by a later reading; distinct = "
        "canonical hash of the op list")
ASSUMPTIONS = ["the harness clock object replaces the time module inside hio.help.timing for the duration of a case",
               "MonoTimer exactness (elapsed == now - start) is judged only for scripts without backward steps"]


class Clock:
    def __init__(self, t):
        self.t = t

    def time(self):
        return self.t


SCALE = {"tymer": 1e8, "mono": 4e9}   # bound on the magnitude of any clock value in the float classes


def close(a, b, exact, kind="tymer"):
    if exact:
        return a == b
    # float classes: each reading is a handful of additions on values below SCALE
    return abs(a - b) <= 16 * math.ulp(SCALE[kind])


def run_tymer(case, r):
    exact = case.get("exact", True)
    tymists = [tyming.Tymist(tyme=case["tyme0"]), tyming.Tymist(tyme=case["tyme1"])]
    cur = 0
    ctor = case["ctor"]
    kw = {}
    if ctor["duration"] is not None:
        kw["duration"] = ctor["duration"]
    if ctor["start"] is not None:
        kw["start"] = ctor["start"]
    if ctor["wound"]:
        kw["tymth"] = tymists[0].tymen()
    t = tyming.Tymer(**kw)
    dur = ctor["duration"] if ctor["duration"] is not None else 0.0
    if ctor["start"] is not None:
        mstart = ctor["start"]
    elif ctor["wound"]:
        mstart = tymists[0].tyme
    else:
        mstart = 0.0
    mstop = mstart + dur
    wound = ctor["wound"]
    restarts_before = restarts_after = 0

    def judge(step):
        if not close(t.duration, mstop - mstart, exact):
            r.fail("C08/tymer-duration", "step %s duration %r model %r" % (step, t.duration, mstop - mstart))
            return False
        if not wound:
            return True
        now = tymists[cur].tyme
        if not close(t.elapsed, now - mstart, exact):
            r.fail("C08/tymer-elapsed", "step %s elapsed %r != now %r - start %r" % (step, t.elapsed, now, mstart))
            return False
        if not close(t.remaining, mstop - now, exact):
            r.fail("C08/tymer-remaining", "step %s remaining %r != stop %r - now %r" % (step, t.remaining, mstop, now))
            return False
        if exact or abs(now - mstop) > 16 * math.ulp(SCALE['tymer']):
            if t.expired != (now >= mstop):
                r.fail("C08/tymer-expired", "step %s expired %r but now %r stop %r" % (step, t.expired, now, mstop))
                return False
        return True

    if not judge("ctor"):
        return
    for i, op in enumerate(case["ops"]):
        k = op[0]
        if k == "adv":
            tymists[cur].tyme = tymists[cur].tyme + op[1]
        elif k == "tick":
            tymists[cur].tick()
        elif k == "rewind":
            tymists[cur].tyme = op[1]
        elif k == "wind":
            cur = op[1]
            t.wind(tymists[cur].tymen())
            wound = True
            d = mstop - mstart
            mstart = tymists[cur].tyme
            mstop = mstart + d
        elif k == "start":
            if not wound and op[2] is None:
                continue   # start at current tyme needs a tymist
            d = op[1] if op[1] is not None else (mstop - mstart)
            # what start()/restart() return is not part of the statement: the period they begin is judged from the
            # readings (elapsed, remaining, expired) right after, in judge(i) below
            t.start(duration=op[1], start=op[2])
            mstart = op[2] if op[2] is not None else tymists[cur].tyme
            mstop = mstart + d
        elif k == "restart":
            if wound:
                if tymists[cur].tyme >= mstop:
                    restarts_after += 1
                else:
                    restarts_before += 1
            d = op[1] if op[1] is not None else (mstop - mstart)
            t.restart(duration=op[1])
            prev_stop = mstop
            mstart = prev_stop
            mstop = mstart + d
        elif k == "read":
            pass
        else:
            raise ValueError(k)
        if not judge(i):
            return
    r.nontrivial = restarts_before >= 1 and restarts_after >= 1
    if restarts_before:
        r.labels.append("tymer:restart-before-expiry")
    if restarts_after:
        r.labels.append("tymer:restart-after-expiry")
    if not exact:
        r.labels.append("tymer:float-class")


def run_mono(case, r):
    exact = case.get("exact", True)
    clock = Clock(case["t0"])
    saved = timing.time
    timing.time = clock
    try:
        ctor = case["ctor"]
        kw = {"duration": ctor["duration"]}
        if ctor["start"] is not None:
            kw["start"] = ctor["start"]
        m = timing.MonoTimer(**kw)
        mstart = ctor["start"] if ctor["start"] is not None else clock.t
        dur = ctor["duration"]
        any_back = False
        back_after_read = False
        nontrivial = False
        last_elapsed = None
        last_expired = None
        had_read = False
        probes = 0
        tol = 0.0 if exact else 16 * math.ulp(SCALE['mono'])
        for i, op in enumerate(case["ops"]):
            k = op[0]
            if k == "adv":
                clock.t = clock.t + op[1]
            elif k == "back":
                clock.t = clock.t - op[1]
                if op[1] > 0:
                    any_back = True
                    if had_read:
                        back_after_read = True
            elif k == "start":
                if op[1] is not None:
                    dur = op[1]
                m.start(duration=op[1])
                mstart = clock.t
                last_elapsed = last_expired = None
                had_read = False
            elif k == "restart":
                d = op[1] if op[1] is not None else dur
                # lossless restart judged from readings only: on a forward-only clock from the model (new start = old
                # start + old duration); with a probe (op[2]) also after backward steps: with the clock held still,
                # elapsed right after the restart is minus the remaining right before it
                before_stop = (mstart + dur) if mstart is not None else None
                probe = len(op) > 2 and op[2]
                if probe:
                    rem = m.remaining
                m.restart(duration=op[1])
                if probe:
                    e2 = m.elapsed
                    probes += 1
                    if not close(e2, -rem, exact, 'mono'):
                        r.fail("C08/mono-restart-lossless", "step %d elapsed %r right after restart, remaining before %r" % (
                            i, e2, rem))
                        return
                if not close(m.duration, d, exact, 'mono'):
                    r.fail("C08/mono-restart-duration", "step %d duration %r expected %r" % (i, m.duration, d))
                    return
                dur = d
                # the new period begins at the previous stop - possibly in the future (restart before expiry): on a clock
                # that has only run forward its readings stay exact (elapsed may be negative until the period begins)
                mstart = before_stop if not any_back else None
                last_elapsed = last_expired = None
                had_read = False
                if probe:
                    last_elapsed = e2
                    had_read = True
            elif k in ("elapsed", "expired", "remaining", "remfirst"):
                if k == "remfirst":
                    # remaining read before anything else notices a backward step: it still is duration - elapsed
                    rem0 = m.remaining
                if k != "expired":
                    e = m.elapsed
                    if k == "remfirst" and not close(rem0, m.duration - e, exact, 'mono'):
                        r.fail("C08/mono-remaining", "step %d remaining %r read first but duration %r - elapsed %r" % (
                            i, rem0, m.duration, e))
                        return
                    if last_elapsed is not None and e < last_elapsed - tol:
                        r.fail("C08/mono-elapsed-decreased", "step %d elapsed %r after %r" % (i, e, last_elapsed))
                        return
                    if not any_back and mstart is not None and not close(e, clock.t - mstart, exact, 'mono'):
                        r.fail("C08/mono-elapsed-exact", "step %d elapsed %r, forward-only clock says %r" % (
                            i, e, clock.t - mstart))
                        return
                    if k == "remaining":
                        rem = m.remaining
                        if not close(rem, m.duration - e, exact, 'mono'):
                            r.fail("C08/mono-remaining", "step %d remaining %r but duration %r - elapsed %r" % (
                                i, rem, m.duration, e))
                            return
                    last_elapsed = e
                else:
                    x = m.expired
                    if last_expired and not x:
                        r.fail("C08/mono-expired-reverted", "step %d expired went True -> False" % i)
                        return
                    if not any_back and mstart is not None and exact and x != (clock.t - mstart >= dur):
                        r.fail("C08/mono-expired-exact", "step %d expired %r, elapsed %r duration %r" % (
                            i, x, clock.t - mstart, dur))
                        return
                    last_expired = x
                if back_after_read:
                    nontrivial = True
                had_read = True
            else:
                raise ValueError(k)
        r.nontrivial = nontrivial
        if any_back:
            r.labels.append("mono:backward-step")
        if probes:
            r.labels.append("mono:restart-probed" + ("-after-back" if any_back else ""))
        if back_after_read and nontrivial:
            r.labels.append("mono:back-after-read-then-read")
        if not exact:
            r.labels.append("mono:float-class")
    finally:
        timing.time = saved


def run_case(case):
    r = Result()
    if case["k"] == "tymer":
        run_tymer(case, r)
    else:
        run_mono(case, r)
    return r


def dy(lo=0, hi=1 << 16):
    return st.integers(lo, hi).map(lambda k: k / 1024.0)


def _tymer(exact=True):
    val = dy() if exact else st.floats(0, 1e6, allow_nan=False, allow_infinity=False)
    sval = dy(0, 1 << 17) if exact else st.floats(0, 1e6, allow_nan=False)
    optd = st.one_of(st.none(), val)
    op = st.one_of(
        st.tuples(st.just("adv"), val),
        st.tuples(st.just("adv"), val),
        st.tuples(st.just("tick")),
        st.tuples(st.just("rewind"), sval),
        st.tuples(st.just("wind"), st.integers(0, 1)),
        st.tuples(st.just("start"), optd, st.one_of(st.none(), sval)),
        st.tuples(st.just("restart"), optd),
        st.tuples(st.just("restart"), st.none()),
        st.tuples(st.just("read")),
    ).map(list)
    return st.fixed_dictionaries({
        "k": st.just("tymer"), "exact": st.just(exact),
        "tyme0": sval, "tyme1": sval,
        "ctor": st.fixed_dictionaries({"duration": optd, "start": st.one_of(st.none(), sval),
                                       "wound": st.booleans()}),
        "ops": st.lists(op, min_size=1, max_size=40)})


def _mono(exact=True):
    val = dy(0, 1 << 14) if exact else st.floats(0, 1e4, allow_nan=False)
    base = st.integers(1 << 20, 1 << 24).map(float) if exact else st.floats(1e6, 2e9, allow_nan=False)
    optd = st.one_of(st.none(), val)
    op = st.one_of(
        st.tuples(st.just("adv"), val),
        st.tuples(st.just("adv"), val),
        st.tuples(st.just("back"), val),
        st.tuples(st.just("start"), optd),
        st.tuples(st.just("restart"), optd, st.booleans()),
        st.tuples(st.just("elapsed")),
        st.tuples(st.just("elapsed")),
        st.tuples(st.just("expired")),
        st.tuples(st.just("expired")),
        st.tuples(st.just("remaining")),
        st.tuples(st.just("remfirst")),
    ).map(list)
    return st.fixed_dictionaries({
        "k": st.just("mono"), "exact": st.just(exact), "t0": base,
        "ctor": st.fixed_dictionaries({"duration": val, "start": st.none()}),
        "ops": st.lists(op, min_size=1, max_size=40)})


def searches(tier):
    q = tier == "quick"
    return [
        ("tymer-dyadic", _tymer(True), 1200 if q else 12000),
        ("mono-dyadic", _mono(True), 1200 if q else 12000),
        ("tymer-float", _tymer(False), 300 if q else 3000),
        ("mono-float", _mono(False), 300 if q else 3000),
    ]
